"""C08/C19: Series.isin(list of strings) built the operand with list(set(values)), so the
expression name depended on PYTHONHASHSEED.  Run: python kf_isin_hashseed.py  (spawns 3 interpreters)."""
import subprocess, sys, os
code = '''
import warnings; warnings.filterwarnings("ignore")
import pandas as pd, numpy as np, dask_expr as dx
pdf = pd.DataFrame({"a":list("abcdefgh"), "b":np.arange(8.)})
df = dx.from_pandas(pdf, npartitions=2)
print(df.a.isin(["a","b","c","d"])._name)
'''
names = set()
for seed in ("0", "1", "2"):
    env = dict(os.environ, PYTHONHASHSEED=seed)
    names.add(subprocess.check_output([sys.executable, "-c", code], env=env, text=True).strip())
print(names)
assert len(names) == 1, "isin name differs between hash seeds"
