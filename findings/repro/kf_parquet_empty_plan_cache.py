"""C15/C07/C18: ReadParquetFSSpec._plan cached `parts = [self._meta]` for a dataset whose row groups are all
filtered out, under a key that does not contain the column selection: a later query on the same dataset
with other columns computed the FIRST query's (column-wise) empty frame."""
import os, shutil, tempfile, warnings; warnings.filterwarnings("ignore")
import pandas as pd, dask_expr as dx
d = tempfile.mkdtemp(prefix="kf_plan_")
try:
    pdf = pd.DataFrame({"a": [1, 2, 3], "b": [1.0, 2.0, 3.0], "c": list("xyz")})
    dx.from_pandas(pdf, npartitions=1).to_parquet(d)
    flt = [("a", ">", 100)]
    first = dx.read_parquet(d, filters=flt, columns=["a"]).compute()
    second = dx.read_parquet(d, filters=flt, columns=["b", "c"])
    got = second.compute()
    print(list(second.columns), list(got.columns))
    assert list(got.columns) == list(second.columns) == ["b", "c"], "result depends on the earlier query"
finally:
    shutil.rmtree(d)
