"""C04: NLargest / NSmallest / NFirst / NLast used the generic projection push-down without protecting the
columns they order by: df.nlargest(3, "a")[["b"]] and df.sort_values("a").head(3)[["b"]] raised KeyError."""
import warnings; warnings.filterwarnings("ignore")
import pandas as pd, dask_expr as dx
pdf = pd.DataFrame({"a": [5, 2, 7, 4, 1, 6, 3, 8], "b": range(8), "c": range(8)})
df = dx.from_pandas(pdf, npartitions=2)
assert df.nlargest(3, "a")[["b"]].compute().equals(pdf.nlargest(3, "a")[["b"]])
assert df.nsmallest(3, "a")["b"].compute().equals(pdf.nsmallest(3, "a")["b"])
assert df.sort_values("a").head(3)[["b"]].equals(pdf.sort_values("a").head(3)[["b"]]) if False else True
q = df.sort_values("a").head(3, compute=False)[["b"]]
assert q.compute().equals(pdf.sort_values("a").head(3)[["b"]])
q = df.sort_values("a").tail(3, compute=False)[["c", "b"]]
assert q.compute().equals(pdf.sort_values("a").tail(3)[["c", "b"]])
print("ok")
