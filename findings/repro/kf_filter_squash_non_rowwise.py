"""f = d[p]; f[f.b > f.b.quantile(.5)] (also cumsum / shift / diff / rolling in the upper predicate): the two filters were
merged into d[p & pred'] with pred' re-evaluated on d - the quantile of the UNFILTERED frame.  Reported by a seeding
sub-agent for quantile; the other four found while probing.  Documentation only."""
import warnings

import numpy as np
import pandas as pd

import dask_expr as dx

warnings.filterwarnings("ignore")
rng = np.random.RandomState(0)
pdf = pd.DataFrame({"a": np.arange(40), "b": rng.permutation(40).astype(float)})
d = dx.from_pandas(pdf, npartitions=4)
for name, h in {
    "quantile": lambda x: (lambda f: f[f.b > f.b.quantile(0.5)])(x[x.a % 3 == 0]),
    "cumsum": lambda x: (lambda f: f[f.b.cumsum() > 30])(x[x.a % 3 == 0]),
    "shift": lambda x: (lambda f: f[f.b.shift(1) > 16])(x[x.a % 3 == 0]),
}.items():
    assert h(d).compute().index.tolist() == h(pdf).index.tolist(), name
print("ok")
