"""groupby(...)[[list]].<agg>()[col]: the frame is pruned to `col` but the groupby slice still names the list."""
import sys  # run with PYTHONPATH=<tree>; exits 1 where the defect is present
import pandas as pd
import dask_expr
from dask_expr import from_pandas

print(dask_expr.__file__)
pdf = pd.DataFrame({"g": [1, 2, 3, 1, 2, 3, 1, 2], "x": [10.0, 20, 30, 40, 50, 60, 70, 80],
                    "y": [1.0, 1, 2, 2, 3, 3, 5, 9], "z": [3.0, 4, 1, 2, 9, 8, 7, 5]})
df = from_pandas(pdf, npartitions=3)

errors = {}
for method in ["sum", "max", "count", "first", "median"]:
    expected = getattr(pdf.groupby("g")[["x", "y"]], method)()["y"]
    q = getattr(df.groupby("g")[["x", "y"]], method)()["y"]
    try:
        got = q.compute().sort_index()
        pd.testing.assert_series_equal(got, expected, check_dtype=False)
    except Exception as exc:
        errors[method] = f"{type(exc).__name__}: {exc}"
        print(f"{method}: expected\n{expected}\ngot {errors[method]}")
# same thing written so that the slice is a scalar works:
pd.testing.assert_series_equal(df.groupby("g")["y"].sum().compute().sort_index(), pdf.groupby("g")["y"].sum())
assert not errors, f"groupby with a list slice + column selection fails when optimized: {errors}"
