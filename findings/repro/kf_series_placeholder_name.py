import sys; pass  # run with PYTHONPATH=<tree>; exits 1 where the defect is present
import pandas as pd
import dask_expr as dx

print(dx.__file__)
pdf = pd.DataFrame({"x": [1, 2, 2, 3, 3, 3, 4, 4]})
df = dx.from_pandas(pdf, npartitions=3)
problems = []
for name in [None, 0, "", "x"]:
    s = df.x.rename(name)                      # a Series called None / 0 / "" / "x"
    q = s.drop_duplicates()
    expected = pdf.x.rename(name).drop_duplicates().name
    declared = q.name
    optimized = q.optimize().name
    computed = q.compute().name
    parts = {q.partitions[i].compute().name for i in range(q.npartitions)}
    print(f"name={name!r:5} declared={declared!r:5} optimized={optimized!r:12} "
          f"computed={computed!r:12} partitions={parts}")
    if not (expected == declared == optimized == computed) or parts != {expected}:
        problems.append(f"name {name!r}: expected {expected!r}, declared {declared!r}, "
                        f"after optimize {optimized!r}, computed {computed!r}")
# consequence: the bogus label shows up as a column
f = df.x.rename(None).drop_duplicates().to_frame().compute()
print("to_frame columns:", list(f.columns), "pandas:", list(pdf.x.rename(None).drop_duplicates().to_frame().columns))
assert not problems, "\n" + "\n".join(problems)
print("OK")
