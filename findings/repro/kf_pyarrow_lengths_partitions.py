"""C06/C18: ReadParquetPyarrowFS._get_lengths ignored _partitions: len(df.partitions[0]) answered from
statistics was the length of the whole dataset (once the selection had been absorbed by optimize())."""
import os, shutil, tempfile, warnings; warnings.filterwarnings("ignore")
import pandas as pd, dask_expr as dx
d = tempfile.mkdtemp(prefix="kf_len_")
try:
    pdf = pd.DataFrame({"a": range(40), "b": range(40)})
    dx.from_pandas(pdf, npartitions=10).to_parquet(d)
    df = dx.read_parquet(d, filesystem="arrow")
    p = df.partitions[[2, 5]]
    po = p.optimize()  # the selection is absorbed into the reader's _partitions operand
    print(len(po), len(po + 1), len(p.compute()))
    assert len(po) == len(po + 1) == len(p.compute()) == 8
finally:
    shutil.rmtree(d)
