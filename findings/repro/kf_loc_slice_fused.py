"""(df.loc[25:] + 1).compute(): LocSlice is a Blockwise with a hand-written _layer whose tasks read partition start + i of
the input; is_valid_blockwise_op admitted it to fused groups, which only wire the same-numbered partition.
Found by a seeding sub-agent; rule R14d now requires the eligibility test to exclude every Blockwise class whose layer is
hand-written.  Documentation only."""
import numpy as np
import pandas as pd
from dask.dataframe.utils import assert_eq

import dask_expr as dx

pdf = pd.DataFrame({"v": np.arange(40.0)}, index=np.arange(40))
d = dx.from_pandas(pdf, npartitions=4)
assert_eq(d.loc[25:] + 1, pdf.loc[25:] + 1)
assert_eq(d.loc[[3, 17, 33]] + 1, pdf.loc[[3, 17, 33]] + 1)
print("ok")
