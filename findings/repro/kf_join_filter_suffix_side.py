# Second defect of the same rule (Merge filter push-down), see notes.md
import sys; pass  # run with PYTHONPATH=<tree>; exits 1 where the defect is present
import dask, pandas as pd, dask_expr
from dask_expr import from_pandas

def unoptimized(x):
    e = x.expr.lower_completely()
    return pd.concat(dask.get(e.__dask_graph__(), e.__dask_keys__()))

def canon(d):
    return d.sort_values(list(d.columns)).reset_index(drop=True)

l = pd.DataFrame({"k": [1, 2, 3, 4, 5, 6], "v": [1, 2, 3, 4, 5, 6]})
r = pd.DataFrame({"k": [1, 2, 3, 7], "v": [0, 5, 6, 7]})
dl, dr = from_pandas(l, npartitions=2), from_pandas(r, npartitions=2)

m = dl.merge(dr, on="k", how="left", suffixes=("_l", ""))    # columns k, v_l, v (v comes from the right)
q = m[m.v > 1]                                               # unmatched left rows have v = NaN -> dropped
pm = l.merge(r, on="k", how="left", suffixes=("_l", ""))
expected = canon(pm[pm.v > 1])
plain, opt = canon(unoptimized(q)), canon(q.compute())
print("pandas / unoptimized:\n", plain, "\noptimized:\n", opt, sep="")
pd.testing.assert_frame_equal(plain, expected)
try:
    pd.testing.assert_frame_equal(opt, expected, check_dtype=False)
except AssertionError as e:
    print("PROPERTY VIOLATED: filter on a right-hand column was moved into the right input of a LEFT join\n", e)
    sys.exit(1)
