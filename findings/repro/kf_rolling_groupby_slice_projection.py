"""df.groupby('g')[['x', 'y']].rolling(2).sum()['y'] raised KeyError once optimized: the projection pruned the frame while the
groupby_slice operand still listed 'x' (fixed in /repo by cd5cd47; found by rule R04j's discovery pass).
Run with PYTHONPATH=<tree>; exits 1 where the defect is present."""
import sys
import warnings

import numpy as np
import pandas as pd

warnings.filterwarnings("ignore")
import dask_expr as dx

p = pd.DataFrame({"g": [1, 2, 1, 2, 3, 3, 1, 2], "x": range(8), "y": np.arange(8) * 2.0})
d = dx.from_pandas(p, npartitions=1)
try:
    got = d.groupby("g")[["x", "y"]].rolling(2).sum()["y"].compute()
except KeyError as e:
    print("KeyError", e)
    sys.exit(1)
exp = p.groupby("g")[["x", "y"]].rolling(2).sum()["y"]
sys.exit(0 if got.sort_index().equals(exp.sort_index()) else 1)
