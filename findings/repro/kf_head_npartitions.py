"""C11: Head._simplify_down rebuilt Head(op, n, self.npartitions) where self.npartitions is the property
(always 1), not the operand: (df.a + 1).head(7, npartitions=2) returned fewer rows than pandas."""
import warnings; warnings.filterwarnings("ignore")
import pandas as pd, dask_expr as dx
pdf = pd.DataFrame({"a": range(12)})
df = dx.from_pandas(pdf, npartitions=3)  # 4 rows per partition
got = (df.a + 1).head(7, npartitions=2)
print(len(got))
assert len(got) == 7, len(got)
got2 = df.head(3, npartitions=2, compute=False).head(6, npartitions=2)
