"""C14: an already fused frame is fused again together with one of its own inputs
(`x` feeds the optimized frame `f` and the new operation).  The inner group's
placeholder for `x` overwrites the task of `x` in the outer group and is bound to a
different input.  Exits 0 when the property holds."""
import sys; pass  # run with PYTHONPATH=<tree>; exits 1 where the defect is present (fixed in /repo by 1eb7807)
import pandas as pd
import dask_expr as dx

print(dx.__file__)
pdf = pd.DataFrame({"a": range(12), "k": [0, 1, 2] * 4})
small = pd.DataFrame({"k": [0, 1, 2], "v": [10, 20, 30]})
df = dx.from_pandas(pdf, npartitions=3)
sm = dx.from_pandas(small, npartitions=1)

def add_total(d, s):                 # broadcast the small frame to every partition
    return d + s.k.sum()

x = sm * 2                           # k.sum() == 6
y = x + 1                            # k.sum() == 9
f = df.map_partitions(add_total, y, meta=pdf).optimize()    # optimized, used again
q = f.map_partitions(add_total, x, meta=pdf)

expected = pdf + 9 + 6
unfused = q.compute(fuse=False)
fused = q.compute()
pd.testing.assert_frame_equal(unfused, expected)
assert fused.equals(expected), f"fusion changed the result\nexpected (pandas == unfused):\n{expected.head(4)}\nfused:\n{fused.head(4)}"
print("ok")
