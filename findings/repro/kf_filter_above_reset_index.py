import sys; pass  # run with PYTHONPATH=<tree>; exits 1 where the defect is present (fixed in /repo by 08de751)
import pandas as pd, dask, dask_expr
from dask_expr import from_pandas
print(dask_expr.__file__)

def unoptimized(c):
    e = c.expr.lower_completely()
    return pd.concat(dask.get(e.__dask_graph__(), e.__dask_keys__()))

def check(name, build, coll, pobj, key):
    expected = key(build(pobj))
    assert key(unoptimized(build(coll))) == expected, name       # fine where it stands
    try:
        got = key(build(coll).compute())
    except Exception as e:
        got = f"{type(e).__name__}: {str(e)[:60]}"
    print(f"{name:34} expected {expected}  got {got}")
    return got == expected

pdf = pd.DataFrame({"a": [5, 1, 4, 2, 3, 6]}, index=[10, 11, 12, 13, 14, 15])
df = from_pandas(pdf, npartitions=3)
ps = pd.Series([5.0, 1, 7, 3, 8, 2], name="a", index=range(10, 16))
s = from_pandas(ps, npartitions=3)
# same data, index labels 0..2 in every partition and unknown divisions: no error, wrong rows
pdf2 = pd.DataFrame({"a": [5, 1, 4, 2, 3, 6]}, index=[1, 0, 2, 2, 1, 0])
df2 = from_pandas(pdf2, npartitions=2, sort=False)

A = lambda f: f.a.tolist()
ok = [
    check("former index AND a column", lambda d: (lambda x: x[(x["index"] > 11) & (x.a > 2)])(d.reset_index()), df, pdf, A),
    check("former index vs a column", lambda d: (lambda x: x[x["index"] > x.a + 9])(d.reset_index()), df, pdf, A),
    check("Series.reset_index(drop=True)", lambda d: (lambda x: x[x > 3])(d.reset_index(drop=True)), s, ps, lambda f: f.tolist()),
    check("unnamed Series.reset_index()", lambda d: (lambda x: x[x[0] > 3])((d + 1).rename(None).reset_index()), s, ps, lambda f: f[0].tolist()),
    check("unknown divisions (silent)", lambda d: (lambda x: x[(x["index"] >= 1) & (x.a > 2)])(d.reset_index()), df2, pdf2, A),
]
assert all(ok), "a filter above reset_index() fails or selects other rows once optimized"
