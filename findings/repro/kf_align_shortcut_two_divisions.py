"""Alignment skips the repartition step whenever the combined divisions have
two entries; inputs partitioned (a, b, b) vs (a, b), or two single-partition
frames with different ranges, are then combined partition-by-partition."""
import sys

pass  # run with PYTHONPATH=<tree>; exits 1 where the defect is present
import dask
import pandas as pd

import dask_expr as dx

print(dx.__file__)
dask.config.set(scheduler="sync")

# (1) silent wrong result: 2-partition frame vs 1-partition series
a = pd.DataFrame({"x": [1, 2], "w": [5, 6]}, index=[0, 1])
s = pd.Series([10, 20], index=[0, 1], name="y")
da = dx.from_pandas(a, npartitions=2)  # divisions (0, 1, 1)
ds = dx.from_pandas(s, npartitions=1)  # divisions (0, 1)
print(da.divisions, ds.divisions)
got = da.sub(ds, axis=0).compute()
exp = a.sub(s, axis=0)
print("got:\n", got, "\nexpected:\n", exp, sep="")
wrong = not got.astype(float).equals(exp.astype(float))

# (2) crash: two single-partition frames covering different ranges
b = pd.DataFrame({"x": [1, 2, 3]}, index=[0, 1, 2])
c = pd.DataFrame({"x": [10, 20, 30]}, index=[1, 2, 3])
try:
    out = (dx.from_pandas(b, npartitions=1).x + dx.from_pandas(c, npartitions=1).x).compute()
    crashed = not out.equals(b.x + c.x)
except AssertionError as e:
    print("single-partition add raised AssertionError", e)
    crashed = True

assert not wrong, "frame.sub(series, axis=0) returned extra NaN rows"
assert not crashed, "series + series of two one-partition frames failed"
