import sys; pass  # run with PYTHONPATH=<tree>; exits 1 where the defect is present (fixed in /repo by 30c4e2e)
import pandas as pd, dask, dask_expr
from dask_expr import from_pandas
print(dask_expr.__file__)

def unoptimized(c):
    e = c.expr.lower_completely()
    return pd.concat(dask.get(e.__dask_graph__(), e.__dask_keys__()))

def rows(f):
    return sorted(map(tuple, f.values.tolist()))

l = pd.DataFrame({"k": [1, 2, 2, 3, 4, 7], "a": [10, 20, 30, 40, 50, 1000]})
r = pd.DataFrame({"k": [1, 2, 2, 3, 5], "b": [1, 2, 3, 4, 5]})
dl, dr = from_pandas(l, npartitions=2), from_pandas(r, npartitions=2)
m, pm = dl.merge(dr, on="k"), l.merge(r, on="k")        # inner join: a = 10,20,20,30,30,40

preds = {
    "a > a.mean()":        lambda d: d.a > d.a.mean(),            # control: handled (not pushed)
    "a > a.mean() * 1.0":  lambda d: d.a > d.a.mean() * 1.0,
    "a > a.sum() / 10":    lambda d: d.a > d.a.sum() / 10,
    "a - a.mean() > 0":    lambda d: d.a - d.a.mean() > 0,
    "a >= a.max()":        lambda d: d.a >= d.a.max(),            # control
    "a >= a.max() + 0":    lambda d: d.a >= d.a.max() + 0,
}
bad = []
for name, pred in preds.items():
    expected = rows(pm[pred(pm)])
    assert rows(unoptimized(m[pred(m)])) == expected
    got = rows(m[pred(m)].compute())
    flag = "" if got == expected else "   <-- WRONG"
    print(f"{name:20} expected {len(expected)} rows, got {len(got)} rows{flag}")
    if got != expected:
        bad.append(name)
assert not bad, f"the reduction inside the predicate was recomputed over the LEFT INPUT of the join: {bad}"
