import sys; pass  # run with PYTHONPATH=<tree>; exits 1 where the defect is present (fixed in /repo by 645b38c)
import numpy as np, pandas as pd
import dask_expr as dx

print(dx.__file__)
idx = pd.date_range("2020-01-01", periods=20, freq="h", name="t")
pdf = pd.DataFrame({"x": range(20), "y": np.arange(20) * 1.5}, index=idx)
df = dx.from_pandas(pdf, npartitions=4)

def declared(c):
    m = c._meta
    return (type(c).__name__, list(m.columns) if m.ndim == 2 else m.name,
            [str(d) for d in m.dtypes] if m.ndim == 2 else str(m.dtype))

failures = []
queries = {
    "size": df.resample("3h").size(),                   # Series
    "ohlc": df.x.resample("3h").ohlc(),                 # DataFrame open/high/low/close
    "agg": df.resample("3h").agg({"x": "sum"}),         # DataFrame ['x']
    "mean": df.x.resample("3h").mean(),                 # float64
    "count": df.resample("3h").count(),                 # int64, int64
}
for name, q in queries.items():
    before, after, kept = declared(q), declared(q.optimize()), declared(q.persist())
    print(f"{name:6s} declared {before}\n       optimized {after}\n       persisted {kept}")
    if before != after or before != kept:
        failures.append(name)

# consequence: the persisted collection has the wrong container type
p = df.x.resample("3h").ohlc().persist()
try:
    p["open"].compute()
except Exception as e:
    print("persisted ohlc()['open'] ->", type(e).__name__, e)
    failures.append("ohlc-getitem")
assert not failures, f"optimization changed the declared schema of: {failures}"
print("OK")
