"""KF07 (R18d): read_parquet(..., filesystem="arrow") accepts `index=` and `categories=`, forwards them to
ReadParquetPyarrowFS and never reads them (`self.index` there is the Index *expression* of Expr, which shadows the
operand).  The fsspec reader honours both, so the two reader implementations return different frames for one call.
Documentation only - no check runs this."""
import shutil
import tempfile

import pandas as pd

import dask_expr as dx

d = tempfile.mkdtemp(prefix="kf07_")
try:
    pdf = pd.DataFrame({"a": [1, 2, 3, 4], "b": [10, 20, 30, 40], "c": pd.Categorical(list("xyxy"))})
    dx.from_pandas(pdf, npartitions=2).to_parquet(d)
    a = dx.read_parquet(d, index="b")
    b = dx.read_parquet(d, index="b", filesystem="arrow")
    print("fsspec index:", a.compute().index.name, list(a.columns))
    print("arrow  index:", b.compute().index.name, list(b.columns))
    assert a.compute().index.name == "b"
    assert b.compute().index.name == "b", "arrow reader ignored index='b'"
finally:
    shutil.rmtree(d, ignore_errors=True)
