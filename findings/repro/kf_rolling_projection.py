"""C04/C07/C01: RollingReduction._simplify_up pushed a projection below the rolling op and dropped the parent
Projection: df.rolling(2).sum()[["b"]] became a Series after optimize, [["c","b"]] came back as [b, c]."""
import warnings; warnings.filterwarnings("ignore")
import numpy as np, pandas as pd, dask_expr as dx
pdf = pd.DataFrame({"a": [5, 2, 7, 4, 1, 6, 3, 8], "b": np.arange(8.0), "c": np.arange(8)})
df = dx.from_pandas(pdf, npartitions=2)
for sel in (["b"], ["c", "b"], "b", ["b", "c"]):
    q = df.rolling(2).sum()[sel]
    want = pdf.rolling(2).sum()[sel]
    got = q.compute()
    assert type(got) is type(want), (sel, type(got).__name__, type(want).__name__)
    assert type(q.optimize()._meta) is type(want), (sel, "declared type changed by optimize")
    if isinstance(want, pd.DataFrame):
        assert list(got.columns) == list(want.columns) == list(q.optimize().columns), (sel, list(got.columns))
    assert got.equals(want), sel
print("ok")
