"""C01/C11: SetIndex._simplify_up rewrote Head/Tail(SetIndex(frame, col, drop=False)) into
SetIndex(NFirst/NLast(frame), col) and forgot `drop`: df.set_index("a", drop=False).head() lost column a."""
import warnings; warnings.filterwarnings("ignore")
import pandas as pd, dask_expr as dx
pdf = pd.DataFrame({"a": [5, 2, 7, 4, 1, 6, 3, 8], "b": range(8)})
df = dx.from_pandas(pdf, npartitions=2)
want = pdf.set_index("a", drop=False).sort_index()
q = df.set_index("a", drop=False)
assert q.head(3).equals(want.head(3)), q.head(3)
assert q.tail(3).equals(want.tail(3)), q.tail(3)
print("ok")
