"""repartition(freq=...) on top of a lazy head()/tail() cannot be optimized:
Head/Tail._simplify_up read `parent.new_partitions` from any Repartition
subclass, RepartitionFreq has no such parameter."""
import sys

pass  # run with PYTHONPATH=<tree>; exits 1 where the defect is present
import dask
import pandas as pd

import dask_expr as dx

print(dx.__file__)
dask.config.set(scheduler="sync")

pdf = pd.DataFrame({"x": range(72)}, index=pd.date_range("2020-01-01", periods=72, freq="1h"))
ddf = dx.from_pandas(pdf, npartitions=3)

problems = []
for name, lazy, exp in [
    ("head", ddf.head(30, npartitions=-1, compute=False), pdf.head(30)),
    ("tail", ddf.tail(10, compute=False), pdf.tail(10)),
]:
    r = lazy.repartition(freq="1D")
    # the un-optimized plan is fine
    low = r.expr.lower_completely()
    parts = dask.get(low.__dask_graph__(), low.__dask_keys__())
    assert pd.concat(parts).equals(exp), "un-optimized plan is wrong"
    print(name, "un-optimized: ok,", len(parts), "partitions, divisions", [str(d) for d in r.divisions])
    try:
        got = r.compute()
        if not got.equals(exp):
            problems.append(f"{name}: wrong rows")
    except Exception as e:  # noqa
        problems.append(f"{name}(compute=False).repartition(freq='1D').compute(): {type(e).__name__}: {e}")

print("\n".join(problems))
assert not problems
