import sys; pass  # run with PYTHONPATH=<tree>; exits 1 where the defect is present (fixed in /repo by 2a25b82)
import numpy as np, pandas as pd, dask
import dask_expr as dx

print(dx.__file__)
dask.config.set(scheduler="sync")

L = pd.DataFrame({"k": np.arange(40) % 20, "lv": np.arange(40)})
R = pd.DataFrame({"k": np.arange(64) % 20, "rv": np.arange(64)}, index=np.arange(1000, 1064))
l = dx.from_pandas(L, npartitions=2)
r = dx.from_pandas(R, npartitions=32)

# few x many partitions + task shuffle => the planner picks a broadcast join by itself
m = l.merge(r, on="k", shuffle_method="tasks")
expected = L.merge(R, on="k")

parts = dask.compute(*m.to_delayed())
assert sum(map(len, parts)) == len(expected)

bad = []
if m.known_divisions:
    divs = m.divisions
    for i, p in enumerate(parts):
        if len(p) and not (divs[i] <= p.index.min() and p.index.max() <= divs[i + 1]):
            bad.append((i, (p.index.min(), p.index.max()), (divs[i], divs[i + 1])))
print("reported divisions:", m.divisions[:4], "...   partitions outside them:", len(bad))

# a consumer that trusts the divisions: repartition slices every partition by them
got = len(m.repartition(npartitions=40).compute())
print("rows after repartition(npartitions=40):", got, "expected:", len(expected))

assert not bad, f"divisions are reported as known but partitions hold other index values, e.g. {bad[0]}"
assert got == len(expected), (got, len(expected))
