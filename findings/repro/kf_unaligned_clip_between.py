"""C02: clip / between / case_when build partitionwise operations from a second dask Series without any
alignment check: with differently partitioned inputs (unknown divisions) partitions were paired by position
and the result silently differed from pandas. They now refuse such inputs explicitly."""
import warnings; warnings.filterwarnings("ignore")
import numpy as np, pandas as pd, dask_expr as dx
pdf = pd.DataFrame({"a": np.arange(12.0)})
a = dx.from_pandas(pdf, npartitions=3, sort=False).a           # rows 0-3 | 4-7 | 8-11
o = pd.Series(np.arange(12.0) - 0.5)
other = dx.from_pandas(o, chunksize=6, sort=False)               # rows 0-5 | 6-11
other = dx.concat([other, dx.from_pandas(o.iloc[:0], npartitions=1, sort=False)])  # 3 partitions, different cuts
for name, call, want in (
    ("clip", lambda: a.clip(lower=other), pdf.a.clip(lower=o)),
    ("between", lambda: a.between(other, other + 1), pdf.a.between(o, o + 1)),
):
    try:
        got = call().compute()
    except NotImplementedError as e:
        print(name, "refused:", str(e)[:60]); continue
    assert got.sort_index().equals(want), f"{name}: silently different from pandas"
# aligned inputs keep working
assert a.clip(lower=a - 1, upper=a + 1).compute().equals(pdf.a.clip(lower=pdf.a - 1, upper=pdf.a + 1))
print("ok")
