"""A partition selection on a task shuffle that needs several stages (npartitions > max_branch) failed with KeyError: 0 - the
last stage filtered its groups (keyed by stage digit) with output partition numbers.  Reported by a seeding sub-agent; rule
R11g.  Documentation only."""
import numpy as np
import pandas as pd

import dask
import dask_expr as dx

pdf = pd.DataFrame({"k": np.arange(400) % 37, "v": np.arange(400)})
s = dx.from_pandas(pdf, npartitions=20).shuffle("k", shuffle_method="tasks", max_branch=3)
full = dask.compute(*s.to_delayed())
sel = [2, 17, 5, 19, 11]
parts = dask.compute(*s.partitions[sel].to_delayed())
assert all(sorted(parts[i].v) == sorted(full[p].v) for i, p in enumerate(sel))
print("ok")
