import sys; pass  # run with PYTHONPATH=<tree>; exits 1 where the defect is present (fixed in /repo by 5e5d568)
import os, shutil
import pandas as pd
import dask_expr as dx

print(dx.__file__)
scratch = "/tmp/hunt/C07/scratch/f1"
shutil.rmtree(scratch, ignore_errors=True)
os.makedirs(scratch)
try:
    pdf = pd.DataFrame({"a": range(6), "b": [0.5, 1.5, 2.5, 3.5, 4.5, 5.5]})
    pdf.iloc[:3].to_csv(f"{scratch}/x-0.csv", index=False)
    pdf.iloc[3:].to_csv(f"{scratch}/x-1.csv", index=False)

    df = dx.read_csv(f"{scratch}/x-*.csv", include_path_column=True)
    assert list(df.columns) == ["a", "b", "path"]

    q = df[["a", "b"]]  # plain column selection, in file order
    declared = list(q.columns)
    optimized = list(q.optimize().columns)
    computed = list(q.compute().columns)
    parts = [list(q.partitions[i].compute().columns) for i in range(q.npartitions)]
    print("declared :", declared)
    print("optimized:", optimized, "/ meta:", list(q.optimize()._meta.columns))
    print("computed :", computed, "partitions:", parts)
    assert declared == ["a", "b"]
    assert computed == declared, f"expected columns {declared}, computed {computed}"
    assert list(q.optimize()._meta.columns) == declared
    # a consequence: a numeric reduction of the numeric selection
    s = df[["a"]].sum().compute()
    assert list(s.index) == ["a"], s
finally:
    shutil.rmtree(scratch, ignore_errors=True)
print("OK")
