"""Concat._simplify_up spelled out Concat's own parameters when rebuilding type(self); StackPartition (what a concat is
lowered to) inherits the rule with a different parameter list, so a column selection on an optimized concat failed.
Found by R01h (constructor arguments bound against every class that inherits the method).  Documentation only."""
import numpy as np
import pandas as pd

import dask_expr as dx

pdf = pd.DataFrame({"x": np.arange(10.0), "y": np.arange(10.0) * 2})
a, b = dx.from_pandas(pdf, npartitions=2), dx.from_pandas(pdf + 100, npartitions=2)
r = dx.concat([a, b]).optimize()[["x"]].compute()
assert r.shape == (20, 1), r.shape
print("ok")
