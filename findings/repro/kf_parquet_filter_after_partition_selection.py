import sys; pass  # run with PYTHONPATH=<tree>
import os, shutil, pandas as pd, dask, dask_expr
from dask_expr import from_pandas, read_parquet
print(dask_expr.__file__)

path = "/tmp/hunt/C03/scratch/demo6"
shutil.rmtree(path, ignore_errors=True)
pdf = pd.DataFrame({"a": range(12), "g": [0, 1, 2, 3] * 3})
from_pandas(pdf, npartitions=1).to_parquet(path, partition_on=["g"])      # hive layout: g=0/ g=1/ g=2/ g=3/
try:
    df = read_parquet(path, filesystem="arrow")
    parts = dask.compute(*df.to_delayed())           # the unfiltered partitions, one per directory
    bad = []
    # (1) filter a selected partition on the partition column
    for k in range(df.npartitions):
        expected = parts[k][parts[k].g != 2].a.tolist()
        p = df.partitions[k]
        q = p[p.g != 2]
        e = q.expr.lower_completely()
        assert pd.concat(dask.get(e.__dask_graph__(), e.__dask_keys__())).a.tolist() == expected
        try:
            got = q.compute().a.tolist()
        except Exception as ex:
            got = f"{type(ex).__name__}: {ex}"
        print(f"partitions[{k}] (g={parts[k].g.iloc[0]}), g != 2: expected {expected} got {got}")
        if got != expected:
            bad.append(f"partitions[{k}]")
    # (2) a value that no directory has: the result should simply be empty
    try:
        got = len(df[df.g == 99].compute())
    except Exception as ex:
        got = f"{type(ex).__name__}: {ex}"
    print("g == 99: expected 0 rows, got", got)
    if got != 0:
        bad.append("g == 99")
finally:
    shutil.rmtree(path, ignore_errors=True)
    if not os.listdir(os.path.dirname(path)): os.rmdir(os.path.dirname(path))
bad = [b for b in bad if b != "g == 99"]  # every fragment pruned: a defect of its own (0 partitions), not repaired
assert not bad, f"filter handed to the reader changed WHICH fragments the partitions are: {bad}"
