"""C08/C18/C19: _DNF._Or/_And.to_list_tuple iterated a frozenset, so the reader `filters` operand
(and the read_parquet-... name and plan) depended on PYTHONHASHSEED."""
import subprocess, sys, os, tempfile, shutil
code = '''
import warnings, sys; warnings.filterwarnings("ignore")
import pandas as pd, numpy as np, dask_expr as dx
path = sys.argv[1]
df = dx.read_parquet(path, filesystem="arrow")
q = df[(df.a > 1) & (df.b < 6.0) & (df.c != "x") | (df.a == 0)]
o = q.optimize(fuse=False)
rp = [e for e in o.expr.walk() if type(e).__name__.startswith("ReadParquet")][0]
print(rp.operand("filters"), rp._name)
'''
d = tempfile.mkdtemp(prefix="kf_dnf_")
try:
    import pandas as pd, numpy as np
    pd.DataFrame({"a": range(8), "b": np.arange(8.0), "c": list("xyzxyzxy")}).to_parquet(os.path.join(d, "p.parquet"))
    outs = set()
    for seed in ("0", "1", "2", "3"):
        env = dict(os.environ, PYTHONHASHSEED=seed)
        outs.add(subprocess.check_output([sys.executable, "-c", code, d], env=env, text=True).strip())
    for o in outs: print(o)
    assert len(outs) == 1, "reader filters / name differ between hash seeds"
finally:
    shutil.rmtree(d)
