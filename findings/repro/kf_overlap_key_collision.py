"""C09: CreateOverlappingPartitions named its prepend/append keys after the *frame*, not after itself:
two overlap windows over the same column (s.shift(1) + s.shift(2)) defined different tasks under the
same key; the merged graph used one of them for both and the computation failed / was wrong."""
import warnings; warnings.filterwarnings("ignore")
import pandas as pd, dask_expr as dx
pdf = pd.DataFrame({"a": range(40)})
df = dx.from_pandas(pdf, npartitions=4)
q = df.a.shift(1) + df.a.shift(2)
lowered = q.optimize(fuse=False)
keys = []
for e in lowered.expr.walk():
    keys += list(e._layer().keys())
print(len(keys), len(set(keys)))
assert len(keys) == len(set(keys)), "two expressions define the same key"
got = q.compute()
want = pdf.a.shift(1) + pdf.a.shift(2)
assert got.equals(want)
