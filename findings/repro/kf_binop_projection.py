"""Three projection defects found by auditing the generic pass-through table (R04b) after sub-agents reported
`(a + b)[["x"]]` returning extra columns.  All four assertions held only after the fix: commits 03e2858, 0fa42ea and the
single-column follow-up.  Documentation only - no check runs this."""
import numpy as np
import pandas as pd
from dask.dataframe.utils import assert_eq

import dask_expr as dx

pdf = pd.DataFrame({"x": np.arange(20.0), "y": np.arange(20.0) * 2, "z": 1.0})
pdf2 = pd.DataFrame({"x": np.arange(20.0), "y": np.arange(20.0) * 2, "w": 3.0})
d1, d2 = dx.from_pandas(pdf, npartitions=3), dx.from_pandas(pdf2, npartitions=4)
d3, p3 = d1 * 2, pdf * 2
# 1. MethodOperator lost its name / fill_value in the Binop projection rule: KeyError('right')
assert_eq(d1.add(1, fill_value=0)[["x"]], pdf.add(1, fill_value=0)[["x"]])
# 2. inputs with different column sets
assert_eq((d1 + dx.from_pandas(pdf2, npartitions=3))[["z", "x"]], (pdf + pdf2)[["z", "x"]])
# 3. unaligned inputs: only the first one was pruned, the result kept all columns of the second
assert list((d1 + d2)[["x"]].optimize().columns) == ["x"]
assert_eq((d1 + d2)[["x"]], (pdf + pdf2)[["x"]])
# 4. single column through where / mask / fillna with frame operands
assert_eq(d1.where(d3 > 5, d3)["y"], pdf.where(p3 > 5, p3)["y"])
print("ok")
