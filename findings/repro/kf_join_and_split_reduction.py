import sys; pass  # run with PYTHONPATH=<tree>; exits 1 where the defect is present
import dask, pandas as pd, dask_expr
from dask_expr import from_pandas
print(dask_expr.__file__)

def unoptimized(x):  # lower only, no simplify / tune / fuse
    e = x.expr.lower_completely()
    return pd.concat(dask.get(e.__dask_graph__(), e.__dask_keys__()))

def canon(d):
    return d.sort_values(list(d.columns)).reset_index(drop=True)

l = pd.DataFrame({"k": [1, 2, 3, 4, 5, 6], "v": [1, 2, 3, 4, 5, 6]})
r = pd.DataFrame({"k": [1, 2, 3, 7], "w": [0, 5, 6, 7]})
dl, dr = from_pandas(l, npartitions=2), from_pandas(r, npartitions=2)

m = dl.merge(dr, on="k")                          # k = 1, 2, 3   w = 0, 5, 6   mean(w) = 3.67
q = m[(m.k > 1) & (m.w > m.w.mean())]             # k = 2, 3

pm = l.merge(r, on="k")
expected = canon(pm[(pm.k > 1) & (pm.w > pm.w.mean())])
plain, opt = canon(unoptimized(q)), canon(q.compute())
print("pandas / unoptimized:\n", plain, "\noptimized:\n", opt, sep="")
pd.testing.assert_frame_equal(plain, expected)     # lowering alone is right
try:
    pd.testing.assert_frame_equal(opt, expected)
except AssertionError as e:
    q.simplify().pprint()
    print("PROPERTY VIOLATED: the mean in the predicate is taken over the already filtered rows\n", e)
    sys.exit(1)
