"""merge(how="left", broadcast=True, npartitions=<hint>) returns wrong rows.

When the npartitions hint is smaller than the partition count of the side
that is broadcast, the other side is repartitioned to fewer partitions than
the broadcast side has, and the lowered BroadcastJoin then takes the *other*
side for the broadcast side.
"""
import sys

pass  # run with PYTHONPATH=<tree>; exits 1 where the defect is present (fixed in /repo by 3072247)
import dask
import numpy as np
import pandas as pd

import dask_expr
from dask_expr import from_pandas

print(dask_expr.__file__)
dask.config.set(scheduler="sync")

L = pd.DataFrame({"k": np.arange(24) % 8, "a": np.arange(24)})
R = pd.DataFrame({"k": np.arange(8), "b": np.arange(8) * 10})
expected = L.merge(R, on="k", how="left")  # 24 rows, every row has a match

left = from_pandas(L, npartitions=8)
right = from_pandas(R, npartitions=3)


def run(**kw):
    m = left.merge(right, on="k", how="left", shuffle_method="tasks", **kw)
    out = m.compute().sort_values(["a", "b"]).reset_index(drop=True)
    return m, out


failures = []
for kw in [
    dict(broadcast=False),
    dict(broadcast=True),
    dict(broadcast=False, npartitions=2),
    dict(broadcast=True, npartitions=4),
    dict(broadcast=True, npartitions=2),  # hint < 3 partitions of the broadcast side
]:
    m, out = run(**kw)
    ok = out.equals(expected.astype(out.dtypes.to_dict()))
    print(f"{kw}: rows={len(out)} unmatched={int(out.b.isna().sum())} "
          f"npartitions(meta)={m.npartitions} computed={len(m.to_delayed())} -> {'ok' if ok else 'WRONG'}")
    if not ok:
        failures.append((kw, len(out), int(out.b.isna().sum())))

assert not failures, (
    f"expected {len(expected)} rows / 0 unmatched for every configuration, got "
    f"(config, rows, unmatched): {failures}"
)
