"""s = d.sort_values("b"); s[s.a.cumsum() > 300]: sort_values lets filters pass (a row permutation), so the filter was moved
below the sort and the cumulative sum was taken in the ORIGINAL order: 15 rows instead of 27.  Found while probing a
sub-agent's report about stacked filters.  Rule R03i.  Documentation only."""
import warnings

import numpy as np
import pandas as pd

import dask_expr as dx

warnings.filterwarnings("ignore")
rng = np.random.RandomState(0)
pdf = pd.DataFrame({"a": np.arange(40), "b": rng.permutation(40).astype(float)})
d = dx.from_pandas(pdf, npartitions=4)
h = lambda x: (lambda s: s[s.a.cumsum() > 300])(x.sort_values("b"))  # noqa: E731
assert sorted(h(d).compute().a.tolist()) == sorted(h(pdf).a.tolist())
print("ok")
