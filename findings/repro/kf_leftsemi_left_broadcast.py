"""merge(how="leftsemi") with fewer left partitions and broadcast=True sent the LEFT input to every right partition:
every left row was returned once per matching right partition.  The single-partition broadcast table of the same class
(_is_single_partition_broadcast) allows broadcasting only the right side for leftsemi - the two sites disagreed (R10f).
Documentation only."""
import numpy as np
import pandas as pd

import dask_expr as dx

L = pd.DataFrame({"k": np.arange(40) % 10, "a": np.arange(40)})
R = pd.DataFrame({"k": np.arange(160) % 5, "b": np.arange(160)})
exp = L[L.k.isin(R.k)]
res = dx.from_pandas(L, npartitions=2).merge(dx.from_pandas(R, npartitions=16), on="k", how="leftsemi", broadcast=True, shuffle_method="tasks").compute()
assert len(res) == len(exp), (len(res), len(exp))
print("ok")
