"""C01/C11: Head/Tail._simplify_down wrapped every Expr operand of an elementwise child, including broadcast
(single-partition, lower-dimensional) operands such as a reduction: (s + s.sum()).head() raised although the
unoptimized query computes."""
import warnings; warnings.filterwarnings("ignore")
import pandas as pd, dask_expr as dx
pdf = pd.DataFrame({"a": range(20), "b": range(20)})
df = dx.from_pandas(pdf, npartitions=4)
s = df.a
want = pdf.a + pdf.a.sum()
assert (s + s.sum()).head().equals(want.head())
assert (s + s.sum()).tail().equals(want.tail())
assert (df + df.a.max()).head(3).equals((pdf + pdf.a.max()).head(3))
print("ok")
