"""repartition(npartitions=n) to MORE partitions reported npartitions == n although the interpolated, de-duplicated divisions
had fewer (fixed in /repo by c400ad4).  Run with PYTHONPATH=<tree>; exits 1 where the defect is present."""
import sys

import pandas as pd

import dask_expr as dx

pdf = pd.DataFrame({"x": range(10)}, index=range(10))
r = dx.from_pandas(pdf, npartitions=2).repartition(npartitions=20)
actual = len(r.to_delayed())
bad = r.npartitions != actual or r.npartitions != len(r.divisions) - 1
try:
    bad = bad or not r.tail(2).equals(pdf.tail(2))
    bad = bad or not r.repartition(npartitions=15).compute().equals(pdf)
except Exception as e:  # noqa: BLE001
    print(type(e).__name__, e)
    bad = True
print("npartitions", r.npartitions, "graph", actual)
sys.exit(1 if bad else 0)
