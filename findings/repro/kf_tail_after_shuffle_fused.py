"""tail() of <shuffle or aligned binop> followed by an elementwise op crashes after optimization:
BlockwiseTail inherits Tail's push-down rule and re-creates abstract Tail nodes after lowering."""
import sys  # run with PYTHONPATH=<tree>; exits 1 where the defect is present (fixed in /repo by 4cbd4ea)
import numpy as np, pandas as pd
import dask_expr as dx

print(dx.__file__)
pdf = pd.DataFrame({"x": np.arange(40) % 7, "y": np.arange(40.0)}, index=np.arange(40) * 2)
df = dx.from_pandas(pdf, npartitions=5)

queries = {
    "df.shuffle('x').assign(w=1)": df.shuffle("x", shuffle_method="tasks").assign(w=1),
    "(df.shuffle('x').y + 1)": df.shuffle("x", shuffle_method="tasks").y + 1,
    "(df + df.repartition(npartitions=3)).assign(w=1)": (df + df.repartition(npartitions=3)).assign(w=1),
}
failures = []
for label, q in queries.items():
    expected = q.partitions[q.npartitions - 1].compute().tail(3)    # last rows of the last partition
    assert q.head(3) is not None                                      # head() of the same query works
    try:
        got = q.tail(3)
    except Exception as e:
        failures.append(f"{label}.tail(3) raised {type(e).__name__}: {e}")
        continue
    if not got.equals(expected):
        failures.append(f"{label}.tail(3) returned\n{got}\nexpected\n{expected}")
for f in failures:
    print("FAIL:", f)
assert not failures
print("OK")
