"""df[df.a.astype(bool)]: AsType lets filters pass below it; its rule also fired when AsType was the predicate of the Filter
(second operand), not the filtered frame, and rewrote the query into astype(filter(a)).  Same family as R01g (which operand of
the parent am I?).  Reported by a seeding sub-agent; rule R03d now requires the legality test to establish that the expression
is the parent's frame.  Documentation only."""
import numpy as np
import pandas as pd
from dask.dataframe.utils import assert_eq

import dask_expr as dx

pdf = pd.DataFrame({"a": [0, 1, 2, 0, 3, 0], "b": np.arange(6)})
d = dx.from_pandas(pdf, npartitions=2)
assert_eq(d[d.a.astype(bool)], pdf[pdf.a.astype(bool)])
assert_eq(d.b[d.a.fillna(0).astype(bool)], pdf.b[pdf.a.fillna(0).astype(bool)])
print("ok")
