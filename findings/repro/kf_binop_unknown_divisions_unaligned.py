"""a + b on two differently laid out collections with unknown divisions.

Property C02: the result equals pandas irrespective of "how differently the
inputs of a multi-input operation are partitioned"; where that is impossible
the library refuses.  Here the two operands have the same *number* of
partitions but different rows in them, divisions are unknown, and `+`
silently adds partition i to partition i.
"""
import sys; pass  # run with PYTHONPATH=<tree>; exits 1 where the defect is present
import pandas as pd
import dask
import dask_expr
from dask_expr import from_pandas

print(dask_expr.__file__)
dask.config.set(scheduler="sync")

a = pd.Series([1.0, 2.0, 3.0, 4.0], index=[0, 2, 1, 3], name="x")
b = pd.Series([10.0, 20.0, 30.0, 40.0], index=[3, 1, 2, 0], name="x")
expected = (a + b).sort_index()                       # 41, 23, 32, 14

# sort=False keeps the given row order; the index is not sorted, so the
# divisions are unknown (as after read_parquet, a shuffle, sort_values ...)
da = from_pandas(a, npartitions=2, sort=False)       # rows {0,2} | {1,3}
db = from_pandas(b, npartitions=2, sort=False)       # rows {3,1} | {2,0}
assert not da.known_divisions and not db.known_divisions

try:
    got = (da + db).compute().sort_index()
except Exception as exc:                              # an explicit refusal is fine
    print("refused:", type(exc).__name__, exc)
    sys.exit(0)

print("expected (pandas):\n", expected, "\n\ngot (dask-expr):\n", got, sep="")
ok = got.index.equals(expected.index) and (got.values == expected.values).all()
if not ok:
    print("FAIL: a + b on unaligned collections with unknown divisions is "
          "computed partition-by-partition without alignment")
    sys.exit(1)

# the same through the method spelling and for frames
got2 = da.add(db, fill_value=0).compute().sort_index()
exp2 = a.add(b, fill_value=0).sort_index()
assert got2.index.equals(exp2.index) and (got2.values == exp2.values).all(), (got2, exp2)
print("OK")
