"""partitions[...] with a repeated partition on a sorted index (set_index): the culled divisions of
_SetIndexPost are rebuilt by membership, so the optimized frame has fewer partitions than selected."""
import sys; pass  # run with PYTHONPATH=<tree>; exits 1 where the defect is present (fixed in /repo by 85e5d11)
import numpy as np, pandas as pd, dask
import dask_expr as dx

print(dx.__file__)
pdf = pd.DataFrame({"y": np.arange(20.0)[::-1], "k": range(20)})
df = dx.from_pandas(pdf, npartitions=4)
s = df.set_index("y", shuffle_method="tasks")
parts = [s.partitions[i].compute() for i in range(s.npartitions)]     # single selections are fine
assert pd.concat(parts).equals(s.compute())

failures = []
for sel in ([1, 1, 2], [3, 0, 3], [0, 0]):
    y = s.partitions[sel]
    expected = pd.concat([parts[i] for i in sel])
    try:
        got = y.compute()
        n_opt = y.optimize().npartitions
    except Exception as e:
        failures.append(f"partitions[{sel}].compute() raised {type(e).__name__}: {e!s}")
        continue
    if not got.equals(expected) or n_opt != len(sel):
        failures.append(
            f"partitions[{sel}]: expected {len(sel)} partitions / index {expected.index.tolist()}, "
            f"actual {n_opt} partitions / index {got.index.tolist()}"
        )
for f in failures:
    print("FAIL:", f)
assert not failures
print("OK")
