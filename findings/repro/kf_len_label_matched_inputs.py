"""len() / partition lengths of an elementwise result with inputs of different lengths were answered from the first input
(fixed in /repo by 5263460).  Run with PYTHONPATH=<tree>; exits 1 where the defect is present."""
import sys
import warnings

import pandas as pd

warnings.filterwarnings("ignore")
import dask_expr as dx

p = pd.DataFrame({"a": range(10), "b": [3 * i for i in range(10)]})
bad = 0
for n in (1, 3):
    d = dx.from_pandas(p, npartitions=n)
    exp = len(p.a[p.a > 6] + p.b)
    got = len(d.a[d.a > 6] + d.b)
    chunks = sum((d.a[d.a > 6] + d.b).to_dask_array(lengths=True).chunks[0])
    if got != exp or chunks != exp:
        print(f"WRONG npartitions={n}: len={got} chunk lengths sum={chunks}, pandas {exp}")
        bad += 1
sys.exit(1 if bad else 0)
