"""C12 (static finding, P2P cannot run here: `distributed` is not installed): the P2P hash join transfer
(_merge.create_assign_index_merge_transfer) calls partitioning_index(keys, npartitions) WITHOUT a cast dtype.
Causal step on the real code: an int64 and a float64 key column holding equal values get different partition
numbers unless the numeric cast (np.float64), which RearrangeByColumn always passes, is applied."""
import inspect, warnings; warnings.filterwarnings("ignore")
import numpy as np, pandas as pd
from dask.dataframe.shuffle import partitioning_index
import dask_expr._merge as m
i = pd.DataFrame({"k": np.arange(50, dtype="int64")})
f = pd.DataFrame({"k": np.arange(50, dtype="float64")})
plain_differs = (partitioning_index(i, 8) != partitioning_index(f, 8)).any()
cast_agrees = (partitioning_index(i, 8, np.float64) == partitioning_index(f, 8, np.float64)).all()
src = inspect.getsource(m.create_assign_index_merge_transfer)
calls_without_cast = src.count("partitioning_index(df[index], npartitions)") + src.count("partitioning_index(index, npartitions)")
print(plain_differs, cast_agrees, calls_without_cast)
assert not (plain_differs and cast_agrees and calls_without_cast), "P2P transfer hashes int and float keys to different partitions"
