"""KF09 (R09f): map_partitions documents that "arguments and keywords may contain Scalar, Delayed or regular python objects",
but only positional arguments become operands: a lazy Scalar passed BY KEYWORD is copied into the kwargs dict of every task as
a collection object (the function receives the un-computed collection; the graph no longer depends on the reduction).
Exits 1 while the defect is present.  Documentation only."""
import sys

import numpy as np
import pandas as pd

import dask_expr as dx

pdf = pd.DataFrame({"a": np.arange(20)})
d = dx.from_pandas(pdf, npartitions=4)
r = d.map_partitions(lambda df, s=0: df.assign(c=s), s=d.a.sum(), meta=pdf.assign(c=0)).compute()
print("c holds:", type(r.c.iloc[0]).__name__, "- expected the number", pdf.a.sum())
sys.exit(0 if isinstance(r.c.iloc[0], (int, np.integer)) and r.c.iloc[0] == pdf.a.sum() else 1)
