"""C03/C18: `df[df.a != v]` on an arrow-filesystem parquet source was translated into a reader
filter; the arrow reader drops rows where `a` is missing, pandas keeps them."""
import os, shutil, tempfile, warnings
warnings.filterwarnings("ignore")
import numpy as np, pandas as pd, dask_expr as dx
d = tempfile.mkdtemp(prefix="kf_ne_")
try:
    pdf = pd.DataFrame({"a": [1.0, np.nan, 3.0, 1.0], "b": range(4)})
    pdf.to_parquet(os.path.join(d, "p.parquet"))
    df = dx.read_parquet(d, filesystem="arrow")
    got = df[df.a != 1.0].compute()
    want = pdf[pdf.a != 1.0]
    print(len(got), len(want))
    assert len(got) == len(want) == 2, "row with missing value dropped by the pushed-down != filter"
finally:
    shutil.rmtree(d)
