"""FrameBase._meta_nonempty was a cached_property of a MUTABLE collection (df["c"] = ..., df.index = ..., df.columns = ...
rebind self._expr in place).  Once read, it kept describing the old schema, so meta emulation done through it
(skew / kurtosis with axis=1) depended on whether the attribute had been touched before the in-place edit.
Exits 0 when the two histories agree (fixed tree), 1 otherwise.  Documentation only - no check runs this."""
import sys

import pandas as pd

import dask_expr as dx

pdf = pd.DataFrame({"a": [1, 2, 3, 4]})


def build(touch_first):
    df = dx.from_pandas(pdf.copy(), npartitions=2)
    if touch_first:
        df.skew(axis=1)  # reads df._meta_nonempty
    df["a"] = df.a.astype(str)  # in-place: the frame now holds strings
    try:
        df.kurtosis(axis=1)
        return "built"
    except Exception as e:  # noqa: BLE001
        return type(e).__name__


fresh, touched = build(False), build(True)
print("fresh history:", fresh, "| after reading _meta_nonempty:", touched)
sys.exit(0 if fresh == touched else 1)
