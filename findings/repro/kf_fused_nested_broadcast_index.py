"""C14: a fused group that consumes an already fused single-partition frame as a
broadcast input (an `.optimize()`d lookup table that is used again).  All output
partitions but the first use the wrong input.  Exits 0 when the property holds."""
import sys; pass  # run with PYTHONPATH=<tree>; exits 1 where the defect is present (fixed in /repo by 1eb7807)
import pandas as pd
import dask_expr as dx

print(dx.__file__)
pdf = pd.DataFrame({"a": range(12), "k": [0, 1, 2] * 4})
small = pd.DataFrame({"k": [0, 1, 2], "v": [10.0, 20.0, 30.0]})
df = dx.from_pandas(pdf, npartitions=3)
sm = dx.from_pandas(small, npartitions=1)

lookup1 = ((sm + 1) * 2).optimize()       # optimized once, then used again below
lookup2 = (sm + 3) * 2
p1, p2 = (small + 1) * 2, (small + 3) * 2

def query(d, l1, l2):
    return (d + 1).merge(l1 + 1, on="k", how="left").merge(l2 + 1, on="k", how="left")

expected = query(pdf, p1, p2).reset_index(drop=True)
q = query(df, lookup1, lookup2)
unfused = q.compute(fuse=False).reset_index(drop=True)
fused = q.compute().reset_index(drop=True)
pd.testing.assert_frame_equal(unfused, expected)
assert fused.equals(expected), f"fusion changed the result\nexpected (pandas == unfused):\n{expected}\nfused:\n{fused}"

# the direct variant does not even run
r = (df + 1).merge(lookup1, on="k", how="left")
r.compute(fuse=False)
r.compute()
print("ok")
