"""Selecting a column of a covariance / correlation matrix prunes the *rows* of the matrix too."""
import sys  # run with PYTHONPATH=<tree>; exits 1 where the defect is present
import pandas as pd
import dask_expr
from dask_expr import from_pandas

print(dask_expr.__file__)
pdf = pd.DataFrame({"g": [1, 2, 3, 1, 2, 3, 1, 2], "x": [10.0, 20, 30, 40, 50, 60, 70, 80],
                    "y": [1.0, 1, 2, 2, 3, 3, 5, 9], "z": [3.0, 4, 1, 2, 9, 8, 7, 5]})
df = from_pandas(pdf, npartitions=3)

problems = []
# DataFrame.cov
exp, got = pdf.cov()[["x"]], df.cov()[["x"]].compute()
print("DataFrame.cov()[['x']] expected rows", list(exp.index), "got", list(got.index))
if list(got.index) != list(exp.index):
    problems.append("DataFrame.cov")
# groupby.cov
exp, got = pdf.groupby("g").cov()["x"], df.groupby("g").cov()["x"].compute()
print("groupby.cov()['x'] expected", len(exp), "rows, got", len(got))
if len(got) != len(exp):
    problems.append("groupby.cov")
# rolling.cov
exp, got = pdf.rolling(3).cov()["x"], df.rolling(3).cov()["x"].compute()
print("rolling.cov()['x'] expected", len(exp), "rows, got", len(got))
if len(got) != len(exp):
    problems.append("rolling.cov")
assert not problems, f"projection pushed below a pairwise operation removed result rows: {problems}"
