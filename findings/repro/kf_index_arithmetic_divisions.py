"""Arithmetic on a dask Index mapped the divisions through the operator without validating the result (fixed in /repo by the
Binop._divisions commit).  Run with PYTHONPATH=<tree>; exits 1 where the defect is present."""
import sys

import numpy as np
import pandas as pd

import dask_expr as dx

pdf = pd.DataFrame({"a": range(20)}, index=np.arange(20))
df = dx.from_pandas(pdf, npartitions=4)
bad = 0
for name, op in {"index // 4": lambda i: i // 4, "index % 3": lambda i: i % 3, "100 - index": lambda i: 100 - i, "index + 3": lambda i: i + 3}.items():
    d2, p2 = df.copy(), pdf.copy()
    d2.index = op(d2.index)
    p2.index = op(p2.index)
    divs = d2.divisions
    if d2.known_divisions and list(divs) != sorted(divs):
        print(name, "reports unsorted divisions", divs)
        bad += 1
    if name == "index % 3":
        continue  # .loc on a non-monotonic duplicate index with unknown divisions is a pandas-level KeyError of its own
    key = int(p2.index[6])
    try:
        got = sorted(d2.loc[key].compute().a.tolist())
    except Exception as e:  # noqa: BLE001
        got = f"{type(e).__name__}: {e}"
    want = sorted(p2.loc[[key]].a.tolist())
    if got != want:
        print(name, "loc", key, "->", got, "pandas", want)
        bad += 1
sys.exit(1 if bad else 0)
