"""C04/C01: Merge._simplify_up appended the same right column to project_right from two loops: selecting both
suffixed versions of a shared column (b_x, b_y) projected the right input on [a, b, b] and the optimized
result had duplicated b_y columns."""
import warnings; warnings.filterwarnings("ignore")
import pandas as pd, dask_expr as dx
l = pd.DataFrame({"a": range(8), "b": range(8), "c": range(8)})
r = pd.DataFrame({"a": range(8), "b": range(10, 18), "d": range(8)})
dl, dr = dx.from_pandas(l, npartitions=2), dx.from_pandas(r, npartitions=2)
q = dl.merge(dr, on="a")[["b_x", "b_y"]]
want = l.merge(r, on="a")[["b_x", "b_y"]]
got = q.compute().sort_values("b_x").reset_index(drop=True)
print(list(got.columns))
assert list(got.columns) == ["b_x", "b_y"], list(got.columns)
assert got.equals(want.sort_values("b_x").reset_index(drop=True))
