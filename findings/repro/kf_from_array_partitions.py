"""C11: FromArray._filtered_task indexed the *filtered* self.divisions with the absolute partition
number: from_array(...).head() (and any partitions[k>0]) raised / selected wrong index labels."""
import warnings; warnings.filterwarnings("ignore")
import numpy as np, pandas as pd, dask_expr as dx
a = np.arange(20).reshape(10, 2)
df = dx.from_array(a, chunksize=3, columns=["x", "y"])
full = df.compute()
assert df.head(2).equals(full.head(2))
for k in range(df.npartitions):
    got = df.partitions[k].compute()
    want = full.iloc[3 * k: 3 * k + 3]
    assert got.equals(want), (k, got, want)
print("ok")
