"""C04: Categorize and Replace let projections pass below them although their operands are keyed by columns:
df.categorize()["c"] raised KeyError and df.replace({"a": {1: 2}})["b"] raised ValueError after optimization."""
import warnings; warnings.filterwarnings("ignore")
import pandas as pd, dask_expr as dx
pdf = pd.DataFrame({"a": [1, 2, 3, 4], "b": [1.0, 2.0, 3.0, 4.0], "c": list("xyxy"), "d": list("ppqq")})
df = dx.from_pandas(pdf, npartitions=2)
cat = df.categorize()
assert cat["c"].compute().tolist() == list("xyxy")
assert cat[["b"]].compute().equals(pdf[["b"]])
assert cat[["d", "b"]].compute().astype({"d": object}).equals(pdf[["d", "b"]].astype({"d": object}))
assert df.replace({"a": {1: 2}})["b"].compute().equals(pdf.replace({"a": {1: 2}})["b"])
assert df.replace({"a": {1: 2}})[["a"]].compute().equals(pdf.replace({"a": {1: 2}})[["a"]])
assert df.replace(1, 7)[["a"]].compute().equals(pdf.replace(1, 7)[["a"]])
print("ok")
