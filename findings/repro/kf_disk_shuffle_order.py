"""KF10: the disk based shuffle returns the pieces of an output partition in task execution order.  With an explicit
shuffle_method="disk" order dependent aggregations see permuted chunks: groupby first / last with split_out > 1 answer with the value
of an arbitrary input partition.  Run with PYTHONPATH=<tree>; exits 1 where the defect is present."""
import sys
import warnings

import dask
import pandas as pd

warnings.filterwarnings("ignore")
import dask_expr as dx

dask.config.set(scheduler="sync")
pdf = pd.DataFrame({"g": [0, 1] * 6, "v": range(12)})
ddf = dx.from_pandas(pdf, npartitions=6)
exp = pdf.groupby("g").v.first().tolist()
bad = 0
for method in ("tasks", "disk"):
    got = ddf.groupby("g").v.first(split_out=2, shuffle_method=method).compute().sort_index().tolist()
    print(method, got, "expected", exp)
    bad += got != exp
sys.exit(1 if bad else 0)
