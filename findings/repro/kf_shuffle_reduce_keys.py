"""Two defects of the shuffle-based reductions (split_out > 1), both silent wrong results:
 (1) non-string column labels: the frame's labels are mapped to strings before the shuffle, the key was not -> shuffled by the
     index: drop_duplicates(subset=[0], split_out=3) gave 18 rows instead of 7;
 (2) value_counts of an unnamed / falsy-named series: `split_by or columns` read the name None / 0 / '' as "no key" -> every
     value once per partition.
Reported by a seeding sub-agent (1) and found while probing its report (2).  Documentation only."""
import warnings

import numpy as np
import pandas as pd

import dask_expr as dx

warnings.filterwarnings("ignore")
pdf = pd.DataFrame({0: np.arange(60) % 7, 1: np.arange(60)})
d = dx.from_pandas(pdf, npartitions=6)
assert len(d.drop_duplicates(subset=[0], split_out=3).compute()) == 7
assert len(d.groupby(0).agg({1: "sum"}, split_out=3).compute()) == 7
for name in (None, 0, "", "x"):
    s = pd.Series(np.arange(60) % 7, name=name)
    r = dx.from_pandas(s, npartitions=6).value_counts(split_out=2).compute()
    assert r.sort_index().to_dict() == s.value_counts().sort_index().to_dict(), name
    assert r.index.name == s.value_counts().index.name, (name, r.index.name)
print("ok")
