"""C08/C19: optimize_blockwise_fusion._fusion_pass walks `dependencies[name]` - a set of expression NAMES (strings) - and
pushes the dependencies on its stack in set-iteration order; the order in which group members are collected (and with
it the Fused expression's operands, name and task keys) therefore depends on PYTHONHASHSEED."""
import os, subprocess, sys
code = '''
import warnings; warnings.filterwarnings("ignore")
import pandas as pd, numpy as np, dask_expr as dx
pdf = pd.DataFrame({"a": range(20), "b": np.arange(20.0), "c": range(20)})
df = dx.from_pandas(pdf, npartitions=2)
q = (df.a + 1) * (df.b - 2) + (df.c * 3) - (df.a * df.c)
o = q.optimize()
print(o._name, sorted(k if isinstance(k, str) else k[0] for k in o.__dask_graph__())[:3])
'''
outs = set()
for seed in ("0", "1", "2", "3", "4", "5"):
    env = dict(os.environ, PYTHONHASHSEED=seed, PYTHONPATH=os.getcwd())
    outs.add(subprocess.check_output([sys.executable, "-c", code], env=env, text=True, cwd=os.getcwd()).strip())
for o in outs: print(o)
assert len(outs) == 1, "fused plan name / keys differ between hash seeds"
