"""C06: groupby Median overrides npartitions (frame.npartitions // split_every) but inherits _divisions from
GroupByApply (frame.npartitions + 1 entries): the reported npartitions differs from len(divisions) - 1."""
import warnings; warnings.filterwarnings("ignore")
import pandas as pd, dask_expr as dx
pdf = pd.DataFrame({"g": [1, 2, 3, 4] * 10, "x": range(40)})
df = dx.from_pandas(pdf, npartitions=4)
m = df.groupby("g").x.median(split_every=2)
print(m.npartitions, len(m.divisions) - 1)
assert m.npartitions == len(m.divisions) - 1
