"""A left/right broadcast join loses matches when the key is a categorical
with numeric categories (hash join and pandas find them).

The broadcast side is hash partitioned by RearrangeByColumn, which casts such
keys to float64 before hashing; the other side is split by
dask.dataframe.multi._split_partition, which hashes the categorical as it is.
"""
import sys

pass  # run with PYTHONPATH=<tree>; exits 1 where the defect is present (fixed in /repo by fc62328)
import dask
import numpy as np
import pandas as pd

import dask_expr
from dask_expr import from_pandas

print(dask_expr.__file__)
dask.config.set(scheduler="sync")

cats = list(range(12))
L = pd.DataFrame({"k": pd.Categorical(np.arange(36) % 12, categories=cats), "a": np.arange(36)})
R = pd.DataFrame({"k": pd.Categorical(np.arange(12), categories=cats), "b": np.arange(12) * 10})
expected = L.merge(R, on="k", how="left")
assert expected.b.notna().all() and len(expected) == 36

left = from_pandas(L, npartitions=9)
right = from_pandas(R, npartitions=2)

bad = []
for broadcast in [False, True]:
    m = left.merge(right, on="k", how="left", broadcast=broadcast, shuffle_method="tasks")
    out = m.compute()
    print(f"broadcast={broadcast}: rows={len(out)} rows without a match={int(out.b.isna().sum())}")
    if len(out) != 36 or out.b.isna().any():
        bad.append((broadcast, len(out), int(out.b.isna().sum())))

# same keys as plain integers: fine
m = from_pandas(L.astype({"k": "int64"}), npartitions=9).merge(
    from_pandas(R.astype({"k": "int64"}), npartitions=2), on="k", how="left",
    broadcast=True, shuffle_method="tasks")
print("int64 keys, broadcast=True: rows without a match =", int(m.compute().b.isna().sum()))

assert not bad, f"expected 36 rows, all matched; got (broadcast, rows, unmatched) = {bad}"
