"""C06/C18: FusedIO._divisions appended the last bucket's partition NUMBER as the final division."""
import os, shutil, tempfile, warnings; warnings.filterwarnings("ignore")
import pandas as pd, dask_expr as dx
d = tempfile.mkdtemp(prefix="kf_fused_")
try:
    pdf = pd.DataFrame({"a": range(48), "b": range(48), "c": range(48), "d": range(48), "e": range(48), "f": range(48)}, index=pd.RangeIndex(100, 148, name="idx"))
    dx.from_pandas(pdf, npartitions=12).to_parquet(d)
    df = dx.read_parquet(d, filesystem="arrow", calculate_divisions=True)
    q = (df[["a"]] + 1).optimize(fuse=False)
    fused = [e for e in q.expr.walk() if "Fused" in type(e).__name__]
    assert fused, "no fused IO in plan"
    div = fused[0].divisions
    print(div)
    assert div[-1] == 147 and list(div) == sorted(div), div
finally:
    shutil.rmtree(d)
