"""df.shuffle(on=<Series>)[pred]: the filter was pushed below the shuffle into the frame only, the key Series stayed
unfiltered; rows that fail pred (and NaN rows) came back.  R03e's table had ShuffleBase as "row permutation" - true only when
the key is a column.  Documentation only."""
import numpy as np
import pandas as pd

import dask_expr as dx

pdf = pd.DataFrame({"a": np.arange(40) % 7, "b": np.arange(40)})
d = dx.from_pandas(pdf, npartitions=4)
s = d.shuffle(on=d.a % 3, shuffle_method="tasks")
r = s[s.b > 29].compute()
assert len(r) == 10 and r.isna().sum().sum() == 0, (len(r), r.isna().sum().sum())
assert s[["b"]].compute().shape == (40, 1)
print("ok")
# same mechanism through set_index(<collection>)
si = d.set_index(d.a * 2)
r2 = si[si.b > 29].compute()
assert len(r2) == 10 and r2.isna().sum().sum() == 0, len(r2)
print("ok (set_index)")
