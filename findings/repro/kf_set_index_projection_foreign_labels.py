"""set_index followed by assign / merge / rename and a column selection: KeyError only when optimized."""
import sys  # run with PYTHONPATH=<tree>; exits 1 where the defect is present (fixed in /repo by e841dff)
import pandas as pd
import dask
import dask_expr
from dask_expr import from_pandas

print(dask_expr.__file__)
pdf = pd.DataFrame({"a": [1, 2, 3, 4, 5, 6], "x": [10, 20, 30, 40, 50, 60], "b": [1, 1, 2, 2, 3, 3]})
pdf2 = pd.DataFrame({"k": [1, 2, 3, 7], "y": [100, 200, 300, 700]})
df, df2 = from_pandas(pdf, npartitions=2), from_pandas(pdf2, npartitions=2)

cases = {
    "assign": lambda l, r: l.set_index("a").assign(z=1)[["z", "x"]],
    "merge": lambda l, r: l.set_index("a").merge(r.set_index("k"), left_index=True, right_index=True)[["x"]],
    "rename": lambda l, r: l.set_index("a").rename(columns={"x": "z"})[["z"]],
}
errors = {}
for name, f in cases.items():
    expected = f(pdf, pdf2)
    q = f(df, df2)
    # the plan without the optimizer is fine
    e = q.expr.lower_completely()
    parts = dask.get(e.__dask_graph__(), e.__dask_keys__())
    pd.testing.assert_frame_equal(pd.concat(parts).sort_index(), expected.sort_index(), check_dtype=False, check_names=False)
    try:
        got = q.compute()
        pd.testing.assert_frame_equal(got.sort_index(), expected.sort_index(), check_dtype=False, check_names=False)
    except Exception as exc:
        errors[name] = f"{type(exc).__name__}: {exc}"
        print(f"{name}: un-optimized OK, optimized fails with {errors[name]}")
assert not errors, f"optimized query fails, expected the pandas result: {errors}"
