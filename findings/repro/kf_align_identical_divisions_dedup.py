"""Aligned binary ops on two frames that share divisions ending in a repeated
value (a, .., z, z) advertise divisions (a, .., z): one partition fewer than
the graph produces."""
import sys

pass  # run with PYTHONPATH=<tree>; exits 1 where the defect is present
import dask
import pandas as pd

import dask_expr as dx

print(dx.__file__)
dask.config.set(scheduler="sync")

a = pd.DataFrame({"x": range(5)}, index=range(5))
b = pd.DataFrame({"x": range(10, 15)}, index=range(5))
da = dx.from_pandas(a, npartitions=4)  # divisions (0, 2, 3, 4, 4)
db = dx.from_pandas(b, npartitions=4)
r = da.x + db.x
exp = a.x + b.x
actual = dask.compute(*r.to_delayed())
print("inputs:", da.divisions, "result:", r.divisions, "npartitions", r.npartitions,
      "actual partitions", [p.index.tolist() for p in actual])

problems = []
if r.npartitions != len(actual):
    problems.append(f"npartitions {r.npartitions} != {len(actual)} computed partitions")
# walk over the partitions through the public API
walked = pd.concat([r.partitions[i].compute() for i in range(r.npartitions)])
if not walked.equals(exp):
    problems.append(f"iterating r.partitions loses rows: {walked.index.tolist()} vs {exp.index.tolist()}")
last = r.partitions[-1].compute()
if last.index.tolist() != [4]:
    problems.append(f"partitions[-1] holds {last.index.tolist()}, last row lives elsewhere")
try:
    t = r.tail(1)
    if not t.equals(exp.tail(1)):
        problems.append(f"tail(1) -> {t.to_dict()}")
except Exception as e:  # noqa
    problems.append(f"tail(1): {type(e).__name__}: {e}")

print("\n".join(problems))
assert not problems
