"""C14: a string literal "_0", "_1", ... used inside a fused group (a column label,
a fill value, a suffix, ...) is replaced by a partition of one of the group's inputs.
Exits 0 when the property holds."""
import sys; pass  # run with PYTHONPATH=<tree>; exits 1 where the defect is present (fixed in /repo by 1eb7807)
import numpy as np
import pandas as pd
import dask_expr as dx

print(dx.__file__)
pdf = pd.DataFrame(np.arange(12.0).reshape(6, 2)).add_prefix("_")     # columns "_0", "_1"
df = dx.from_pandas(pdf, npartitions=2)
problems = []

def run(label, build):
    expected = build(pdf)
    unfused = build(df).compute(fuse=False)
    pd.testing.assert_frame_equal(unfused, expected)          # the plan itself is fine
    try:
        fused = build(df).compute()                            # fuse=True is the default
        pd.testing.assert_frame_equal(fused, expected)
    except Exception as exc:                                   # wrong result or crash
        got = locals().get("fused", f"{type(exc).__name__}: {str(exc)[:100]}")
        problems.append(f"--- {label}\nexpected (pandas == unfused):\n{expected}\nfused:\n{got}\n")

run('(df[["_1"]] + 1).assign(c="_0")', lambda d: (d[["_1"]] + 1).assign(c="_0"))
run('(df + 1).add_suffix("_0")', lambda d: (d + 1).add_suffix("_0"))
run('df["_0"] + df["_1"]', lambda d: (d["_0"] + d["_1"]).to_frame("s"))

assert not problems, "fusion changed the result:\n" + "\n".join(problems)
print("ok")
