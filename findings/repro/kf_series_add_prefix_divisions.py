"""Series.add_prefix / add_suffix mapped the divisions through str() (fixed in /repo by f8b4aac).
Run with PYTHONPATH=<tree>; exits 1 where the defect is present."""
import sys

import numpy as np
import pandas as pd

import dask_expr as dx

s = pd.Series(range(30), index=np.arange(30))
d = dx.from_pandas(s, npartitions=3)
bad = 0
for r in (d.add_prefix("p"), d.add_suffix("_s")):
    divs = r.divisions
    if r.known_divisions and list(divs) != sorted(divs):
        print("unsorted divisions", divs)
        bad += 1
u = dx.from_pandas(s, npartitions=3, sort=False).add_prefix("p")
if u.known_divisions:
    print("unknown divisions became", u.divisions)
    bad += 1
sys.exit(1 if bad else 0)
