"""C10: SetIndex._lower forwards `append` only on the presorted multi-partition path; the single-partition
path and the shuffle path (SetPartition has no such parameter) drop it, so set_index(col, append=True)
gives a 2-level index for presorted input and a 1-level index otherwise."""
import warnings; warnings.filterwarnings("ignore")
import pandas as pd, dask_expr as dx
pre = pd.DataFrame({"a": [1, 2, 3, 4, 5, 6, 7, 8], "b": range(8)})
uns = pd.DataFrame({"a": [5, 2, 7, 4, 1, 6, 3, 8], "b": range(8)})
levels = {}
for name, pdf in (("presorted", pre), ("unsorted", uns)):
    df = dx.from_pandas(pdf, npartitions=2)
    levels[name] = df.set_index("a", append=True).compute().index.nlevels
print(levels)
assert levels["presorted"] == levels["unsorted"], "index depth depends on whether the planner found the input presorted"
