"""C14: the *value* of an input of a fused group is interpreted as a graph key.
A scalar input (here: tag.min()) that evaluates to the string "_0" is replaced by
another input of the group.  Exits 0 when the property holds."""
import sys; pass  # run with PYTHONPATH=<tree>; exits 1 where the defect is present (fixed in /repo by 1eb7807)
import pandas as pd
import dask_expr as dx

print(dx.__file__)
pdf = pd.DataFrame({"tag": ["_0", "_1", "a", "b", "_0", "c"], "x": range(6)})
df = dx.from_pandas(pdf, npartitions=2)

def query(d):
    # mark the rows that carry the smallest tag
    return d.x.where(d.tag != d.tag.min(), -1)

expected = query(pdf).tolist()
unfused = query(df).compute(fuse=False).tolist()
fused = query(df).compute().tolist()
assert unfused == expected, (unfused, expected)
assert fused == expected, f"fusion changed the result\nexpected (pandas == unfused): {expected}\nfused:                        {fused}"
print("ok")
