"""C11: Partitions._simplify_down pushed a partition selection below Blockwise operations whose task
depends on the partition number or on neighbouring partitions (sample, random_split, partition_info,
shift/diff/ffill, resample, loc slices): partitions[k] differed from partition k of the full result."""
import warnings; warnings.filterwarnings("ignore")
import numpy as np, pandas as pd, dask, dask_expr as dx
pdf = pd.DataFrame({"a": np.arange(40.0), "b": range(40)}, index=pd.date_range("2020-01-01", periods=40, freq="h"))
df = dx.from_pandas(pdf, npartitions=4)

def check(name, coll, k=2):
    full = dask.compute(*coll.to_delayed())[k] if False else None
    parts = dask.compute(*coll.optimize(fuse=False).to_delayed())
    want = parts[k]
    got = coll.partitions[k].compute()
    ok = got.equals(want)
    print(("OK  " if ok else "BAD ") + name)
    return ok

def pinfo(df, partition_info=None):
    return df.assign(p=partition_info["number"] if partition_info else -1)

results = [
    check("sample", df.sample(frac=0.5, random_state=7)),
    check("random_split", df.random_split([0.5, 0.5], random_state=3)[0]),
    check("map_partitions(partition_info)", df.map_partitions(pinfo, meta=pdf.assign(p=0))),
    check("shift", df.shift(1)),
    check("diff", df.a.diff()),
    check("ffill", df.where(df.b % 7 != 0).ffill()),
    check("resample", df.a.resample("6h").sum()),
    check("loc slice", df.loc["2020-01-01 05:00":"2020-01-02 08:00"], k=1),
]
assert all(results)
