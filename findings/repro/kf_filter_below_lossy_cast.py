"""KF08 (R03h): AsType / ArrowStringConversion / ToTimestamp let filters pass and re-evaluate the predicate on their INPUT
(`predicate.substitute(self, self.frame)`), although they change the values the predicate looks at:
  d.astype({"x": int})[d.astype({"x": int}).x > 1]   keeps 1.6 (1.6 > 1) where pandas drops it (int(1.6) == 1).
Not repaired: dask_expr/tests/test_collection.py::test_astype_filter_pushdown asserts exactly this plan (for a loss-free
int -> float cast), and the existing suite must pass unedited.  Exits 1 while the defect is present.  Documentation only."""
import sys

import pandas as pd

import dask_expr as dx

pdf = pd.DataFrame({"x": [0.4, 1.6, 2.5, 3.4]})
d = dx.from_pandas(pdf, npartitions=2)
got = d.astype({"x": int})[d.astype({"x": int}).x > 1].compute()
exp = pdf.astype({"x": int})[pdf.astype({"x": int}).x > 1]
print("astype   dask:", got.x.tolist(), "pandas:", exp.x.tolist())
bad = got.x.tolist() != exp.x.tolist()

# ArrowStringConversion: missing values compare differently before / after the conversion
import dask
import numpy as np

arr = np.array([["a", 1], [None, 2], ["b", 3], ["a", 4]], dtype=object)
da = dx.from_array(arr, columns=["s", "v"], chunksize=2)
q = da[da.s != "a"]
low = q.expr.lower_completely()
unopt = pd.concat(dask.get(low.__dask_graph__(), low.__dask_keys__())).v.tolist()
opt = q.compute().v.tolist()
print("arrow-string unoptimized:", unopt, "optimized:", opt)
bad = bad or unopt != opt

# ToTimestamp: the predicate on the converted index is evaluated on the period index
pi = pd.DataFrame({"v": np.arange(6)}, index=pd.period_range("2020-01", periods=6, freq="M"))
t = dx.from_pandas(pi, npartitions=2).to_timestamp()
try:
    t[t.index.to_series() > pd.Timestamp("2020-03-15")].compute()
    print("to_timestamp ok")
except TypeError as e:
    print("to_timestamp:", str(e)[:80])
    bad = True
sys.exit(1 if bad else 0)
