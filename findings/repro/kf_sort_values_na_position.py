"""C10/C02: SortValues._lower did not forward na_position to the partition assignment, so with several
output partitions sort_values(na_position='first') left the missing values in the middle of the
result (visible per partition; .compute() on the optimized graph hid it behind Repartition(1))."""
import warnings; warnings.filterwarnings("ignore")
import numpy as np, pandas as pd, dask, dask_expr as dx
pdf = pd.DataFrame({"a": [5.0, np.nan, 3.0, 9.0, 1.0, np.nan, 7.0, 2.0, 8.0, 4.0, 6.0, 10.0], "b": range(12)})
df = dx.from_pandas(pdf, npartitions=3)
for pos in ("first", "last"):
    q = df.sort_values("a", na_position=pos)
    parts = dask.compute(*q.to_delayed())
    got = pd.concat(parts)
    want = pdf.sort_values("a", na_position=pos)
    print(pos, got.a.tolist())
    assert got.a.isna().tolist() == want.a.isna().tolist(), f"na_position={pos}: nulls are not where pandas puts them"
