"""C08/C18: to_parquet(write_index=True) built index_cols by iterating a set difference, so for a
frame with several index levels (e.g. a multi-key groupby result) the order of the index columns
written to the file (and the ToParquet operand) depended on PYTHONHASHSEED."""
import subprocess, sys, os, tempfile, shutil
code = '''
import warnings, sys; warnings.filterwarnings("ignore")
import pandas as pd, numpy as np, dask_expr as dx
pdf = pd.DataFrame({"key_one": [1, 1, 2, 2], "key_two": list("xyxy"), "key_three": [1.0, 2.0, 1.0, 2.0], "v": range(4)})
df = dx.from_pandas(pdf, npartitions=2)
g = df.groupby(["key_one", "key_two", "key_three"]).v.sum().to_frame()
g.to_parquet(sys.argv[1])
back = pd.read_parquet(sys.argv[1])
print(list(back.index.names))
'''
d = tempfile.mkdtemp(prefix="kf_pq_")
try:
    outs = set()
    for seed in ("0", "1", "2", "3", "4"):
        env = dict(os.environ, PYTHONHASHSEED=seed)
        outs.add(subprocess.check_output([sys.executable, "-c", code, os.path.join(d, "out" + seed)], env=env, text=True).strip())
    for o in outs: print(o)
    assert outs == {"['key_one', 'key_two', 'key_three']"}, "index level order of the written dataset depends on the hash seed"
finally:
    shutil.rmtree(d)
