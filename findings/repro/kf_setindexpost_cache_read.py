"""C15/C16: _SetIndexPost._divisions reads divisions_lru under `assert key in divisions_lru` with no miss path.
An optimized set_index plan pickled here and loaded in a fresh interpreter (empty cache) cannot report its
divisions: AssertionError.  (Eviction by >10 other sorts in one process has the same effect.)"""
import os, pickle, subprocess, sys, tempfile, warnings
warnings.filterwarnings("ignore")
import pandas as pd, dask_expr as dx
pdf = pd.DataFrame({"a": [5, 2, 7, 4, 1, 6, 3, 8, 9, 0], "b": range(10)})
df = dx.from_pandas(pdf, npartitions=3)
opt = df.set_index("a").optimize(fuse=False)
want = opt.divisions
with tempfile.NamedTemporaryFile(suffix=".pkl", delete=False) as f:
    pickle.dump(opt, f)
code = "import pickle,sys,warnings; warnings.filterwarnings('ignore'); x=pickle.load(open(sys.argv[1],'rb')); print(x.divisions)"
r = subprocess.run([sys.executable, "-c", code, f.name], capture_output=True, text=True, cwd=os.getcwd(), env=dict(os.environ, PYTHONPATH=os.getcwd()))
os.unlink(f.name)
print(r.stdout.strip(), r.stderr.strip().splitlines()[-1:] )
assert r.returncode == 0 and r.stdout.strip() == str(want), "divisions of the unpickled plan are not available in a fresh process"
