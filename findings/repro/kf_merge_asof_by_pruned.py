"""merge_asof(..., by=k)[cols] pruned the `by` key from both inputs (KeyError) - MergeAsof inherits Merge._simplify_up, which
protects left_on / right_on only.  R04c (key parameters are consulted by the projection rule) missed it at first because the
inherited rule reads every parameter through the generic `kwargs` property; forwarding through kwargs no longer counts.
Documentation only."""
import numpy as np
import pandas as pd
from dask.dataframe.utils import assert_eq

import dask_expr as dx

left = pd.DataFrame({"t": np.arange(10), "k": [1, 2] * 5, "v": np.arange(10.0), "u": 1})
right = pd.DataFrame({"t": np.arange(10), "k": [1, 2] * 5, "w": np.arange(10.0) * 3, "q": 2})
dl, dr = dx.from_pandas(left, npartitions=2), dx.from_pandas(right, npartitions=2)
assert_eq(dx.merge_asof(dl, dr, on="t", by="k")[["v", "w"]], pd.merge_asof(left, right, on="t", by="k")[["v", "w"]], check_index=False)
print("ok")
