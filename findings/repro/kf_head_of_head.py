"""C11/C01: Head._simplify_down collapsed Head(Head(x, n1, npartitions=k), n2) to Head(x, min(n1, n2), <outer
npartitions>), forgetting how many partitions the inner head reads: h = df.head(5, npartitions=3, compute=False);
h.head(4) returned 2 rows although h has 5."""
import warnings; warnings.filterwarnings("ignore")
import pandas as pd, dask_expr as dx
pdf = pd.DataFrame({"a": range(12)})
df = dx.from_pandas(pdf, npartitions=6)  # 2 rows per partition
h = df.head(5, npartitions=3, compute=False)
assert len(h.compute()) == 5
got = h.head(4)
print(len(got))
assert got.equals(pdf.head(5).head(4))
