"""sort_values: the "already sorted" fast path leaves NaNs in the middle.

If the partition minima / maxima of the sort column are already ordered, the
planner only sorts inside each partition.  min / max skip NaN, so a NaN in
any partition but the last stays inside that partition instead of going to
the global end (na_position="last") or start ("first").  Asking for another
partition count (npartitions=3) takes the shuffle path and sorts correctly.
(.compute() alone hides this: it adds a Repartition to one partition that is
pushed below the sort.)
"""
import sys

pass  # run with PYTHONPATH=<tree>; exits 1 where the defect is present (fixed in /repo by 8f89602)
import dask
import numpy as np
import pandas as pd

import dask_expr
from dask_expr import from_pandas

print(dask_expr.__file__)
dask.config.set(scheduler="sync")

pdf = pd.DataFrame({"t": [0.0, 1, np.nan, 3, 4, np.nan, 6, 7], "v": range(8)})
ddf = from_pandas(pdf, npartitions=2, sort=False)  # partitions: [0, 1, nan, 3] and [4, nan, 6, 7]


def rows(x):  # rows in partition order
    return pd.concat(dask.compute(*x.to_delayed()))


bad = []
for na_position in ["last", "first"]:
    want = pdf.sort_values("t", na_position=na_position)
    for kw in [{}, {"npartitions": 2}, {"npartitions": 3}, {"upsample": 2.0}]:
        s = ddf.sort_values("t", na_position=na_position, **kw)
        got = rows(s)
        # only the key order is compared (the order of the two NaN rows among themselves is free)
        ok = got.t.reset_index(drop=True).equals(want.t.reset_index(drop=True))
        ffill = s.t.ffill().compute().tolist()  # an ordinary order-dependent consumer
        print(f"na_position={na_position} {kw}: t={got.t.tolist()} t.ffill()={ffill} {'ok' if ok else 'WRONG'}")
        if not ok:
            bad.append((na_position, kw, got.t.tolist()))

assert not bad, f"NaN has to come last / first in every configuration; wrong for {bad}"
