"""C01/C03: the OR-factoring branch of Filter._simplify_up rebuilt its parent as type(parent)(new_filter,
*parent.operands[1:]) - assuming the filter is the parent's FIRST operand. As the right input of a merge, an
OR-filter whose disjuncts share a conjunct replaced the merge's LEFT input by the filtered right frame."""
import warnings; warnings.filterwarnings("ignore")
import pandas as pd, dask_expr as dx
l = pd.DataFrame({"a": range(10), "x": range(10)})
r = pd.DataFrame({"a": range(10), "b": range(10), "c": range(10)})
dl, dr = dx.from_pandas(l, npartitions=2), dx.from_pandas(r, npartitions=2)
f = dr[((dr.b > 2) & (dr.c < 8)) | ((dr.b > 2) & (dr.c == 9))]
pf = r[((r.b > 2) & (r.c < 8)) | ((r.b > 2) & (r.c == 9))]
got = dl.merge(f, on="a").compute().sort_values("a").reset_index(drop=True)
want = l.merge(pf, on="a")
print(list(got.columns), got.shape)
assert list(got.columns) == list(want.columns) and got.equals(want)
got2 = (dl.x + f.b).compute()   # filter as the right operand of a binary op
assert got2.sort_index().equals((l.x + pf.b).sort_index())
print("ok")
