"""C11/C09: BroadcastJoin._layer stored its output under (name, <selected partition id>) instead of
(name, <position>): partitions[k>0] of a broadcast join raised KeyError."""
import warnings; warnings.filterwarnings("ignore")
import pandas as pd, dask_expr as dx
l = pd.DataFrame({"k": list(range(40)), "x": range(40)})
r = pd.DataFrame({"k": [1, 5, 9, 33], "y": [1, 2, 3, 4]})
dl, dr = dx.from_pandas(l, npartitions=8), dx.from_pandas(r, npartitions=2)
j = dl.merge(dr, on="k", how="inner", broadcast=True, shuffle_method="tasks")
assert any(type(e).__name__ == "BroadcastJoin" for e in j.optimize().expr.walk()), "not a broadcast plan"
full = j.compute().sort_values("k").reset_index(drop=True)
parts = [j.partitions[i].compute() for i in range(j.npartitions)]
got = pd.concat(parts).sort_values("k").reset_index(drop=True)
assert got.equals(full), (got, full)
print("ok", len(got))
