"""len / sum / nunique of `df.shuffle(key).partitions[k].optimize()` were computed over the WHOLE frame: the rule that moves
reductions below a shuffle (row permutation) is inherited by the lowered shuffle classes, which carry a partition selection.
Reported by a seeding sub-agent (len only); rule R11f.  Documentation only."""
import numpy as np
import pandas as pd

import dask_expr as dx

pdf = pd.DataFrame({"a": np.arange(100) % 9, "b": np.arange(100)})
x = dx.from_pandas(pdf, npartitions=5).shuffle("a", shuffle_method="tasks").partitions[1]
ref = x.compute()
o = x.optimize()
assert len(o) == len(ref), (len(o), len(ref))
assert o.b.sum().compute() == ref.b.sum()
print("ok")
