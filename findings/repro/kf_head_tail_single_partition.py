"""head()/tail() pushed through an elementwise operation of a ONE-partition frame left row-aligned Series operands uncut
(fixed in /repo by 1f955fd).  Run with PYTHONPATH=<tree>; exits 1 where the defect is present."""
import sys
import warnings

import pandas as pd

warnings.filterwarnings("ignore")
import dask_expr as dx

p = pd.DataFrame({"x": range(10), "y": [3.0 * i for i in range(10)]})
d = dx.from_pandas(p, npartitions=1)
bad = 0
for name, f in {"add(series, axis=0)": lambda a: a.add(a.x, axis=0), "where": lambda a: a.x.where(a.x > 2, a.y)}.items():
    for ht in ("head", "tail"):
        got = getattr(f(d), ht)(3)
        exp = getattr(f(p), ht)(3)
        if len(got) != len(exp) or not got.equals(exp.astype(got.dtypes) if hasattr(got, "dtypes") and got.ndim == 2 else exp.astype(got.dtype)):
            print(f"WRONG {name}.{ht}(3): got {len(got)} rows, expected {len(exp)}")
            bad += 1
sys.exit(1 if bad else 0)
