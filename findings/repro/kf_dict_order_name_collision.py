"""df.groupby("a").agg({"x": "sum", "y": "mean"}) and the same call with reversed keys shared one expression name (dask
tokenizes dicts by sorted items): the second query resolved to the first, live expression and returned ITS column order.
Reported by a seeding sub-agent; rule R08e (the naming helper keeps dict order).  Documentation only."""
import numpy as np
import pandas as pd

import dask_expr as dx

pdf = pd.DataFrame({"a": np.arange(20) % 3, "x": np.arange(20.0), "y": np.arange(20.0) * 3})
d = dx.from_pandas(pdf, npartitions=2)
q1 = d.groupby("a").agg({"x": "sum", "y": "mean"})
q2 = d.groupby("a").agg({"y": "mean", "x": "sum"})
assert q1._name != q2._name
assert list(q2.compute().columns) == ["y", "x"], list(q2.compute().columns)
print("ok")
