"""The lowered single-partition rolling aggregation declared the schema of its input (fixed in /repo by 5588cce; found by rule R07f's
sibling comparison).  Run with PYTHONPATH=<tree>; exits 1 where the defect is present."""
import sys
import warnings

import numpy as np
import pandas as pd

warnings.filterwarnings("ignore")
import dask_expr as dx

p = pd.DataFrame({"x": range(10), "y": np.arange(10.0), "g": [0, 1] * 5})
d = dx.from_pandas(p, npartitions=1)


def desc(c):
    m = c._meta
    return (type(m).__name__, [str(t) for t in (m.dtypes if m.ndim == 2 else [m.dtype])], m.index.nlevels, list(getattr(m, "columns", [])))


bad = 0
for name, q in {"count": d.rolling(2).count(), "cov": d.rolling(2).cov(), "sum": d.x.rolling(2).sum(), "groupby": d.groupby("g").rolling(2).sum()}.items():
    if desc(q) != desc(q.optimize()):
        print(name, "declared", desc(q), "optimized", desc(q.optimize()))
        bad += 1
sys.exit(1 if bad else 0)
