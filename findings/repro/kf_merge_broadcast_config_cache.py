"""C15: Merge.is_broadcast_join was a cached_property that reads the process configuration (default shuffle method).
The same merge expression planned once under dataframe.shuffle.method='tasks' kept its broadcast plan when planned
again under 'disk' (where broadcast joins are not available): the plan depended on session history."""
import warnings; warnings.filterwarnings("ignore")
import dask, pandas as pd, dask_expr as dx
l = dx.from_pandas(pd.DataFrame({"k": range(400), "x": range(400)}), npartitions=20)
r = dx.from_pandas(pd.DataFrame({"k": range(0, 400, 7), "y": range(58)}), npartitions=2)
q = l.merge(r, on="k")
def plan():
    return sorted({type(e).__name__ for e in q.optimize(fuse=False).expr.walk() if "Join" in type(e).__name__ or "Merge" in type(e).__name__})
with dask.config.set({"dataframe.shuffle.method": "tasks"}):
    first = plan()
with dask.config.set({"dataframe.shuffle.method": "disk"}):
    second = plan()
q2 = dx.from_pandas(pd.DataFrame({"k": range(400), "x": range(400)}), npartitions=20).merge(r, on="k")
print(first, second)
assert "BroadcastJoin" in first
assert "BroadcastJoin" not in second, "plan under 'disk' still is the broadcast plan cached under 'tasks'"
