import sys; pass  # run with PYTHONPATH=<tree>
import numpy as np, pandas as pd, dask
import dask_expr as dx

print(dx.__file__)
dask.config.set(scheduler="sync")

L = pd.DataFrame({"lv": np.arange(12)}, index=np.arange(12))
R = pd.DataFrame({"rv": np.arange(13) * 10}, index=np.arange(3, 16))   # small lookup table, one partition
l = dx.from_pandas(L, npartitions=3)
r = dx.from_pandas(R, npartitions=1)

j = l.join(r, how="left")            # Merge(left_index=True, right_index=True)
expected = L.join(R, how="left")

parts = dask.compute(*j.to_delayed())
print("reported: npartitions =", j.npartitions, "divisions =", tuple(int(d) for d in j.divisions))
print("computed:", len(parts), "partitions; after optimize():", j.optimize().npartitions,
      tuple(int(d) for d in j.optimize().divisions))

errors = []
try:
    tail = j.tail(3)
    assert tail.astype(float).equals(expected.tail(3).astype(float))
except Exception as e:
    errors.append(f"tail(): {type(e).__name__}: {e}")
try:
    j.partitions[j.npartitions - 1].compute()
except Exception as e:
    errors.append(f"partitions[npartitions - 1]: {type(e).__name__}: {e}")
print("\n".join(errors))

assert j.compute().sort_index().equals(expected)          # the join itself is right
assert len(parts) == j.npartitions, f"npartitions says {j.npartitions}, {len(parts)} partitions are computed"
assert not errors, errors
