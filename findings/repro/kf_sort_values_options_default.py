"""groupby(sort=True).agg({'x': 'median'}) raised KeyError('options'): ShuffleReduce._lower builds a SortValues without the
parameter `options`, which had no default (fixed in /repo by 3e7387b).  Run with PYTHONPATH=<tree>; exits 1 where the defect is present."""
import sys
import warnings

import pandas as pd

warnings.filterwarnings("ignore")
import dask_expr as dx

p = pd.DataFrame({"g": [0, 1] * 6, "x": range(12)})
d = dx.from_pandas(p, npartitions=3)
try:
    got = d.groupby("g", sort=True).agg({"x": "median"}).compute()
except KeyError as e:
    print("KeyError", e)
    sys.exit(1)
sys.exit(0 if got.x.tolist() == p.groupby("g").agg({"x": "median"}).x.tolist() else 1)
