import sys; pass  # run with PYTHONPATH=<tree>; exits 1 where the defect is present (fixed in /repo by 5c2584e)
import numpy as np, pandas as pd, dask, dask_expr
from dask_expr import from_pandas
print(dask_expr.__file__)

def unoptimized(c):
    e = c.expr.lower_completely()
    return pd.concat(dask.get(e.__dask_graph__(), e.__dask_keys__()))

def rows(f):
    return sorted(map(tuple, f.reset_index().values.tolist()))

r = np.random.RandomState(1)
# columns deliberately NOT in alphabetical order (b, a, c) - the usual case for real data
pdf = pd.DataFrame({"b": r.randint(0, 9, 12).astype(float), "a": r.randint(0, 9, 12).astype(float), "c": r.permutation(12)})
pred = lambda x: ((x.b > 2) & (x.a > 1)) | ((x.b > 2) & (x.a < 0))      # (A & B) | (A & C)
px = pdf.set_index("c")
expected = rows(px[pred(px)])

bad = []
for npartitions in (1, 3):
    x = from_pandas(pdf, npartitions=npartitions).set_index("c")
    q = x[pred(x)]
    assert rows(unoptimized(q)) == expected                 # fine un-optimized
    assert rows(x[(x.b > 2) & ((x.a > 1) | (x.a < 0))].compute()) == expected   # fine when factored by hand
    try:
        got = rows(q.compute())
    except Exception as e:
        got = f"{type(e).__name__}: {str(e)[:70]}"
    print(f"npartitions={npartitions}\n  expected {expected}\n  got      {got}")
    if got != expected:
        bad.append(npartitions)
assert not bad, f"(A & B) | (A & C) above set_index: wrong rows / error once optimized, npartitions={bad}"
