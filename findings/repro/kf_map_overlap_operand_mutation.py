"""C05/C08/C16: MapOverlap._meta popped 'parent_meta' out of the `kwargs` operand dict: after the first
access of _meta the expression rebuilt from its own operands had a different name (and a copy of the
collection made before that access no longer matched it)."""
import warnings; warnings.filterwarnings("ignore")
import pandas as pd, dask_expr as dx
from dask_expr._collection import map_overlap
pdf = pd.DataFrame({"a": range(20)})
df = dx.from_pandas(pdf, npartitions=4)
def f(x):
    return x + 1
q = map_overlap(f, df, 1, 1, parent_meta=pdf.iloc[:0])
e = q.expr
name_before = e._name
kw_before = dict(e.operand("kwargs"))
_ = e._meta
rebuilt = type(e)(*e.operands)
print(name_before, rebuilt._name, sorted(kw_before), sorted(e.operand("kwargs")))
assert sorted(e.operand("kwargs")) == sorted(kw_before), "operand dict was mutated"
assert rebuilt._name == name_before, "operands changed after the name was computed"
assert q.compute().equals(pdf + 1)
