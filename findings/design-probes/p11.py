import warnings; warnings.filterwarnings("ignore")
import pandas as pd, numpy as np, dask_expr as dx
pdf = pd.DataFrame({"a":[5,2,np.nan,4,1,6,np.nan,8,3,7], "b":np.arange(10.)})
for n in (1, 3):
    df = dx.from_pandas(pdf, npartitions=n)
    r = df.sort_values("a", na_position="first").compute()
    print(n, r.a.tolist())
print("pandas", pdf.sort_values("a", na_position="first").a.tolist())
