import warnings; warnings.filterwarnings("ignore")
import pandas as pd, numpy as np, dask_expr as dx
pdf = pd.DataFrame({"a":list("abcdefgh"), "b":np.arange(8.)})
df = dx.from_pandas(pdf, npartitions=2)
print(df.a.isin(["a","b","c","d"])._name)
