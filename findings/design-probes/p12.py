import warnings; warnings.filterwarnings("ignore")
import pandas as pd, numpy as np, dask_expr as dx
def T(name, f):
    try:
        r = f()
        print("OK  ", name, "->", r)
    except Exception as e:
        print("ERR ", name, "->", type(e).__name__, str(e)[:160])
a = pd.Series(np.arange(8.), name="a")
lo = pd.Series([100.,100,100,100,0,0,0,0], name="lo")
da = dx.from_pandas(a, npartitions=2)
# other frame, different partition boundaries, unknown divisions
dlo = dx.from_pandas(lo, npartitions=2, sort=False).clear_divisions()
dlo2 = dx.from_pandas(lo, npartitions=4).repartition(npartitions=2).clear_divisions()
da_u = da.clear_divisions()
T("clip unaligned unknown div", lambda: (da_u.clip(lower=dlo2).compute().tolist(), a.clip(lower=lo).tolist()))
dlo3 = dx.from_pandas(lo.iloc[[0,1,2,3,4,5]], npartitions=2)  # different divisions (0,3,5)
T("clip unaligned known div", lambda: (da.clip(lower=dlo3).compute().tolist()))
T("between unaligned known div", lambda: (da.between(dlo3, 1000).compute().tolist()))
# unknown divisions + different row split: partitions of lo: [0..5],[6,7] vs a: [0..3],[4..7]
lo_parts = dx.from_map(lambda i: lo.iloc[:6] if i==0 else lo.iloc[6:], [0,1])
T("clip vs from_map (unknown, different cut)", lambda: (da_u.clip(lower=lo_parts).compute().tolist(), a.clip(lower=lo).tolist()))
