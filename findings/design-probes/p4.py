import warnings; warnings.filterwarnings("ignore")
import pandas as pd, numpy as np, dask_expr as dx, dask, pickle, sys, os
mode = sys.argv[1]
if mode == "write":
    pdf = pd.DataFrame({"a":np.arange(16), "b":np.arange(16.), "c": list("abcdefghijklmnop")})
    dx.from_pandas(pdf, npartitions=2).to_parquet("pq")
elif mode == "name":
    df = dx.read_parquet("pq")
    q = df[(df.a > 1) & (df.b < 10) & (df.c != "a")]
    o = q.optimize(fuse=False)
    rp = [e for e in o.expr.walk() if "ReadParquet" in type(e).__name__][0]
    print(rp.operand("filters"), o._name)
elif mode == "ne":
    pdf = pd.DataFrame({"a":[1.0, None, 3.0, 4.0], "b":[1,2,3,4]})
    dx.from_pandas(pdf, npartitions=1).to_parquet("pq_ne")
    df = dx.read_parquet("pq_ne")
    q = df[df.a != 1.0]
    print("optimized:", len(q.compute()), "pandas:", len(pdf[pdf.a != 1.0]))
    print(q.optimize(fuse=False).pprint())
elif mode == "dump":
    pdf = pd.DataFrame({"a":np.arange(16)[::-1].copy(), "b":np.arange(16.)})
    df = dx.from_pandas(pdf, npartitions=4)
    q = df.set_index("a")
    o = q.optimize()
    lowered = dx.new_collection(q.expr.lower_completely())
    pickle.dump({"logical": q, "opt": o, "low": lowered, "names": (q._name, o._name, lowered._name), "divs": o.divisions}, open("si.pkl","wb"))
    print("dumped", o.divisions)
elif mode == "load":
    d = pickle.load(open("si.pkl","rb"))
    for k in ["logical","opt","low"]:
        try:
            c = d[k]
            print(k, "name same:", c._name in d["names"], "divisions:", c.divisions)
            print(k, "compute ok", len(c.compute()))
        except Exception as e:
            print(k, "ERR", type(e).__name__, str(e)[:100])
elif mode == "mo":
    pdf = pd.DataFrame({"a":np.arange(16), "b":np.arange(16.)})
    df = dx.from_pandas(pdf, npartitions=2)
    def f(d): return d
    mo = df.map_overlap(f, 1, 0, parent_meta=pdf.iloc[:0])
    n1 = mo._name
    e2 = type(mo.expr)(*mo.expr.operands)
    print("kwargs after new_collection:", mo.expr.operand("kwargs").keys(), "same name on rebuild:", e2._name == n1)
