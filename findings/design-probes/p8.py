import warnings; warnings.filterwarnings("ignore")
import pandas as pd, numpy as np, dask_expr as dx, dask
def T(name, f):
    try:
        r = f()
        print("OK  ", name, "->", r)
    except Exception as e:
        print("ERR ", name, "->", type(e).__name__, str(e)[:160])
pdf = pd.DataFrame({"a":[5,2,7,4,1,6,3,8], "b":np.arange(8.), "c": np.arange(8)})
df = dx.from_pandas(pdf, npartitions=2)
q = df.rolling(2).sum()[["b"]]
T("rolling [[b]] type before/after", lambda: (type(q).__name__, type(q.optimize()).__name__, type(q.compute()).__name__))
q2 = df.rolling(2).sum()[["b","c"]]
T("rolling [[b,c]] cols", lambda: (list(q2.columns), list(q2.optimize().columns)))
q3 = df.rolling(2).sum()[["c","b"]]
T("rolling [[c,b]] cols (order)", lambda: (list(q3.columns), list(q3.optimize().columns), list(q3.compute().columns)))
