import warnings; warnings.filterwarnings("ignore")
import pandas as pd, numpy as np, dask_expr as dx, dask, pickle
def T(name, f):
    try:
        r = f()
        print("OK  ", name, "->", r)
    except Exception as e:
        print("ERR ", name, "->", type(e).__name__, str(e)[:200])
pdf = pd.DataFrame({"a":[1,2,3,4,5,6,7,8], "b":[1.,2,3,4,5,6,7,8], "c": list("xyxyxyxy")})
df = dx.from_pandas(pdf, npartitions=4)

T("shift1+shift2", lambda: ((df.a.shift(1) + df.a.shift(2)).compute().tolist(), (pdf.a.shift(1)+pdf.a.shift(2)).tolist()))
T("shift1+shift3", lambda: ((df.a.shift(1) + df.a.shift(3)).compute().tolist(), (pdf.a.shift(1)+pdf.a.shift(3)).tolist()))
T("diff1+shift2", lambda: ((df.a.diff(1) + df.a.shift(2)).compute().tolist(), (pdf.a.diff(1)+pdf.a.shift(2)).tolist()))
def graphkeys():
    q = (df.a.shift(1) + df.a.shift(2)).optimize(fuse=False)
    layers = []
    for e in q.expr.walk():
        layers.append(e._layer())
    allk = [k for l in layers for k in l]
    return len(allk), len(set(allk))
T("shift keys total vs distinct", graphkeys)

# broadcast join partitions
big = dx.from_pandas(pd.DataFrame({"k": np.arange(64)%8, "v": np.arange(64)}), npartitions=16)
small = dx.from_pandas(pd.DataFrame({"k": np.arange(8), "w": np.arange(8)*10}), npartitions=2)
j = big.merge(small, on="k", broadcast=True)
T("bcast join type", lambda: [type(e).__name__ for e in j.optimize(fuse=False).expr.walk()][:4])
T("bcast join partitions[3]", lambda: len(j.partitions[3].compute()))
T("bcast join partitions[0]", lambda: len(j.partitions[0].compute()))
# median
m = df.groupby("c").b.median(split_every=2)
T("median npart vs divisions", lambda: (m.npartitions, len(m.divisions)-1))
# len of misaligned-lengths binop
T("len(filtered + b)", lambda: (len(df.a[df.a > 4] + df.b), len(pdf.a[pdf.a>4] + pdf.b)))
T("len(b + filtered)", lambda: (len(df.b + df.a[df.a > 4]), len(pdf.b + pdf.a[pdf.a>4])))
# fillna dict under projection
T("fillna dict proj", lambda: df.fillna({"a": 0, "b": 1})[["a"]].compute().shape)
T("replace dict proj", lambda: (df.replace({"a": {1: 100}, "c": {"x": "z"}})["a"].compute().tolist()[:3], pdf.replace({"a": {1: 100}, "c": {"x": "z"}})["a"].tolist()[:3]))
T("clip series", lambda: df.clip(lower=df.a, upper=None).compute().shape)
