import warnings; warnings.filterwarnings("ignore")
import pandas as pd, numpy as np, dask_expr as dx, dask
def T(name, f):
    try:
        r = f()
        print("OK  ", name, "->", r)
    except Exception as e:
        print("ERR ", name, "->", type(e).__name__, str(e)[:160])
pdf = pd.DataFrame({"a":np.arange(16), "b":np.arange(16.)})
df = dx.from_pandas(pdf, npartitions=4)
l = df.loc[9:]
parts = dask.compute(*l.to_delayed())
T("loc[9:] parts", lambda: [p.index.tolist() for p in parts])
T("loc[9:].partitions[0]", lambda: l.partitions[0].compute().index.tolist())
T("loc[9:].partitions[1]", lambda: l.partitions[1].compute().index.tolist())
l2 = (df+1).loc[9:]
T("(df+1).loc[9:].partitions[1]", lambda: l2.partitions[1].compute().index.tolist())
T("(s+s.sum()).tail", lambda: (df.a + df.a.sum()).tail().tolist())
# presorted set_index append
sdf = dx.from_pandas(pdf, npartitions=4)
T("presorted set_index append nlevels", lambda: sdf.set_index("a", append=True).compute().index.nlevels)
udf = dx.from_pandas(pdf.iloc[::-1].reset_index(drop=True), npartitions=4)
T("unsorted set_index append nlevels", lambda: udf.set_index("a", append=True).compute().index.nlevels)
