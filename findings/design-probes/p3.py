import warnings; warnings.filterwarnings("ignore")
import pandas as pd, numpy as np, dask_expr as dx, dask, pickle, subprocess, sys, os
def T(name, f):
    try:
        r = f()
        print("OK  ", name, "->", r)
    except Exception as e:
        print("ERR ", name, "->", type(e).__name__, str(e)[:200])
pdf = pd.DataFrame({"a":np.arange(16), "b":np.arange(16.)})
df = dx.from_pandas(pdf, npartitions=2)
T("shift1 alone", lambda: df.a.shift(1).compute().tolist()[:4])
T("shift2 alone", lambda: df.a.shift(2).compute().tolist()[:4])
T("shift1+shift2 (8-row partitions)", lambda: ((df.a.shift(1) + df.a.shift(2)).compute().tolist()== (pdf.a.shift(1)+pdf.a.shift(2)).tolist()))
T("rolling(2).sum + rolling(3).sum", lambda: np.allclose((df.a.rolling(2).sum() + df.a.rolling(3).sum()).compute().values, (pdf.a.rolling(2).sum()+pdf.a.rolling(3).sum()).values, equal_nan=True))

big = dx.from_pandas(pd.DataFrame({"k": np.arange(64)%8, "v": np.arange(64)}), npartitions=16)
small = dx.from_pandas(pd.DataFrame({"k": np.arange(8), "w": np.arange(8)*10}), npartitions=2)
j = big.merge(small, on="k", broadcast=True, shuffle_method="tasks")
T("bcast join type", lambda: [type(e).__name__ for e in j.optimize(fuse=False).expr.walk()][:3])
parts = dask.compute(*j.to_delayed())
T("bcast join partitions[3]", lambda: (len(j.partitions[3].compute()), len(parts[3])))
T("bcast join partitions[[1,3]]", lambda: (len(j.partitions[[1,3]].compute()), len(parts[1])+len(parts[3])))
j2 = big.merge(small, on="k", how="left", broadcast=True, shuffle_method="tasks")
T("bcast left join partitions[3]", lambda: (len(j2.partitions[3].compute())))

# map_overlap kwargs pop
def f(d, parent_meta=None): return d
mo = df.map_overlap(lambda d, **k: d, 1, 0, meta=pdf.iloc[:0])
e = mo.expr
print("map_overlap expr type", type(e).__name__, "kwargs operand:", e.operand("kwargs"))
