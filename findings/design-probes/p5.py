import warnings; warnings.filterwarnings("ignore")
import pandas as pd, numpy as np, dask_expr as dx, dask, pickle, sys, os
mode = sys.argv[1]
if mode == "load":
    d = pickle.load(open("si.pkl","rb"))
    for k in sys.argv[2:]:
        try:
            c = d[k]
            print(k, "name same:", c._name in d["names"])
            print(k, "divisions:", c.divisions)
            print(k, "compute ok", len(c.compute()))
        except Exception as e:
            print(k, "ERR", type(e).__name__, str(e)[:100])
elif mode == "name":
    df = dx.read_parquet("/tmp/probe/pq", filesystem="arrow")
    q = df[(df.a > 1) & (df.b < 10) & (df.c != "a")]
    o = q.optimize(fuse=False)
    rp = [e for e in o.expr.walk() if "ReadParquet" in type(e).__name__][0]
    print(rp.operand("filters"), o._name)
elif mode == "ne":
    pdf = pd.DataFrame({"a":[1.0, None, 3.0, 4.0], "b":[1,2,3,4]})
    df = dx.read_parquet("/tmp/probe/pq_ne", filesystem="arrow")
    q = df[df.a != 1.0]
    print("optimized:", len(q.compute()), "pandas:", len(pdf[pdf.a != 1.0]))
    q.optimize(fuse=False).pprint()
elif mode == "fused":
    pdf = pd.DataFrame({"i": np.arange(40), "a":np.arange(40), "b":np.arange(40.), "c":np.arange(40.), "d":np.arange(40.), "e":np.arange(40.)}).set_index("i")
    dx.from_pandas(pdf, npartitions=10).to_parquet("pq_f")
    df = dx.read_parquet("/tmp/probe/pq_f", filesystem="arrow", calculate_divisions=True)
    print("divs", df.divisions)
    o = df[["a"]].optimize()
    o.pprint()
    print("opt divs", o.divisions, "npart", o.npartitions)
