import warnings; warnings.filterwarnings("ignore")
import pandas as pd, numpy as np, dask_expr as dx, dask
from dask_expr import _expr as E
def T(name, f):
    try:
        r = f()
        print("OK  ", name, "->", r)
    except Exception as e:
        print("ERR ", name, "->", type(e).__name__, str(e)[:150])
pdf = pd.DataFrame({"a":[1,2,3,4,5,6,7,8], "b":[1.,2,3,4,5,6,7,8], "c": list("xyxyxyxy")})
df = dx.from_pandas(pdf, npartitions=4)
pdf2 = pd.DataFrame({"a":[1,2,3,4], "b":[10,20,30,40]})
df2 = dx.from_pandas(pdf2, npartitions=2)

# merge suffix both
T("merge both suffixed", lambda: list(df.merge(df2, on="a")[["b_x","b_y"]].compute().columns))
# s + s.sum() head
T("(s+s.sum()).head", lambda: (df.a + df.a.sum()).head().tolist())
# head npartitions=2 after elemwise
T("head(7,npartitions=2) elemwise", lambda: len((df.a + 1).head(7, npartitions=2)))
T("head(7,npartitions=2) plain", lambda: len(df.head(7, npartitions=2)))
# from_array head
T("from_array head", lambda: len(dx.from_array(np.arange(10).reshape(5,2), chunksize=3).head()))
T("from_array partitions[0]", lambda: len(dx.from_array(np.arange(10).reshape(5,2), chunksize=3).partitions[0].compute()))
T("from_array partitions[1]", lambda: len(dx.from_array(np.arange(10).reshape(5,2), chunksize=3).partitions[1].compute()))
# sample partitions
s = df.sample(frac=0.5, random_state=1)
full = s.to_delayed()
def f():
    a = s.partitions[1].compute()
    b = dask.compute(full[1])[0]
    return a.index.tolist(), b.index.tolist()
T("sample.partitions[1] vs partition 1", f)
# map_partitions partition_info
def g(d, partition_info=None):
    return d.assign(p=partition_info["number"])
m = df.map_partitions(g, meta={**pdf.dtypes.to_dict(), "p": int})
T("map_partitions partition_info partitions[2]", lambda: (m.partitions[2].compute().p.unique().tolist(), m.compute().p.tolist()))
# random_split
a, b = df.random_split([0.5,0.5], random_state=3)
def h():
    return a.partitions[1].compute().index.tolist(), dask.compute(a.to_delayed()[1])[0].index.tolist()
T("random_split partitions[1]", h)
# categorize projection
T("categorize()[a]", lambda: df.categorize()["c"].compute().tolist())
# resample partitions
ts = pd.DataFrame({"x": range(48)}, index=pd.date_range("2000-01-01", periods=48, freq="h"))
dts = dx.from_pandas(ts, npartitions=4)
r = dts.resample("2h").sum()
def k():
    return r.partitions[2].compute().index[:2].tolist(), dask.compute(r.to_delayed()[2])[0].index[:2].tolist()
T("resample partitions[2]", k)
