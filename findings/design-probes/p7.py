import warnings; warnings.filterwarnings("ignore")
import pandas as pd, numpy as np, dask_expr as dx, dask
def T(name, f):
    try:
        r = f()
        print("OK  ", name, "->", r)
    except Exception as e:
        print("ERR ", name, "->", type(e).__name__, str(e)[:160])
d = dx.read_parquet("/tmp/probe/pq_f", filesystem="arrow")
p0 = d.partitions[0].optimize()
T("arrow len(optimized partitions[0])", lambda: (len(p0), len(p0.compute())))
d2 = dx.read_parquet("/tmp/probe/pq_f")
p02 = d2.partitions[0].optimize()
T("fsspec len(optimized partitions[0])", lambda: (len(p02), len(p02.compute())))
pdf = pd.DataFrame({"a":[5,2,7,4,1,6,3,8], "b":np.arange(8.)})
df = dx.from_pandas(pdf, npartitions=4)
p = df.partitions[1].optimize()
T("from_pandas len(optimized partitions[1])", lambda: (len(p), len(p.compute())))
