#!/venv/bin/python
"""Confirm a seeded defect independently: in a scratch copy of /repo's HEAD (outside /repo and /verif)
 (a) demo passes on the unchanged tree, (b) patch applies, (c) demo fails with the patch,
 (d) the full suite still passes every stable_pass test with the patch.
usage: confirm_seed.py <seed_dir> [-n jobs] [--no-suite]   -> writes <seed_dir>/confirm.json"""
import json, os, shutil, subprocess, sys, tempfile, time

sd = os.path.abspath(sys.argv[1])
jobs = sys.argv[sys.argv.index("-n") + 1] if "-n" in sys.argv else "4"
suite = "--no-suite" not in sys.argv
out = {"seed": sd, "repo_head": subprocess.check_output(["git", "-C", "/repo", "rev-parse", "--short", "HEAD"], text=True).strip()}
scratch = tempfile.mkdtemp(prefix="confirm_")
try:
    subprocess.run(f"git -C /repo archive HEAD | tar -x -C {scratch}", shell=True, check=True)
    env = dict(os.environ, PYTHONPATH=scratch, PYTHONDONTWRITEBYTECODE="1")
    demo = os.path.join(sd, "demo.py")
    def run_demo():
        r = subprocess.run(["/venv/bin/python", demo], cwd=scratch, env=env, capture_output=True, text=True, timeout=1200)
        return r.returncode, (r.stdout + r.stderr)[-1500:]
    rc0, o0 = run_demo()
    out["demo_clean_rc"] = rc0
    if rc0 != 0:
        out["demo_clean_tail"] = o0
    ap = subprocess.run(["git", "apply", os.path.join(sd, "patch.diff")], cwd=scratch, capture_output=True, text=True)
    if ap.returncode != 0:
        ap = subprocess.run(["patch", "-p1", "--fuzz=3", "-s", "-i", os.path.join(sd, "patch.diff")], cwd=scratch, capture_output=True, text=True)
    out["applies"] = ap.returncode == 0
    if ap.returncode == 0:
        imp = subprocess.run(["/venv/bin/python", "-c", "import dask_expr; print(dask_expr.__file__)"], cwd=scratch, env=env, capture_output=True, text=True)
        out["imports_from"] = imp.stdout.strip()
        rc1, o1 = run_demo()
        out["demo_patched_rc"] = rc1
        out["demo_patched_tail"] = o1[-600:]
        if suite:
            t = time.time()
            r = subprocess.run(["/venv/bin/python", "/verif/tools/run_suite.py", scratch, "-n", jobs], capture_output=True, text=True)
            out["suite_rc"] = r.returncode
            out["suite_tail"] = r.stdout.strip().splitlines()[-3:]
            out["suite_s"] = round(time.time() - t)
    out["confirmed"] = bool(out.get("applies") and rc0 == 0 and out.get("demo_patched_rc", 0) != 0 and (not suite or out.get("suite_rc") == 0))
finally:
    shutil.rmtree(scratch, ignore_errors=True)
json.dump(out, open(os.path.join(sd, "confirm.json"), "w"), indent=1)
print(os.path.relpath(sd, "/tmp/seeds"), "CONFIRMED" if out["confirmed"] else "NOT-CONFIRMED", {k: out.get(k) for k in ("demo_clean_rc", "applies", "demo_patched_rc", "suite_rc")})
