#!/venv/bin/python
"""Run every check registered in MANIFEST.json (quick or thorough) and validate the evidence files.
usage: run_all.py [quick|thorough]"""
import json, os, subprocess, sys, time
tier = sys.argv[1] if len(sys.argv) > 1 else "quick"
root = os.path.dirname(os.path.dirname(os.path.abspath(__file__)))
man = json.load(open(os.path.join(root, "MANIFEST.json")))
bad = 0
for c in man["checks"]:
    cmd = c["quick_cmd"] if tier == "quick" else c.get("thorough_cmd", c["quick_cmd"])
    ev = c["evidence_file"]
    if os.path.exists(ev):
        os.remove(ev)
    t = time.time()
    r = subprocess.run(cmd, shell=True, cwd=root, capture_output=True, text=True)
    dt = time.time() - t
    viol = [l for l in r.stdout.splitlines() if l.startswith("VIOLATION")]
    known = [l for l in r.stdout.splitlines() if l.startswith("KNOWN-FINDING")]
    status = "ok" if r.returncode == 0 and not viol else f"EXIT {r.returncode}"
    evok = os.path.exists(ev)
    print(f"{c['property_id']}: {status} viol={len(viol)} known={len(known)} evidence={'yes' if evok else 'MISSING'} {dt:.1f}s")
    if r.returncode != 0 or viol or not evok:
        bad += 1
        print("\n".join(r.stdout.splitlines()[-15:]))
        print(r.stderr[-2000:])
v = subprocess.run(["python3-vt", "-c", """
import json, jsonschema, glob, sys
s = json.load(open('/root/.vp/EVIDENCE.schema.json'))
n = 0
for f in sorted(glob.glob('/verif/evidence/C*.json')):
    try:
        jsonschema.validate(json.load(open(f)), s); n += 1
    except Exception as e:
        print('INVALID', f, str(e)[:300]); sys.exit(1)
jsonschema.validate(json.load(open('/verif/MANIFEST.json')), json.load(open('/root/.vp/MANIFEST.schema.json')))
print('evidence files valid:', n, '; manifest valid')
"""], capture_output=True, text=True)
print(v.stdout, v.stderr[-500:])
sys.exit(1 if bad or v.returncode else 0)
