#!/venv/bin/python
"""Extend the reference taxonomy snapshot (sa/data/classes_ref.json) with the families of sa/families.py computed on the
CURRENT /repo tree.  Run by hand when the reference tree is (re)defined - never by a check."""
import json, os, sys
root = os.path.dirname(os.path.dirname(os.path.abspath(__file__)))
sys.path.insert(0, root)
from sa.model import Model
from sa.families import FAMILY_FUNCS
p = os.path.join(root, "sa", "data", "classes_ref.json")
ref = json.load(open(p))
m = Model(os.environ.get("VERIF_REPO", "/repo"))
for name, fn in FAMILY_FUNCS.items():
    ref[name] = sorted(fn(m))
    print(name, len(ref[name]))
json.dump(ref, open(p, "w"), indent=0, sort_keys=True)
