#!/venv/bin/python
"""Regenerate /verif/MANIFEST.json from the rule registry and tools/manifest_meta.py."""
import json, os, sys
sys.path.insert(0, os.path.dirname(os.path.dirname(os.path.abspath(__file__))))
from sa.rules import REGISTRY, LEVEL_TEXT
from tools.manifest_meta import NOT_APPLICABLE, LEVEL_NOTE, TECHNIQUE, DESIGN_REF

props = [json.loads(l)["id"] for l in open(os.path.join(os.path.dirname(__file__), "..", "properties.jsonl"))]
checks = []
for p in props:
    if p not in REGISTRY or p in {n["property_id"] for n in NOT_APPLICABLE}:
        continue
    rules = [r for r, _, _ in REGISTRY[p]]
    checks.append({
        "property_id": p,
        "quick_cmd": f"/venv/bin/python -m sa.check {p} --tier quick",
        "thorough_cmd": f"/venv/bin/python -m sa.check {p} --tier thorough",
        "evidence_file": f"/verif/evidence/{p}.json",
        "replay_cmd_template": f"/venv/bin/python -m sa.check {p} --replay {{path}}",
        "engine": "sa",
        "level_claimed": {
            "category": "other",
            "text": LEVEL_TEXT.get(p, "") + " Rules: " + ", ".join(rules) + ".",
            "design_ref": DESIGN_REF.get(p, f"DESIGN.md section 3, {p}"),
        },
        "level_note": LEVEL_NOTE.get(p, LEVEL_NOTE["*"]),
        "technique": TECHNIQUE.get(p, TECHNIQUE["*"]),
    })
na = [n for n in NOT_APPLICABLE]
claimed = {c["property_id"] for c in checks}
for p in props:
    if p not in claimed and p not in {n["property_id"] for n in na}:
        na.append({"property_id": p, "reason": "no check built yet for this property (static-analysis rules pending; see DESIGN.md)"})
manifest = {
    "version": 1,
    "setup_cmd": "/venv/bin/python -c \"import ast, sys; sys.path.insert(0, '/verif'); import sa.check, sa.rules; print('sa ready', len(sa.rules.REGISTRY), 'properties')\"",
    "hooks": {
        "guard": "DASK_EXPR_VERIF",
        "enable": "no hooks: the checks never execute dask_expr, they parse /repo's working tree; the guard name exists for form only",
        "baseline_off_cmd": "cd /repo && /venv/bin/python -m pytest -ra -q -p no:cacheprovider --timeout=900 --continue-on-collection-errors dask_expr",
        "source_commits": [],
        "add_only": True,
    },
    "engines": [{
        "name": "sa",
        "path": "/verif/sa",
        "serves_properties": sorted(claimed),
        "kind_free_text": "repository-specific static analyser (stdlib ast): class model with C3 MRO and protocol tables, structured-control-flow guard/dominance walker, reaching definitions, per-property rule modules with construct-keyed exception tables and instance-count floors",
    }],
    "checks": checks,
    "not_applicable": na,
    "notes": "Technique family: static analysis only. Every verdict is computed from the syntax trees of /repo's current working tree; dask_expr is never imported or run by a check. exit 0 = no un-listed violation, exit 1 + VIOLATION line = a structural necessary condition of the property is broken at the named construct, exit 2 + ANALYSIS-ERROR = the analysis itself is broken (vanished anchor, instance count under the confirmed floor). known_findings.json lists recorded defects and the 'fix:' commits made in /repo.",
}
out = os.path.join(os.path.dirname(__file__), "..", "MANIFEST.json")
json.dump(manifest, open(out, "w"), indent=1)
print("wrote", os.path.abspath(out), "checks:", sorted(claimed), "n/a:", [n["property_id"] for n in na])
