#!/venv/bin/python
"""Evaluate the checks against seeded defects.
usage: eval_seeds.py [seed_root=/verif/seeded] [--props C01,C02|all] [--only C11/1]
For each <root>/<id>/ (or <root>/<Cxx>/<k>/) holding patch.diff: copy /repo's tracked tree to a scratch dir
outside /repo and /verif, apply the patch there, run the quick checks with VERIF_REPO pointing at the copy and
report which properties raise a VIOLATION.  Nothing is ever applied to /repo."""
import json, os, shutil, subprocess, sys, tempfile, glob

root = "/verif/seeded"
args = [a for a in sys.argv[1:]]
props = None
only = None
i = 0
pos = []
while i < len(args):
    if args[i] == "--props":
        props = None if args[i + 1] == "all" else args[i + 1].split(","); i += 2
    elif args[i] == "--only":
        only = args[i + 1]; i += 2
    elif args[i] == "--write-expected":
        i += 1
    else:
        pos.append(args[i]); i += 1
if pos:
    root = pos[0]
verif = os.path.dirname(os.path.dirname(os.path.abspath(__file__)))
man = json.load(open(os.path.join(verif, "MANIFEST.json")))
claimed = [c["property_id"] for c in man["checks"]]
seeds = sorted(os.path.dirname(p) for p in glob.glob(os.path.join(root, "**", "patch.diff"), recursive=True))
def one(sd):
    lines = []
    rel = os.path.relpath(sd, root)
    meta = {}
    if os.path.exists(os.path.join(sd, "meta.json")):
        meta = json.load(open(os.path.join(sd, "meta.json")))
    target = meta.get("property") or rel.split(os.sep)[0].split("-")[0]
    scratch = tempfile.mkdtemp(prefix="seedeval_")
    try:
        subprocess.run(["rsync", "-a", "--exclude", "__pycache__", "--exclude", "tests", "/repo/dask_expr", scratch + "/"], check=True)
        ap = subprocess.run(["git", "apply", "--unsafe-paths", f"--directory={scratch}", os.path.join(sd, "patch.diff")], capture_output=True, text=True, cwd=scratch)
        if ap.returncode != 0:
            ap = subprocess.run(["patch", "-p1", "-d", scratch, "-i", os.path.join(sd, "patch.diff"), "--fuzz=3", "-s"], capture_output=True, text=True)
        if ap.returncode != 0:
            return (rel, target, "noapply", [], []), [f"{rel}: PATCH DOES NOT APPLY: {ap.stderr.strip()[:200]} {ap.stdout.strip()[:200]}"]
        if os.environ.get("EVAL_TRANSFORM"):
            sys.path.insert(0, verif)
            from sa.transforms import TRANSFORMS

            TRANSFORMS[os.environ["EVAL_TRANSFORM"]](scratch)
        env = dict(os.environ, VERIF_REPO=scratch, VERIF_EVIDENCE_DIR=os.path.join(scratch, "_evidence"))
        hit = {}
        broken = {}
        for p in (props or claimed):
            r = subprocess.run(["/venv/bin/python", "-m", "sa.check", p, "--tier", "quick"], cwd=verif, env=env, capture_output=True, text=True)
            v = [l for l in r.stdout.splitlines() if l.startswith("VIOLATION")]
            detail = [l.strip() for l in r.stdout.splitlines() if l.startswith("  ") and "[" in l]
            if r.returncode == 1 and v:
                hit[p] = detail
            elif r.returncode == 2:
                # "analysis broken" is not a detection: reported, never counted
                broken[p] = " ".join(l for l in r.stdout.splitlines() if "ANALYSIS-ERROR" in l)[:300]
        import re as _re
        rules_hit = sorted({m for d in hit.values() for l in d for m in _re.findall(r"\[(R\d+\w?)\]", l)})
        status = "DETECTED" if target in hit else ("detected-by-other" if hit else "MISSED")
        lines.append(f"{rel}: target={target} {status} {sorted(hit)}" + (f" ANALYSIS-ERROR in {sorted(broken)}" if broken else ""))
        for p, d in broken.items():
            lines.append(f"      {p}: {d[:230]}")
        shown = set()
        for p, d in hit.items():
            for l in d[:3]:
                if l not in shown:
                    shown.add(l)
                    lines.append(f"      {p}: {l[:230]}")
        return (rel, target, status, sorted(hit), rules_hit), lines
    finally:
        shutil.rmtree(scratch, ignore_errors=True)


from concurrent.futures import ThreadPoolExecutor

results = []
todo = [sd for sd in seeds if not only or only in os.path.relpath(sd, root)]
with ThreadPoolExecutor(max_workers=int(os.environ.get("EVAL_JOBS", "12"))) as ex:
    for res, lines in ex.map(one, todo):
        results.append(res)
        print("\n".join(lines), flush=True)
if "--write-expected" in sys.argv:
    exp = {r[0].replace(os.sep, "-"): r[3] for r in results if r[2] != "noapply"}
    json.dump(exp, open(os.path.join(root, "EXPECTED.json"), "w"), indent=1, sort_keys=True)
    json.dump({r[0].replace(os.sep, "-"): r[4] for r in results if r[2] != "noapply"}, open(os.path.join(root, "EXPECTED_RULES.json"), "w"), indent=1, sort_keys=True)
    print("wrote", os.path.join(root, "EXPECTED.json"))
n = len(results)
det = sum(1 for r in results if r[2] == "DETECTED")
oth = sum(1 for r in results if r[2] == "detected-by-other")
print(f"seeds={n} detected_by_target={det} detected_by_other_only={oth} missed={sum(1 for r in results if r[2]=='MISSED')}")
