#!/venv/bin/python
"""Fill the seed matrix of DESIGN.md (between the SEED-MATRIX markers) from seeded/EXPECTED.json and the seeds' meta.json."""
import json, os, re, glob
root = os.path.dirname(os.path.dirname(os.path.abspath(__file__)))
exp = json.load(open(os.path.join(root, "seeded", "EXPECTED.json")))
exp_rules = json.load(open(os.path.join(root, "seeded", "EXPECTED_RULES.json"))) if os.path.exists(os.path.join(root, "seeded", "EXPECTED_RULES.json")) else {}


def hunk_sites(patch):
    out = []
    for m in re.finditer(r"^@@ .*? @@ (.*)$", open(patch).read(), flags=re.M):
        t = m.group(1).strip()
        t = re.sub(r"^(class|def)\s+", "", t).split("(")[0].rstrip(":")
        if t and t not in out:
            out.append(t)
    return ", ".join(out[:3])
rows = []
det_t = det_o = 0
for sd in sorted(glob.glob(os.path.join(root, "seeded", "*", "meta.json"))):
    meta = json.load(open(sd))
    sid = meta["id"]
    target = meta["property"]
    hits = exp.get(sid, [])
    files = ", ".join(os.path.basename(f) for f in meta.get("files_changed", []))
    summary = meta.get("summary") or hunk_sites(os.path.join(os.path.dirname(sd), "patch.diff"))
    rules = ", ".join(exp_rules.get(sid, []))
    if target in hits:
        det_t += 1; verdict = f"**{target}**" + ("".join(f", {h}" for h in hits if h != target))
    elif hits:
        det_o += 1; verdict = "(" + ", ".join(hits) + ")"
    else:
        verdict = "missed"
    rows.append(f"| {sid} | {files} | {summary} | {verdict} | {rules} |")
n = len(rows)
txt = (f"{n} seeds; **{det_t} detected by the check of the property they target**, {det_o} more only by another property's check, "
       f"{n - det_t - det_o} missed.\n\n| seed | file | change | detected by | rule(s) |\n|---|---|---|---|---|\n" + "\n".join(rows) + "\n")
p = os.path.join(root, "DESIGN.md")
s = open(p).read()
s = re.sub(r"<!-- SEED-MATRIX-BEGIN -->.*<!-- SEED-MATRIX-END -->", "<!-- SEED-MATRIX-BEGIN -->\n" + txt + "<!-- SEED-MATRIX-END -->", s, flags=re.S)
open(p, "w").write(s)
print(f"seeds={n} by_target={det_t} by_other={det_o}")
