#!/venv/bin/python
"""Fill the seed matrix of DESIGN.md (between the SEED-MATRIX markers) from seeded/EXPECTED.json and the seeds' meta.json."""
import json, os, re, glob
root = os.path.dirname(os.path.dirname(os.path.abspath(__file__)))
exp = json.load(open(os.path.join(root, "seeded", "EXPECTED.json")))
exp_rules = json.load(open(os.path.join(root, "seeded", "EXPECTED_RULES.json"))) if os.path.exists(os.path.join(root, "seeded", "EXPECTED_RULES.json")) else {}


def hunk_sites(patch):
    out = []
    for m in re.finditer(r"^@@ .*? @@ (.*)$", open(patch).read(), flags=re.M):
        t = m.group(1).strip()
        t = re.sub(r"^(class|def)\s+", "", t).split("(")[0].rstrip(":")
        if t and t not in out:
            out.append(t)
    return ", ".join(out[:3])
rows = []
det_t = det_o = 0
for sd in sorted(glob.glob(os.path.join(root, "seeded", "*", "meta.json"))):
    meta = json.load(open(sd))
    sid = meta["id"]
    target = meta["property"]
    hits = exp.get(sid, [])
    files = ", ".join(os.path.basename(f) for f in meta.get("files_changed", []))
    summary = meta.get("summary") or hunk_sites(os.path.join(os.path.dirname(sd), "patch.diff"))
    rules = ", ".join(exp_rules.get(sid, []))
    if target in hits:
        det_t += 1; verdict = f"**{target}**" + ("".join(f", {h}" for h in hits if h != target))
    elif hits:
        det_o += 1; verdict = "(" + ", ".join(hits) + ")"
    else:
        verdict = "missed"
    rows.append(f"| {sid} | {files} | {summary} | {verdict} | {rules} |")
n = len(rows)
txt = (f"{n} seeds; **{det_t} detected by the check of the property they target**, {det_o} more only by another property's check, "
       f"{n - det_t - det_o} missed.\n\n| seed | file | change | detected by | rule(s) |\n|---|---|---|---|---|\n" + "\n".join(rows) + "\n")
p = os.path.join(root, "DESIGN.md")
s = open(p).read()
s = re.sub(r"<!-- SEED-MATRIX-BEGIN -->.*<!-- SEED-MATRIX-END -->", lambda m: "<!-- SEED-MATRIX-BEGIN -->\n" + txt + "<!-- SEED-MATRIX-END -->", s, flags=re.S)
# rule inventory: rule -> properties, instances found on today's tree (from the committed evidence), one-line doc
import sys
sys.path.insert(0, root)
from sa.rules import REGISTRY
by = {}
for prop, lst in REGISTRY.items():
    for rid, fn, doc in lst:
        by.setdefault(rid, [[], doc])[0].append(prop)
counts = {}
for prop in REGISTRY:
    ev = os.path.join(root, "evidence", f"{prop}.json")
    if os.path.exists(ev):
        for rid, c in (json.load(open(ev))["coverage"].get("by_rule") or {}).items():
            counts[rid] = c
rrows = []
for rid in sorted(by):
    props, doc = by[rid]
    c = counts.get(rid, {})
    head = doc.split(":")[0] if ":" in doc[:60] else ""
    first = re.split(r"(?<=[a-z\)])[.;] ", doc)[0][:170]
    rrows.append(f"| {rid} | {', '.join(sorted(props))} | {c.get('ok', 0)} / {c.get('exempt', 0)} / {c.get('violation', 0)} | {first} |")
rtxt = (f"{len(by)} rules. Columns: properties whose check runs the rule; instances on today's tree as ok / reasoned exception / "
        "matched known finding; first sentence of the rule's own doc string (the full text is printed in the evidence).\n\n"
        "| rule | properties | ok / exc / KF | statement |\n|---|---|---|---|\n" + "\n".join(rrows) + "\n")
s = re.sub(r"<!-- RULE-TABLE-BEGIN -->.*<!-- RULE-TABLE-END -->", lambda m: "<!-- RULE-TABLE-BEGIN -->\n" + rtxt + "<!-- RULE-TABLE-END -->", s, flags=re.S)
open(p, "w").write(s)
print(f"seeds={n} by_target={det_t} by_other={det_o} rules={len(by)}")
