#!/venv/bin/python
"""Run the repository's test suite on a tree and compare with /root/.vp/BASELINE.json (stable_pass).
usage: run_suite.py [tree=/repo] [-n jobs]   exit 0 iff every stable_pass test passed."""
import json, os, subprocess, sys, tempfile
import xml.etree.ElementTree as ET

tree = sys.argv[1] if len(sys.argv) > 1 and not sys.argv[1].startswith("-") else "/repo"
jobs = "8"
if "-n" in sys.argv:
    jobs = sys.argv[sys.argv.index("-n") + 1]
base = json.load(open("/root/.vp/BASELINE.json"))
want = set(base["stable_pass"])
with tempfile.TemporaryDirectory() as d:
    xml = os.path.join(d, "j.xml")
    cmd = ["/venv/bin/python", "-m", "pytest", "-q", "-p", "no:cacheprovider", "--timeout=900",
           "--continue-on-collection-errors", "-n", jobs, "-o", "junit_family=xunit1", f"--junitxml={xml}", "dask_expr"]
    r = subprocess.run(cmd, cwd=tree, capture_output=True, text=True)
    print(r.stdout.strip().splitlines()[-1] if r.stdout.strip() else r.stderr[-500:])
    passed = set()
    for tc in ET.parse(xml).getroot().iter("testcase"):
        if not any(ch.tag in ("failure", "error", "skipped") for ch in tc):
            passed.add(f"{tc.get('classname')}::{tc.get('name')}")
missing = sorted(want - passed)
print(f"stable_pass={len(want)} passed_now={len(passed)} missing={len(missing)} new_pass={len(passed - want)}")
for m in missing[:40]:
    print("  NOT PASSING:", m)
sys.exit(1 if missing else 0)
