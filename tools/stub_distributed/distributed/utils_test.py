import pytest
def gen_cluster(*a, **k):
    def deco(f):
        return pytest.mark.skip(reason="no distributed")(f)
    return deco
