"""Hand-written parts of MANIFEST.json."""
NOT_APPLICABLE = []
LEVEL_NOTE = {
    "*": "Trusted: CPython's ast parser; the class model in sa/model.py (base resolution through import tables, static C3 MRO, constant folding of _parameters/_defaults/flags); the exception tables in sa/rules/*.py, each entry confirmed by reading and probing the reference tree. Assumes classes are not patched dynamically and that pandas/dask core callables behave as documented. Decides structural necessary conditions only; value-level equality is out of reach of this technique.",
}
TECHNIQUE = {
    "*": "static analysis: custom AST checkers over a resolved class model (MRO/provider resolution, guard dominance, reaching definitions, sibling cross-checking)",
}
DESIGN_REF = {}
