"""Hand-written parts of MANIFEST.json."""
NOT_APPLICABLE = [
    {"property_id": "C17", "reason": "end-to-end equivalence of a query and the same query cut by persist/delayed/legacy round trips: truth depends on executing two graphs; the only structural facts (FromGraph key wiring, names) are already decided under C08/C09 and are not necessary conditions with teeth of their own (DESIGN.md section 3, C17)"},
]
LEVEL_NOTE = {
    "*": "Trusted: CPython's ast parser; the class model in sa/model.py (base resolution through import tables, static C3 MRO, constant folding of _parameters/_defaults/flags); the exception tables in sa/rules/*.py, each entry confirmed by reading and probing the reference tree. Assumes classes are not patched dynamically and that pandas/dask core callables behave as documented. Decides structural necessary conditions only; value-level equality is out of reach of this technique.",
}
TECHNIQUE = {
    "*": "static analysis: custom AST checkers over a resolved class model (MRO/provider resolution, guard dominance, reaching definitions, sibling cross-checking)",
}
DESIGN_REF = {}
