#!/venv/bin/python
"""Snapshot, for every use of a class name that is defined in more than one module of the package (Index, Head, Sum, ...), which
module the name is bound to at that use (scope aware: function-local imports win).  Written to sa/data/homonyms_ref.json; run by hand
on a tree whose bindings were confirmed.  Rule R21d compares today's bindings with it."""
import json, os, sys
root = os.path.dirname(os.path.dirname(os.path.abspath(__file__)))
sys.path.insert(0, root)
from sa.model import Model
from sa.rules.r21 import homonym_bindings

m = Model()
json.dump(homonym_bindings(m), open(os.path.join(root, "sa", "data", "homonyms_ref.json"), "w"), indent=1, sort_keys=True)
print("written")
