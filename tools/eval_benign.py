#!/venv/bin/python
"""Run every claimed quick check against behaviour-preserving patches; any VIOLATION / ANALYSIS-ERROR is a false alarm.
usage: eval_benign.py [root=/verif/benign] [--only B7-1,B7-3]"""
import glob, json, os, shutil, subprocess, sys, tempfile
from concurrent.futures import ThreadPoolExecutor
only = None
if "--only" in sys.argv:
    i = sys.argv.index("--only")
    only = sys.argv[i + 1].split(",")
    del sys.argv[i : i + 2]
root = sys.argv[1] if len(sys.argv) > 1 else "/verif/benign"
verif = os.path.dirname(os.path.dirname(os.path.abspath(__file__)))
claimed = [c["property_id"] for c in json.load(open(os.path.join(verif, "MANIFEST.json")))["checks"]]
seeds = sorted(os.path.dirname(p) for p in glob.glob(os.path.join(root, "**", "patch.diff"), recursive=True))
if only:
    seeds = [s for s in seeds if os.path.basename(s) in only]
def one(sd):
    rel = os.path.relpath(sd, root)
    scratch = tempfile.mkdtemp(prefix="benigneval_")
    try:
        subprocess.run(["rsync", "-a", "--exclude", "__pycache__", "--exclude", "tests", "/repo/dask_expr", scratch + "/"], check=True)
        ap = subprocess.run(["git", "apply", "--unsafe-paths", f"--directory={scratch}", os.path.join(sd, "patch.diff")], capture_output=True, text=True, cwd=scratch)
        if ap.returncode != 0:
            ap = subprocess.run(["patch", "-p1", "-d", scratch, "-i", os.path.join(sd, "patch.diff"), "--fuzz=3", "-s"], capture_output=True, text=True)
        if ap.returncode != 0:
            return rel, "noapply", []
        env = dict(os.environ, VERIF_REPO=scratch, VERIF_EVIDENCE_DIR=os.path.join(scratch, "_evidence"))
        alarms = []
        for p in claimed:
            r = subprocess.run(["/venv/bin/python", "-m", "sa.check", p, "--tier", "quick"], cwd=verif, env=env, capture_output=True, text=True)
            if r.returncode != 0:
                alarms += [f"{p} rc={r.returncode}: " + l.strip()[:260] for l in r.stdout.splitlines() if (l.startswith("  ") and "[" in l) or "ANALYSIS-ERROR" in l][:3]
        return rel, ("FALSE-ALARM" if alarms else "silent"), alarms
    finally:
        shutil.rmtree(scratch, ignore_errors=True)
with ThreadPoolExecutor(max_workers=int(os.environ.get("EVAL_JOBS", "8"))) as ex:
    res = list(ex.map(one, seeds))
for rel, st, al in res:
    print(rel, st)
    for a in al: print("     ", a)
print("benign=", len(res), "false_alarms=", sum(1 for r in res if r[1] == "FALSE-ALARM"), "noapply=", sum(1 for r in res if r[1] == "noapply"))
