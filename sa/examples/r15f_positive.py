"""Positive example for R15f (never imported by the package): a collection that is edited in place must not cache what it
derives from its expression.  `_schema` must be flagged, its plain-property twin `_schema_now` must not."""
import functools


class Collection:
    def __init__(self, expr):
        self._expr = expr

    def __setitem__(self, key, value):
        self._expr = self._expr.assign(key, value)  # in-place edit

    @functools.cached_property
    def _schema(self):
        return self._expr.meta

    @property
    def _schema_now(self):
        return self._expr.meta
