# Positive example for rule R11e (never imported, only parsed): a partition-filtered class that indexes a
# per-partition operand sequence by the POSITION of the selected partitions.  The rule must flag `dependencies`.
class ExampleSource(PartitionsFiltered, BlockwiseIO):  # noqa: F821
    _parameters = ["items", "_partitions"]
    _defaults = {"_partitions": None}

    def dependencies(self):
        return [self.items[i] for i in range(self.npartitions)]

    def fine(self):
        return [self.items[self._partitions[i]] for i in range(self.npartitions)]
