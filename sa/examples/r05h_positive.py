"""Positive examples for R05h (never imported by the package)."""
import numpy as np


def timeseries_bad(seed=None):
    # a falsy but valid seed (0) is replaced by a random one
    seed = seed or np.random.randint(2e9)
    return seed


def timeseries_good(seed=None):
    if seed is None:
        seed = np.random.randint(2e9)
    return seed
