# Positive example for rule R11d (never imported, only parsed): per-partition values picked with a membership test against the
# selected partitions.  The rule must flag `culled` and leave `by_position` alone.
def culled(divisions, source):
    return tuple([div for i, div in enumerate(divisions) if i in source._partitions] + [divisions[-1]])


def by_position(divisions, source):
    return tuple([divisions[part] for part in source._partitions] + [divisions[source._partitions[-1] + 1]])


def all_selected(frame, partitions):
    if len(partitions) == frame.npartitions:  # [1, 0] and [0, 0] also have that many entries
        return frame
