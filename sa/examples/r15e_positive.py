# Positive example for rule R15e (only parsed): a function-level cache on an expression method.
import functools


class Example(Expr):  # noqa: F821
    @property
    @functools.lru_cache(maxsize=10)
    def _plan(self):
        return 1

    @functools.cached_property
    def fine(self):
        return 2
