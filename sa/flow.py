"""F6: guards / dominance on structured code, and a small reaching-definitions
facility.  The repo's methods use only if / for / while / try / with / return /
raise / continue / break, so a syntax-directed walk is exact for "dominated by
guard" and "must pass through" questions.
"""
from __future__ import annotations

import ast
from dataclasses import dataclass, field

TERMINATORS = (ast.Return, ast.Raise, ast.Continue, ast.Break)


@dataclass
class Point:
    stmt: ast.stmt
    guards: tuple  # ((expr, polarity), ...) conditions known to hold when stmt runs
    preceding: tuple  # statements completed before stmt on every path reaching it (outermost first)
    loops: tuple  # enclosing For/While nodes
    handlers: tuple = ()  # enclosing ExceptHandler nodes
    in_try: tuple = ()  # enclosing Try nodes (body part)

    def guard_text(self):
        return " and ".join(("" if pol else "not ") + "(" + ast.unparse(g) + ")" for g, pol in self.guards)


def terminates(body) -> bool:
    """True if control cannot fall off the end of this statement list."""
    if not body:
        return False
    last = body[-1]
    if isinstance(last, TERMINATORS):
        return True
    if isinstance(last, ast.If):
        return bool(last.orelse) and terminates(last.body) and terminates(last.orelse)
    if isinstance(last, ast.With):
        return terminates(last.body)
    if isinstance(last, ast.Try):
        if last.finalbody and terminates(last.finalbody):
            return True
        return terminates(last.body + last.orelse) and all(terminates(h.body) for h in last.handlers)
    if isinstance(last, ast.Match):
        return False
    if isinstance(last, ast.Expr) and isinstance(last.value, ast.Call):
        # assert_never-like helpers are not used in this code base
        return False
    return False


def _fallthrough(stmt):
    """conditions that hold when control falls out of an if / elif chain"""
    bt = terminates(stmt.body)
    et = terminates(stmt.orelse) if stmt.orelse else False
    if bt and not et:
        out = [(stmt.test, False)]
        if len(stmt.orelse) == 1 and isinstance(stmt.orelse[0], ast.If):
            out += _fallthrough(stmt.orelse[0])
        return out
    if et and not bt:
        return [(stmt.test, True)]
    return []


def walk(func):
    """Yield a Point for every statement in func (not descending into nested defs/classes)."""
    yield from _block(func.body, (), (), (), (), ())


def _block(body, guards, preceding, loops, handlers, in_try):
    guards = tuple(guards)
    preceding = tuple(preceding)
    for stmt in body:
        yield Point(stmt, guards, preceding, loops, handlers, in_try)
        if isinstance(stmt, ast.If):
            yield from _block(stmt.body, guards + ((stmt.test, True),), preceding, loops, handlers, in_try)
            yield from _block(stmt.orelse, guards + ((stmt.test, False),), preceding, loops, handlers, in_try)
            guards = guards + tuple(_fallthrough(stmt))
        elif isinstance(stmt, (ast.For, ast.AsyncFor, ast.While)):
            g = guards + (((stmt.test, True),) if isinstance(stmt, ast.While) else ())
            yield from _block(stmt.body, g, preceding, loops + (stmt,), handlers, in_try)
            yield from _block(stmt.orelse, guards, preceding + (stmt,), loops, handlers, in_try)
        elif isinstance(stmt, (ast.With, ast.AsyncWith)):
            yield from _block(stmt.body, guards, preceding, loops, handlers, in_try)
        elif isinstance(stmt, ast.Try):
            yield from _block(stmt.body, guards, preceding, loops, handlers, in_try + (stmt,))
            for h in stmt.handlers:
                yield from _block(h.body, guards, preceding, loops, handlers + (h,), in_try)
            yield from _block(stmt.orelse, guards, preceding + tuple(stmt.body), loops, handlers, in_try)
            yield from _block(stmt.finalbody, guards, preceding, loops, handlers, in_try)
        elif isinstance(stmt, ast.Match):
            for case in stmt.cases:
                yield from _block(case.body, guards, preceding, loops, handlers, in_try)
        if isinstance(stmt, ast.Assert):
            guards = guards + ((stmt.test, True),)
        preceding = preceding + (stmt,)


def returns(func):
    """Points whose stmt is a Return (of this function, not nested defs)."""
    return [p for p in walk(func) if isinstance(p.stmt, ast.Return)]


def point_of(func, node):
    """The Point of the statement that contains ``node``."""
    target = node
    while not isinstance(target, ast.stmt):
        target = target._parent
    # climb to a statement that walk() yields (not inside nested def)
    for p in walk(func):
        if p.stmt is target:
            return p
    # node may be in a nested statement form walk() doesn't descend (lambda/comprehension are exprs, fine)
    return None


def contains(outer, inner) -> bool:
    return any(n is inner for n in ast.walk(outer))


# ----------------------------------------------------------------------------
# reaching definitions (approximate, structured)
# ----------------------------------------------------------------------------


def _assigned_names(target):
    if isinstance(target, ast.Name):
        yield target.id
    elif isinstance(target, (ast.Tuple, ast.List)):
        for e in target.elts:
            yield from _assigned_names(e)
    elif isinstance(target, ast.Starred):
        yield from _assigned_names(target.value)


@dataclass
class Def:
    name: str
    stmt: ast.stmt
    value: ast.AST | None  # RHS expression when the target is exactly the name
    kind: str  # assign | aug | for | with | unpack | walrus | except | param
    index: int | None = None  # position for tuple unpacking


def defs_in_stmt(stmt, deep=True):
    """Definitions made by stmt (deep: including nested statements)."""
    nodes = ast.walk(stmt) if deep else [stmt]
    for n in nodes:
        if isinstance(n, (ast.FunctionDef, ast.AsyncFunctionDef, ast.ClassDef, ast.Lambda)) and n is not stmt:
            continue
        if isinstance(n, ast.Assign):
            for t in n.targets:
                if isinstance(t, ast.Name):
                    yield Def(t.id, n, n.value, "assign")
                elif isinstance(t, (ast.Tuple, ast.List)):
                    for i, e in enumerate(t.elts):
                        for nm in _assigned_names(e):
                            v = None
                            if isinstance(n.value, (ast.Tuple, ast.List)) and len(n.value.elts) == len(t.elts) and isinstance(e, ast.Name):
                                v = n.value.elts[i]
                                yield Def(nm, n, v, "assign")
                            else:
                                yield Def(nm, n, n.value, "unpack", i)
        elif isinstance(n, ast.AnnAssign) and isinstance(n.target, ast.Name) and n.value is not None:
            yield Def(n.target.id, n, n.value, "assign")
        elif isinstance(n, ast.AugAssign) and isinstance(n.target, ast.Name):
            yield Def(n.target.id, n, n.value, "aug")
        elif isinstance(n, (ast.For, ast.AsyncFor)):
            for nm in _assigned_names(n.target):
                yield Def(nm, n, n.iter, "for")
        elif isinstance(n, (ast.With, ast.AsyncWith)):
            for item in n.items:
                if item.optional_vars is not None:
                    for nm in _assigned_names(item.optional_vars):
                        yield Def(nm, n, item.context_expr, "with")
        elif isinstance(n, ast.NamedExpr) and isinstance(n.target, ast.Name):
            yield Def(n.target.id, n, n.value, "walrus")
        elif isinstance(n, ast.ExceptHandler) and n.name:
            yield Def(n.name, n, None, "except")


def _definitely_assigns(stmt, name) -> bool:
    """Does executing stmt (to completion) always bind ``name``?"""
    if isinstance(stmt, ast.Assign):
        return any(name in set(_assigned_names(t)) for t in stmt.targets)
    if isinstance(stmt, ast.AnnAssign):
        return isinstance(stmt.target, ast.Name) and stmt.target.id == name and stmt.value is not None
    if isinstance(stmt, ast.If):
        if not stmt.orelse:
            return False
        return _block_assigns(stmt.body, name) and _block_assigns(stmt.orelse, name)
    if isinstance(stmt, (ast.With, ast.AsyncWith)):
        return _block_assigns(stmt.body, name)
    if isinstance(stmt, ast.Try):
        return _block_assigns(stmt.finalbody, name) or (_block_assigns(stmt.body, name) and all(_block_assigns(h.body, name) for h in stmt.handlers))
    return False


def _block_assigns(body, name) -> bool:
    return terminates(body) or any(_definitely_assigns(s, name) for s in body)


class Defs:
    """Reaching definitions for local names of one function."""

    def __init__(self, func):
        self.func = func
        self.points = {id(p.stmt): p for p in walk(func)}
        self.params = {a.arg for a in func.args.posonlyargs + func.args.args + func.args.kwonlyargs}
        if func.args.vararg:
            self.params.add(func.args.vararg.arg)
        if func.args.kwarg:
            self.params.add(func.args.kwarg.arg)
        self.all = list(defs_in_stmt(func))
        self.all = [d for d in self.all if d.stmt is not func]

    def point(self, node):
        target = node
        while target is not None and id(target) not in self.points:
            target = getattr(target, "_parent", None)
        return self.points.get(id(target)) if target is not None else None

    def reaching(self, name, at):
        """Definitions of ``name`` that may reach the statement containing ``at``.
        A straight-line plain assignment among the dominating statements kills earlier ones."""
        p = self.point(at)
        if p is None:
            return [d for d in self.all if d.name == name]
        out = []
        killed = False
        for stmt in reversed(p.preceding):
            ds = [d for d in defs_in_stmt(stmt) if d.name == name]
            if ds:
                out.extend(ds)
                if any(d.stmt is stmt and d.kind in ("assign", "unpack") for d in ds) or _definitely_assigns(stmt, name):
                    killed = True
                    break
        # enclosing loops: definitions anywhere in the loop body may reach via the back edge
        for loop in p.loops:
            for d in defs_in_stmt(loop):
                if d.name == name and all(d is not o and d.stmt is not o.stmt for o in out):
                    out.append(d)
        # loop targets / with-vars of enclosing constructs
        anc = getattr(p.stmt, "_parent", None)
        while anc is not None and anc is not self.func:
            if isinstance(anc, (ast.For, ast.AsyncFor, ast.With, ast.AsyncWith, ast.ExceptHandler)):
                for d in defs_in_stmt(anc, deep=False):
                    if d.name == name and all(d.stmt is not o.stmt for o in out):
                        out.append(d)
                        if isinstance(anc, (ast.For, ast.AsyncFor)):
                            pass
            anc = getattr(anc, "_parent", None)
        if not killed and name in self.params:
            out.append(Def(name, self.func, None, "param"))
        return out

    def single_value(self, name, at):
        """The unique RHS expression reaching ``at`` for ``name``, or None."""
        ds = self.reaching(name, at)
        if len(ds) == 1 and ds[0].kind in ("assign", "walrus") and ds[0].value is not None:
            return ds[0].value
        return None

    def expand(self, node, at=None, depth=4, _seen=None):
        """Return a copy of ``node`` with single-definition local names replaced by their
        defining expressions (to the given depth).  Comprehension-bound names are left alone."""
        at = at if at is not None else node
        _seen = _seen or set()

        defs = self

        class T(ast.NodeTransformer):
            def __init__(self):
                self.bound = set()

            def _comp(self, n):
                saved = set(self.bound)
                for g in n.generators:
                    for nm in _assigned_names(g.target):
                        self.bound.add(nm)
                out = self.generic_visit(n)
                self.bound = saved
                return out

            visit_ListComp = visit_SetComp = visit_GeneratorExp = visit_DictComp = _comp

            def visit_Lambda(self, n):
                return n

            def visit_Name(self, n):
                if not isinstance(n.ctx, ast.Load) or n.id in self.bound or depth <= 0 or n.id in _seen:
                    return n
                v = defs.single_value(n.id, at)
                if v is None:
                    return n
                return defs.expand(v, at=v, depth=depth - 1, _seen=_seen | {n.id})

        if not _has_local(node):
            return node
        return T().visit(ast.parse(ast.unparse(node), mode="eval").body)


def _has_local(node):
    return any(isinstance(n, ast.Name) for n in ast.walk(node))


# ----------------------------------------------------------------------------
# guard predicates
# ----------------------------------------------------------------------------


def guard_mentions(point: Point, pred) -> list:
    """Guards (expr, polarity) of point for which pred(expr) is true."""
    return [(g, pol) for g, pol in point.guards if pred(g)]


def conj_terms(expr, polarity=True):
    """Split a guard into atomic facts known to hold: (term, polarity).
    (a and b) true -> a true, b true; (a or b) false -> a false, b false; not x flips."""
    if isinstance(expr, ast.BoolOp):
        if isinstance(expr.op, ast.And) and polarity:
            for v in expr.values:
                yield from conj_terms(v, True)
            return
        if isinstance(expr.op, ast.Or) and not polarity:
            for v in expr.values:
                yield from conj_terms(v, False)
            return
    if isinstance(expr, ast.UnaryOp) and isinstance(expr.op, ast.Not):
        yield from conj_terms(expr.operand, not polarity)
        return
    yield expr, polarity


def facts(point: Point):
    """All atomic facts known at point."""
    for g, pol in point.guards:
        yield from conj_terms(g, pol)


def expr_facts(node, stop):
    """Facts established *inside an expression* for sub-expression ``node``: conditions of
    enclosing IfExp / BoolOp short-circuit / comprehension ifs, up to statement ``stop``."""
    out = []
    child = node
    p = getattr(node, "_parent", None)
    while p is not None and p is not stop and not isinstance(p, ast.stmt):
        if isinstance(p, ast.IfExp):
            if child is p.body:
                out.extend(conj_terms(p.test, True))
            elif child is p.orelse:
                out.extend(conj_terms(p.test, False))
        elif isinstance(p, ast.BoolOp):
            idx = next((i for i, v in enumerate(p.values) if v is child), None)
            if idx:
                for v in p.values[:idx]:
                    out.extend(conj_terms(v, isinstance(p.op, ast.And)))
        elif isinstance(p, ast.comprehension):
            pass
        elif isinstance(p, (ast.ListComp, ast.SetComp, ast.GeneratorExp, ast.DictComp)):
            if child is not None and not isinstance(child, ast.comprehension):
                for g in p.generators:
                    for c in g.ifs:
                        out.extend(conj_terms(c, True))
        child = p
        p = getattr(p, "_parent", None)
    return out
