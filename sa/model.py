"""Program model of /repo/dask_expr built from syntax trees only.

F1 class table with resolved bases and static C3 MRO
F2 protocol tables (_parameters, _defaults, flags) by constant folding
F3 attribute providers (who answers ``self.X`` in class C)
F4 method index
plus module import tables, module-level functions and a few AST helpers.
"""
from __future__ import annotations

import ast
import hashlib
import os
from dataclasses import dataclass, field

REPO = os.environ.get("VERIF_REPO", "/repo")
PKG = "dask_expr"

EXCLUDE_DIRS = {"tests"}
EXCLUDE_FILES = {"_version.py", "conftest.py"}


class AnalysisError(Exception):
    """The analysis itself is broken (vanished anchor, unparsable module,
    instance count below the confirmed floor).  Exit code 2, never a verdict."""


# ----------------------------------------------------------------------------
# modules
# ----------------------------------------------------------------------------


@dataclass
class Module:
    name: str  # dotted, e.g. dask_expr._expr
    path: str  # absolute
    rel: str  # relative to repo root
    tree: ast.Module
    source: str
    imports: dict = field(default_factory=dict)  # local name -> ("mod", dotted) | ("attr", dotted, attr)
    classes: dict = field(default_factory=dict)  # name -> ClassInfo
    functions: dict = field(default_factory=dict)  # name -> FunctionDef (module level)
    assigns: dict = field(default_factory=dict)  # name -> value node (module level, last)
    star_imports: list = field(default_factory=list)

    def loc(self, node) -> str:
        return f"{self.rel}:{getattr(node, 'lineno', 0)}"


def _module_name(rel: str) -> str:
    p = rel[:-3] if rel.endswith(".py") else rel
    parts = p.split(os.sep)
    if parts[-1] == "__init__":
        parts = parts[:-1]
    return ".".join(parts)


def _replace_child(parent, old, new):
    if parent is None:
        return
    for f, v in ast.iter_fields(parent):
        if v is old:
            setattr(parent, f, new)
            return
        if isinstance(v, list):
            for i, x in enumerate(v):
                if x is old:
                    v[i] = new
                    return


def _canon_isinstance(tree):
    """`isinstance(x, A) or isinstance(x, B)` is the same test as `isinstance(x, (A, B))`: consecutive isinstance calls on one
    subject inside an `or` are merged into the tuple form (in place, before parent links are set)."""

    class T(ast.NodeTransformer):
        def visit_BoolOp(self, node):
            self.generic_visit(node)
            if not isinstance(node.op, ast.Or):
                return node
            out = []
            for v in node.values:
                if (
                    out
                    and _is_isinstance(v)
                    and _is_isinstance(out[-1])
                    and ast.dump(v.args[0]) == ast.dump(out[-1].args[0])
                ):
                    prev = out[-1]
                    elts = _cls_elts(prev.args[1]) + _cls_elts(v.args[1])
                    merged = ast.Call(func=prev.func, args=[prev.args[0], ast.Tuple(elts=elts, ctx=ast.Load())], keywords=[])
                    ast.copy_location(merged, prev)
                    ast.copy_location(merged.args[1], prev.args[1])
                    out[-1] = merged
                else:
                    out.append(v)
            if len(out) == 1:
                return out[0]
            node.values = out
            return node

    T().visit(tree)
    ast.fix_missing_locations(tree)


def _is_isinstance(v):
    return isinstance(v, ast.Call) and isinstance(v.func, ast.Name) and v.func.id == "isinstance" and len(v.args) == 2 and not v.keywords


def _cls_elts(t):
    return list(t.elts) if isinstance(t, ast.Tuple) else [t]


def _set_parents(tree):
    for node in ast.walk(tree):
        for child in ast.iter_child_nodes(node):
            child._parent = node  # type: ignore[attr-defined]


def _collect_imports(mod: Module):
    pkg_parts = mod.name.split(".")
    is_pkg = mod.path.endswith("__init__.py")
    for node in ast.walk(mod.tree):
        if isinstance(node, ast.Import):
            for a in node.names:
                local = a.asname or a.name.split(".")[0]
                target = a.name if a.asname else a.name.split(".")[0]
                mod.imports.setdefault(local, ("mod", target))
        elif isinstance(node, ast.ImportFrom):
            base = node.module or ""
            if node.level:
                up = pkg_parts if is_pkg else pkg_parts[:-1]
                if node.level > 1:
                    up = up[: len(up) - (node.level - 1)]
                base = ".".join(up + ([base] if base else []))
            for a in node.names:
                if a.name == "*":
                    mod.star_imports.append(base)
                    continue
                local = a.asname or a.name
                mod.imports.setdefault(local, ("attr", base, a.name))


# ----------------------------------------------------------------------------
# classes
# ----------------------------------------------------------------------------


@dataclass
class Member:
    name: str
    kind: str  # func | property | cached_property | staticmethod | classmethod | attr
    node: ast.AST  # FunctionDef or the value expression
    cls: "ClassInfo"

    @property
    def is_callable_attr(self):
        return self.kind in ("func", "staticmethod", "classmethod")


@dataclass(eq=False)
class ClassInfo:
    name: str
    module: Module
    node: ast.ClassDef
    base_exprs: list
    bases: list = field(default_factory=list)  # ClassInfo | str (external)
    mro: list = field(default_factory=list)  # ClassInfo list (internal only), self first
    members: dict = field(default_factory=dict)  # name -> Member (own)
    external_bases: list = field(default_factory=list)
    nested: dict = field(default_factory=dict)
    outer: "ClassInfo | None" = None

    @property
    def qual(self):
        return f"{self.module.name.split('.', 1)[-1] if '.' in self.module.name else self.module.name}.{self.name}"

    @property
    def loc(self):
        return self.module.loc(self.node)

    def __repr__(self):
        return f"<{self.qual}>"

    def __hash__(self):
        return id(self)

    # F3
    def provider(self, attr: str):
        for c in self.mro:
            m = c.members.get(attr)
            if m is not None:
                return m
        return None

    def is_sub(self, other: "ClassInfo") -> bool:
        return other in self.mro

    def is_sub_name(self, *names) -> bool:
        return any(c.name in names for c in self.mro)


def _decorator_kind(fn: ast.FunctionDef) -> str:
    kind = "func"
    for d in fn.decorator_list:
        txt = ast.unparse(d)
        if txt.endswith("cached_property"):
            return "cached_property"
        if txt == "property" or txt.endswith(".setter") or txt.endswith(".getter"):
            kind = "property"
        elif txt == "staticmethod":
            kind = "staticmethod"
        elif txt == "classmethod":
            kind = "classmethod"
    return kind


def _c3(cls: ClassInfo, seen=()):
    if cls in seen:
        raise AnalysisError(f"inheritance cycle at {cls.qual}")
    seqs = []
    for b in cls.bases:
        if isinstance(b, ClassInfo):
            if not b.mro:
                b.mro = _c3(b, seen + (cls,))
            seqs.append(list(b.mro))
    seqs.append([b for b in cls.bases if isinstance(b, ClassInfo)])
    out = [cls]
    seqs = [s for s in seqs if s]
    while seqs:
        for s in seqs:
            cand = s[0]
            if not any(cand in t[1:] for t in seqs):
                break
        else:
            raise AnalysisError(f"no consistent MRO for {cls.qual}")
        out.append(cand)
        seqs = [[x for x in s if x is not cand] for s in seqs]
        seqs = [s for s in seqs if s]
    return out


# ----------------------------------------------------------------------------
# the model
# ----------------------------------------------------------------------------

_UNSET = object()


class Model:
    def __init__(self, repo: str = REPO):
        self.repo = repo
        self.modules: dict[str, Module] = {}
        self.classes: list[ClassInfo] = []
        self._const_cache: dict = {}
        self._load()
        self._link()
        self._canon_operand_access()

    # -- canonical forms ------------------------------------------------------
    def _canon_operand_access(self):
        """`self.operand("p")` and `self.p` denote the same value when no class attribute shadows the parameter p (then
        `self.p` is served by Expr.__getattr__ from the operands).  All rules see the attribute form; the shadowed case -
        where the two differ - keeps the call.  Done in place on the syntax tree, positions kept."""
        for c in self.expr_classes():
            for mem in c.members.values():
                if mem.kind == "attr" or not isinstance(mem.node, (ast.FunctionDef, ast.AsyncFunctionDef)):
                    continue
                users = [k for k in self.subclasses(c) if k.provider(mem.name) is not None and k.provider(mem.name).node is mem.node]
                if not users:
                    continue
                for node in list(ast.walk(mem.node)):
                    if not (isinstance(node, ast.Call) and isinstance(node.func, ast.Attribute) and node.func.attr == "operand" and isinstance(node.func.value, ast.Name) and node.func.value.id == "self" and len(node.args) == 1 and not node.keywords and isinstance(node.args[0], ast.Constant) and isinstance(node.args[0].value, str)):
                        continue
                    pname = node.args[0].value
                    if not pname.isidentifier():
                        continue
                    ok = True
                    for k in users:
                        try:
                            if pname not in self.parameters(k) or self.attr_kind(k, pname)[0] != "operand":
                                ok = False
                        except AnalysisError:
                            ok = False
                        if not ok:
                            break
                    if not ok:
                        continue
                    new = ast.Attribute(value=node.func.value, attr=pname, ctx=ast.Load())
                    ast.copy_location(new, node)
                    new._parent = getattr(node, "_parent", None)  # type: ignore[attr-defined]
                    node.func.value._parent = new  # type: ignore[attr-defined]
                    _replace_child(getattr(node, "_parent", None), node, new)

    # -- loading -----------------------------------------------------------
    def _load(self):
        root = os.path.join(self.repo, PKG)
        if not os.path.isdir(root):
            raise AnalysisError(f"package directory {root} not found")
        for dirpath, dirnames, filenames in os.walk(root):
            dirnames[:] = sorted(d for d in dirnames if d not in EXCLUDE_DIRS and not d.startswith("__"))
            for fn in sorted(filenames):
                if not fn.endswith(".py") or fn in EXCLUDE_FILES:
                    continue
                path = os.path.join(dirpath, fn)
                rel = os.path.relpath(path, self.repo)
                try:
                    with open(path, encoding="utf-8") as f:
                        src = f.read()
                    tree = ast.parse(src, filename=path)
                except (SyntaxError, OSError, UnicodeDecodeError) as e:
                    raise AnalysisError(f"cannot parse {rel}: {e}")
                _canon_isinstance(tree)
                _set_parents(tree)
                mod = Module(_module_name(rel), path, rel, tree, src)
                _collect_imports(mod)
                for node in tree.body:
                    self._top(mod, node)
                self.modules[mod.name] = mod

    def _top(self, mod, node):
        if isinstance(node, ast.ClassDef):
            self._class(mod, node, None)
        elif isinstance(node, (ast.FunctionDef, ast.AsyncFunctionDef)):
            mod.functions[node.name] = node
        elif isinstance(node, ast.Assign):
            for t in node.targets:
                if isinstance(t, ast.Name):
                    mod.assigns[t.id] = node.value
        elif isinstance(node, ast.AnnAssign) and isinstance(node.target, ast.Name) and node.value is not None:
            mod.assigns[node.target.id] = node.value
        elif isinstance(node, (ast.If, ast.Try)):
            for sub in ast.iter_child_nodes(node):
                if isinstance(sub, ast.stmt):
                    self._top(mod, sub)

    def _class(self, mod, node, outer):
        name = node.name if outer is None else f"{outer.name}.{node.name}"
        ci = ClassInfo(name, mod, node, list(node.bases))
        for item in node.body:
            self._member(ci, item)
            if isinstance(item, ast.ClassDef):
                self._class(mod, item, ci)
        if outer is None:
            mod.classes[node.name] = ci
        else:
            ci.outer = outer
            outer.nested[node.name] = ci
        self.classes.append(ci)
        node._classinfo = ci  # type: ignore[attr-defined]

    def _member(self, ci, item):
        if isinstance(item, (ast.FunctionDef, ast.AsyncFunctionDef)):
            kind = _decorator_kind(item)
            prev = ci.members.get(item.name)
            if prev is not None and prev.kind == "property" and kind == "property":
                return  # keep the getter
            ci.members[item.name] = Member(item.name, kind, item, ci)
            item._owner = ci  # type: ignore[attr-defined]
        elif isinstance(item, ast.Assign):
            for t in item.targets:
                if isinstance(t, ast.Name):
                    ci.members[t.id] = Member(t.id, "attr", item.value, ci)
        elif isinstance(item, ast.AnnAssign) and isinstance(item.target, ast.Name) and item.value is not None:
            ci.members[item.target.id] = Member(item.target.id, "attr", item.value, ci)
        elif isinstance(item, ast.If):
            for sub in item.body + item.orelse:
                self._member(ci, sub)

    # -- linking -----------------------------------------------------------
    def resolve_name(self, mod: Module, name: str, _depth=0):
        """Resolve a bare name in ``mod`` to ("class", ClassInfo) |
        ("func", Module, FunctionDef) | ("module", Module) | ("const", Module, node)
        | ("external", dotted) | None."""
        if _depth > 8:
            return None
        if name in mod.classes:
            return ("class", mod.classes[name])
        if name in mod.functions:
            return ("func", mod, mod.functions[name])
        imp = mod.imports.get(name)
        if imp is not None:
            if imp[0] == "mod":
                m = self.modules.get(imp[1])
                return ("module", m) if m else ("external", imp[1])
            _, base, attr = imp
            sub = self.modules.get(f"{base}.{attr}")
            if sub is not None:
                return ("module", sub)
            m = self.modules.get(base)
            if m is None:
                return ("external", f"{base}.{attr}")
            return self.resolve_name(m, attr, _depth + 1) or ("external", f"{base}.{attr}")
        if name in mod.assigns:
            v = mod.assigns[name]
            if isinstance(v, (ast.Name, ast.Attribute)):
                r = self.resolve_expr(mod, v, _depth + 1)
                if r is not None:
                    return r
            return ("const", mod, v)
        for base in mod.star_imports:
            m = self.modules.get(base)
            if m is not None and m is not mod:
                r = self.resolve_name(m, name, _depth + 1)
                if r is not None:
                    return r
        return None

    def resolve_expr(self, mod: Module, node, _depth=0):
        """Resolve Name / dotted Attribute to the same result kinds as resolve_name."""
        if isinstance(node, ast.Name):
            return self.resolve_name(mod, node.id, _depth)
        if isinstance(node, ast.Attribute):
            base = self.resolve_expr(mod, node.value, _depth)
            if base is None:
                return None
            if base[0] == "module":
                return self.resolve_name(base[1], node.attr, _depth + 1)
            if base[0] == "external":
                return ("external", base[1] + "." + node.attr)
            if base[0] == "class":
                m = base[1].provider(node.attr) if base[1].mro else base[1].members.get(node.attr)
                if m is not None:
                    return ("member", m)
        return None

    def _link(self):
        for ci in self.classes:
            for b in ci.base_exprs:
                r = self.resolve_expr(ci.module, b)
                if r is not None and r[0] == "class":
                    ci.bases.append(r[1])
                else:
                    txt = ast.unparse(b)
                    ci.bases.append(txt)
                    ci.external_bases.append(txt)
        for ci in self.classes:
            if not ci.mro:
                ci.mro = _c3(ci)
        core = self.modules.get("dask_expr._core")
        if core is None or "Expr" not in core.classes:
            raise AnalysisError("anchor vanished: dask_expr._core.Expr")
        self.core_expr = core.classes["Expr"]

    # -- lookups -----------------------------------------------------------
    def cls(self, name: str, module: str | None = None) -> ClassInfo:
        """Find a class by bare name (must be unique) or by module + name."""
        if module is not None:
            m = self.modules.get(module if module.startswith(PKG) else f"{PKG}.{module}")
            if m is not None and name in m.classes:
                return m.classes[name]
            # moved to another module: the class of that name, if unique in the package
            found = [c for c in self.classes if c.name == name and c.outer is None]
            if len(found) == 1:
                return found[0]
            raise AnalysisError(f"anchor vanished: class {module}.{name}")
        found = [c for c in self.classes if c.name == name]
        if not found:
            raise AnalysisError(f"anchor vanished: class {name}")
        if len(found) > 1:
            raise AnalysisError(f"ambiguous class name {name}: {[c.qual for c in found]}")
        return found[0]

    def find_cls(self, name: str):
        return [c for c in self.classes if c.name == name]

    def func(self, module: str, name: str):
        m = self.modules.get(module if module.startswith(PKG) else f"{PKG}.{module}")
        if m is not None and name in m.functions:
            return m, m.functions[name]
        # moved to another module (with or without a re-export): the module-level function of that name, if unique
        found = [(mm, mm.functions[name]) for mm in self.modules.values() if name in mm.functions]
        if len(found) == 1:
            return found[0]
        raise AnalysisError(f"anchor vanished: function {module}.{name}" + (f" (ambiguous: {[mm.name for mm, _ in found]})" if found else ""))

    def method(self, cls: ClassInfo, name: str, own=False) -> Member:
        m = cls.members.get(name) if own else cls.provider(name)
        if m is None:
            raise AnalysisError(f"anchor vanished: {cls.qual}.{name}")
        return m

    def is_expr(self, c: ClassInfo) -> bool:
        return self.core_expr in c.mro

    def expr_classes(self):
        return [c for c in self.classes if self.is_expr(c)]

    def subclasses(self, base: ClassInfo, strict=False):
        return [c for c in self.classes if base in c.mro and not (strict and c is base)]

    # -- F2 constant folding ----------------------------------------------
    def const(self, cls: ClassInfo, attr: str, default=_UNSET):
        key = (id(cls), attr)
        if key in self._const_cache:
            v = self._const_cache[key]
        else:
            m = cls.provider(attr)
            if m is None or m.kind != "attr":
                v = _UNSET
            else:
                try:
                    v = self._fold(m.node, m.cls)
                except _NoFold:
                    v = _UNSET
            self._const_cache[key] = v
        if v is _UNSET:
            if default is _UNSET:
                raise AnalysisError(f"cannot fold {cls.qual}.{attr}")
            return default
        return v

    def _fold(self, node, ctx: ClassInfo, depth=0):
        if depth > 10:
            raise _NoFold
        if isinstance(node, ast.Constant):
            return node.value
        if isinstance(node, (ast.List, ast.Tuple)):
            out = []
            for e in node.elts:
                if isinstance(e, ast.Starred):
                    out.extend(self._fold(e.value, ctx, depth + 1))
                else:
                    out.append(self._fold(e, ctx, depth + 1))
            return out if isinstance(node, ast.List) else tuple(out)
        if isinstance(node, ast.Set):
            return {self._fold(e, ctx, depth + 1) for e in node.elts}
        if isinstance(node, ast.Dict):
            out = {}
            for k, v in zip(node.keys, node.values):
                if k is None:
                    out.update(self._fold(v, ctx, depth + 1))
                else:
                    try:
                        out[self._fold(k, ctx, depth + 1)] = self._fold_soft(v, ctx, depth + 1)
                    except TypeError:
                        raise _NoFold
            return out
        if isinstance(node, ast.BinOp) and isinstance(node.op, ast.Add):
            a = self._fold(node.left, ctx, depth + 1)
            b = self._fold(node.right, ctx, depth + 1)
            try:
                return a + b
            except TypeError:
                raise _NoFold
        if isinstance(node, ast.BinOp) and isinstance(node.op, ast.BitOr):
            a = self._fold(node.left, ctx, depth + 1)
            b = self._fold(node.right, ctx, depth + 1)
            if isinstance(a, dict) and isinstance(b, dict):
                return {**a, **b}
            raise _NoFold
        if isinstance(node, ast.Attribute):
            r = self.resolve_expr(ctx.module, node.value)
            if r is not None and r[0] == "class":
                m = r[1].provider(node.attr)
                if m is not None and m.kind == "attr":
                    return self._fold(m.node, m.cls, depth + 1)
            raise _NoFold
        if isinstance(node, ast.Name):
            # class-body local (e.g. _parameters referenced inside the class) or module constant
            m = ctx.members.get(node.id)
            if m is not None and m.kind == "attr" and m.node is not node:
                return self._fold(m.node, ctx, depth + 1)
            r = self.resolve_name(ctx.module, node.id)
            if r is not None and r[0] == "const":
                return self._fold(r[2], ctx, depth + 1)
            raise _NoFold
        if isinstance(node, ast.UnaryOp) and isinstance(node.op, ast.USub):
            v = self._fold(node.operand, ctx, depth + 1)
            if isinstance(v, (int, float)):
                return -v
        raise _NoFold

    def _fold_soft(self, node, ctx, depth):
        try:
            return self._fold(node, ctx, depth)
        except _NoFold:
            return Opaque(ast.unparse(node))

    def parameters(self, cls: ClassInfo) -> list:
        v = self.const(cls, "_parameters", default=None)
        if v is None:
            raise AnalysisError(f"cannot fold _parameters of {cls.qual}")
        return list(v)

    def defaults(self, cls: ClassInfo) -> dict:
        v = self.const(cls, "_defaults", default=None)
        if v is None:
            # unfoldable defaults: fall back to keys only
            m = cls.provider("_defaults")
            if m is not None and isinstance(m.node, ast.Dict):
                return {k.value: Opaque(ast.unparse(val)) for k, val in zip(m.node.keys, m.node.values) if isinstance(k, ast.Constant)}
            raise AnalysisError(f"cannot fold _defaults of {cls.qual}")
        return dict(v)

    def flag(self, cls: ClassInfo, attr: str, default=False):
        return self.const(cls, attr, default=default)

    # F3: who answers self.<attr> in class cls
    def attr_kind(self, cls: ClassInfo, attr: str):
        """Returns (kind, Member|None): kind is a Member kind, or 'operand' when the
        attribute is served by Expr.__getattr__ from _parameters, or 'unknown'."""
        m = cls.provider(attr)
        if m is not None:
            return m.kind, m
        if self.is_expr(cls):
            try:
                if attr in self.parameters(cls):
                    return "operand", None
            except AnalysisError:
                pass
        return "unknown", None

    def shadowed_parameters(self):
        """(class, parameter, provider Member) for parameters that attribute access
        does NOT serve from operands because a class attribute of the same name exists."""
        out = []
        for c in self.expr_classes():
            try:
                params = self.parameters(c)
            except AnalysisError:
                continue
            for p in params:
                m = c.provider(p)
                if m is not None:
                    out.append((c, p, m))
        return out

    # -- iteration helpers --------------------------------------------------
    def functions_of(self, cls: ClassInfo):
        for m in cls.members.values():
            if m.kind != "attr":
                yield m

    def all_functions(self):
        """Yield (module, owner ClassInfo|None, FunctionDef) for every def (nested too)."""
        for mod in self.modules.values():
            for node in ast.walk(mod.tree):
                if isinstance(node, (ast.FunctionDef, ast.AsyncFunctionDef)):
                    yield mod, enclosing_class(node), node

    def digest(self) -> str:
        h = hashlib.sha256()
        for name in sorted(self.modules):
            h.update(name.encode())
            h.update(self.modules[name].source.encode())
        return h.hexdigest()[:16]


class _NoFold(Exception):
    pass


@dataclass(frozen=True)
class Opaque:
    text: str

    def __repr__(self):
        return f"<{self.text}>"


# ----------------------------------------------------------------------------
# AST helpers
# ----------------------------------------------------------------------------


def enclosing_class(node):
    p = getattr(node, "_parent", None)
    while p is not None:
        if isinstance(p, ast.ClassDef):
            return getattr(p, "_classinfo", None)
        if isinstance(p, (ast.FunctionDef, ast.AsyncFunctionDef, ast.Lambda)):
            # nested def: class of the outer function, if any
            pass
        p = getattr(p, "_parent", None)
    return None


def enclosing_function(node):
    p = getattr(node, "_parent", None)
    while p is not None:
        if isinstance(p, (ast.FunctionDef, ast.AsyncFunctionDef)):
            return p
        p = getattr(p, "_parent", None)
    return None


def dotted(node) -> str | None:
    """'a.b.c' for Name/Attribute chains, else None."""
    parts = []
    while isinstance(node, ast.Attribute):
        parts.append(node.attr)
        node = node.value
    if isinstance(node, ast.Name):
        parts.append(node.id)
        return ".".join(reversed(parts))
    return None


def names_in(node) -> set:
    return {n.id for n in ast.walk(node) if isinstance(n, ast.Name)}


def attrs_in(node) -> set:
    """dotted attribute chains occurring in node (maximal ones)."""
    out = set()
    for n in ast.walk(node):
        if isinstance(n, ast.Attribute):
            d = dotted(n)
            if d:
                out.add(d)
    return out


def self_attrs(node, selfname="self") -> set:
    """attribute names X such that ``self.X`` occurs in node."""
    out = set()
    for n in ast.walk(node):
        if isinstance(n, ast.Attribute) and isinstance(n.value, ast.Name) and n.value.id == selfname:
            out.add(n.attr)
    return out


def calls_in(node):
    for n in ast.walk(node):
        if isinstance(n, ast.Call):
            yield n


def call_name(call: ast.Call) -> str | None:
    return dotted(call.func)


def unparse(node, limit=160) -> str:
    try:
        s = ast.unparse(node)
    except Exception:
        s = f"<{type(node).__name__}>"
    s = " ".join(s.split())
    return s if len(s) <= limit else s[: limit - 3] + "..."


def norm(node) -> str:
    """Normalised text of a node (whitespace/quote independent)."""
    return ast.unparse(node)


def str_consts(node) -> set:
    return {n.value for n in ast.walk(node) if isinstance(n, ast.Constant) and isinstance(n.value, str)}
