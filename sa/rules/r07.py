"""C07: declared schema matches the computed data - the thin structural part."""
from __future__ import annotations

import ast

from sa import flow
from sa.model import AnalysisError, dotted, unparse
from sa.rules import rule
from sa.rules.util import is_self_attr, iter_body_nodes, own_methods, qual


@rule(
    "R07a",
    ["C07"],
    """ENFORCEMENT MUST-PASS-THROUGH: wherever a user function produces partitions - MapPartitions._task (under
    enforce_metadata), FromMap.apply_func / apply_kwargs (under enforce_metadata), GroupByUDFBlockwise._task (always) -
    the task calls apply_and_enforce and carries both `_func` and `_meta` (the declared meta of THIS expression), so
    every partition is renamed / reordered to the declared labels or the mismatch is raised.""",
)
def r07a(ctx):
    model = ctx.model
    mp = model.cls("MapPartitions")
    t = model.method(mp, "_task", own=True).node
    _enforce_site(ctx, mp, t, "_expr.MapPartitions._task", guarded_by="self.enforce_metadata")
    gb = model.cls("GroupByUDFBlockwise")
    t = model.method(gb, "_task", own=True).node
    _enforce_site(ctx, gb, t, "_groupby.GroupByUDFBlockwise._task", guarded_by=None)
    fm = model.cls("FromMap")
    af = model.method(fm, "apply_func", own=True).node
    good = any(isinstance(r, ast.Return) and dotted(r.value) == "apply_and_enforce" and any(ast.unparse(tt) == "self.enforce_metadata" and pol for tt, pol in flow.facts(p)) for p in flow.returns(af) for r in [p.stmt])
    (ctx.ok if good else ctx.bad)("io.io.FromMap.apply_func", fm.module.loc(af), "apply_and_enforce under enforce_metadata" if good else "FromMap no longer routes the user function through apply_and_enforce when enforce_metadata is set")
    for c, m in own_methods(model, "apply_kwargs"):
        if fm not in c.mro:
            continue
        ak = m.node
        func_ok = meta_ok = False
        for d in (n for n in ast.walk(ak) if isinstance(n, ast.Dict)):
            for k, v in zip(d.keys, d.values):
                if isinstance(k, ast.Constant) and k.value == "_func" and ast.unparse(v) == "self.func":
                    func_ok = True
                if isinstance(k, ast.Constant) and k.value == "_meta":
                    # every class that runs this definition must hand over ITS declared meta
                    heirs = [h for h in model.subclasses(c) if h.provider("apply_kwargs") is not None and h.provider("apply_kwargs").node is ak]
                    meta_ok = bool(heirs) and all(_is_declared_meta(model, h, v) for h in heirs)
        good = func_ok and meta_ok
        cid = "io.io.FromMap.apply_kwargs" if c is fm else f"{c.qual}.apply_kwargs"
        (ctx.ok if good else ctx.bad)(cid, c.module.loc(ak), "_func and _meta passed to apply_and_enforce" if good else f"{c.name}.apply_kwargs no longer passes `_func` and `_meta` (the declared meta) to apply_and_enforce")


def _is_declared_meta(model, cls, v, depth=2):
    """self._meta / self.frame_meta, or a property of cls that returns one of them"""
    if not (isinstance(v, ast.Attribute) and isinstance(v.value, ast.Name) and v.value.id == "self"):
        return False
    if v.attr in ("_meta", "frame_meta"):
        return True
    if depth <= 0:
        return False
    mem = cls.provider(v.attr)
    if mem is None or mem.kind not in ("property", "cached_property"):
        return False
    rets = [r.value for r in ast.walk(mem.node) if isinstance(r, ast.Return) and r.value is not None]
    return bool(rets) and all(_is_declared_meta(model, cls, r, depth - 1) for r in rets)


def _enforce_site(ctx, cls, fn, cid, guarded_by):
    rets = flow.returns(fn)
    enforced = [p for p in rets if p.stmt.value is not None and "apply_and_enforce" in ast.unparse(p.stmt.value)]
    if not enforced:
        ctx.bad(cid, cls.module.loc(fn), "no return builds an apply_and_enforce task: partitions of a user function are never checked against the declared meta")
        return
    txt = ast.unparse(fn)
    carries = "'_meta': self._meta" in txt and "'_func':" in txt
    if guarded_by:
        cond_ok = all(any(ast.unparse(t) == guarded_by and pol for t, pol in flow.facts(p)) for p in enforced)
        other = [p for p in rets if p not in enforced and p.stmt.value is not None]
        leak = [p for p in other if not any(ast.unparse(t) == guarded_by and not pol for t, pol in flow.facts(p))]
        good = carries and cond_ok and not leak
        why = "apply_and_enforce with _func/_meta exactly when enforce_metadata is set"
    else:
        good = carries and len(enforced) == len([p for p in rets if p.stmt.value is not None])
        why = "every task is apply_and_enforce with _func/_meta"
    (ctx.ok if good else ctx.bad)(cid, cls.module.loc(fn), why if good else "the enforcement task is not built on every required path or does not carry `_func` and `_meta: self._meta`")


@rule(
    "R07b",
    ["C07"],
    """COLLECTION TYPE FROM META: new_collection picks the collection class by dispatching get_collection_type on expr._meta;
    registrations exist for pandas Series / DataFrame / Index, numpy arrays and `object` (scalars), and each returns the
    matching collection class.""",
)
def r07b(ctx):
    model = ctx.model
    mod, fn = model.func("_collection", "new_collection")
    defs = flow.Defs(fn)
    param = fn.args.args[0].arg
    rets = [ast.unparse(defs.expand(r.value, at=r)).replace(" ", "") for r in ast.walk(fn) if isinstance(r, ast.Return) and r.value is not None]
    good = bool(rets) and all(r == f"get_collection_type({param}._meta)({param})" for r in rets)
    (ctx.ok if good else ctx.bad)("_collection.new_collection", mod.loc(fn), "get_collection_type(expr._meta)(expr)" if good else "new_collection no longer dispatches the collection class on expr._meta")
    bmod = model.modules.get("dask_expr._backends")
    if bmod is None:
        raise AnalysisError("anchor vanished: dask_expr._backends")
    regs = {}
    for node in ast.walk(bmod.tree):
        if isinstance(node, ast.FunctionDef):
            for d in node.decorator_list:
                if isinstance(d, ast.Call) and dotted(d.func) == "get_collection_type.register" and d.args:
                    rets = [ast.unparse(r.value) for r in ast.walk(node) if isinstance(r, ast.Return) and r.value is not None]
                    regs[ast.unparse(d.args[0])] = (node, rets)
    want = {"pd.Series": "Series", "pd.DataFrame": "DataFrame", "pd.Index": "Index", "np.ndarray": "create_array_collection", "object": "Scalar"}
    for k, v in want.items():
        cid = f"_backends.get_collection_type[{k}]"
        if k not in regs:
            ctx.bad(cid, bmod.rel, f"no get_collection_type registration for {k}")
        elif regs[k][1] != [v]:
            ctx.bad(cid, bmod.loc(regs[k][0]), f"registration for {k} returns {regs[k][1]}, not {v}: the lazily reported container type differs from the computed one")
        else:
            ctx.ok(cid, bmod.loc(regs[k][0]), v)


# ---------------------------------------------------------------------------------------------
# R07e
# ---------------------------------------------------------------------------------------------


@rule(
    "R07e",
    ["C07"],
    """PLACEHOLDER LABELS DO NOT LEAVE THE LOWERING THAT INTRODUCED THEM: a lowering that needs a label for an unnamed Series / Index
    (`name or "__series__"`, `name or "__index__"`) to build a temporary frame must translate the placeholder back before it returns:
    the same function compares against the placeholder (`== "__series__"`) on the way out. Otherwise the computed result - and the
    optimized plan - carry the internal label while the un-optimized collection declares the user's name:
    df.x.rename(None).drop_duplicates().compute().name was '__series__'.""",
)
def r07e(ctx):
    import re as _re

    model = ctx.model
    n = 0
    for mod, cls, fn in model.all_functions():
        intro = {}
        for x in ast.walk(fn):
            if isinstance(x, ast.BoolOp) and isinstance(x.op, ast.Or) and isinstance(x.values[-1], ast.Constant) and isinstance(x.values[-1].value, str) and _re.fullmatch(r"__\w+__", x.values[-1].value):
                intro.setdefault(x.values[-1].value, x)
        for ph, node in intro.items():
            n += 1
            fq = qual(cls, fn) if cls is not None else f"{mod.name.split('.', 1)[-1]}.{fn.name}"
            undo = [c for c in ast.walk(fn) if isinstance(c, ast.Compare) and isinstance(c.ops[0], ast.Eq) and any(isinstance(y, ast.Constant) and y.value == ph for y in c.comparators + [c.left])]
            cid = f"{fq}:placeholder:{ph}"
            if undo:
                ctx.ok(cid, mod.loc(node), f"the placeholder {ph!r} is tested for and translated back in the same function")
            else:
                ctx.bad(cid, mod.loc(node), f"`{unparse(node)}` labels an unnamed input with the internal placeholder {ph!r}, and nothing in {fn.name} translates it back: the computed result and the optimized plan are named {ph!r} although the collection declared the user's (missing / falsy) name - the placeholder leaks into to_frame / reset_index / concat / to_parquet column labels")
    ctx.floor("placeholder labels introduced by lowerings", n, 2)


# ---------------------------------------------------------------------------------------------
# R07f
# ---------------------------------------------------------------------------------------------

R07F_EXCEPTIONS = {
    "_shuffle.Shuffle": "ShuffleBase._meta is the input's meta with the index reset when ignore_index is set: same columns, dtypes and container",
    "_shuffle.ShuffleBase": "see _shuffle.Shuffle",
    "_shuffle.RearrangeByColumn": "see _shuffle.Shuffle",
}
_META_PRESERVING_WRAPPERS = ("Repartition", "RepartitionDivisions", "RepartitionToFewer", "RepartitionToMore")


def _meta_kind(model, c):
    pv = c.provider("_meta")
    if pv is None or pv.kind == "attr":
        return "none", None
    rets = [ast.unparse(r.value) for r in ast.walk(pv.node) if isinstance(r, ast.Return) and r.value is not None]
    passthrough = bool(rets) and all(r in ("self.frame._meta", "self.frame._meta.copy()") for r in rets)
    return ("passthrough" if passthrough else "computed"), pv


@rule(
    "R07f",
    ["C07", "C17"],
    """THE NODE A LOWERING RETURNS DECLARES THE SCHEMA OF THE NODE IT REPLACES: after lowering, the physical node is what optimize(),
    persist() and from_graph read the schema from. If the logical class COMPUTES its `_meta` (an aggregation that changes columns, dtypes
    or the container) and its `_lower` returns `K(<the same input, possibly repartitioned>, ...)` where K._meta just passes the input's
    meta through, the optimized / persisted collection declares the INPUT's schema: df.resample('3h').size().optimize() was a
    two-column DataFrame, a persisted ohlc() a Series holding frames; the single-partition rolling path declared int64 for float
    results.""",
)
def r07f(ctx):
    from sa import flow

    model = ctx.model
    n = 0
    for L in model.expr_classes():
        lw = L.members.get("_lower")
        if lw is None or lw.kind == "attr":
            continue
        lk, lpv = _meta_kind(model, L)
        if lk != "computed":
            continue
        defs = flow.Defs(lw.node)
        for p in flow.returns(lw.node):
            v = p.stmt.value
            if not (isinstance(v, ast.Call) and isinstance(v.func, ast.Name)):
                continue
            r = model.resolve_name(L.module, v.func.id)
            if not (r and r[0] == "class" and model.is_expr(r[1])):
                continue
            K = r[1]
            kk, kpv = _meta_kind(model, K)
            n += 1
            if kk != "passthrough":
                continue
            first = v.args[0] if v.args else next((kw.value for kw in v.keywords if kw.arg == "frame"), None)
            if first is None:
                continue
            base = defs.expand(first, at=p.stmt)
            for _ in range(3):
                if isinstance(base, ast.Call) and isinstance(base.func, ast.Name) and base.func.id in _META_PRESERVING_WRAPPERS and base.args:
                    base = defs.expand(base.args[0], at=p.stmt)
            same_input = ast.unparse(base) == "self.frame"
            if isinstance(base, ast.Name):
                same_input = any(ast.unparse(d.value).startswith(("self.frame", "Repartition(self.frame", "Repartition(frame")) or ast.unparse(d.value) == "self.frame" for d in defs.reaching(base.id, p.stmt) if d.value is not None)
            cid = f"{L.qual}._lower->{K.name}:declared-schema"
            if not same_input:
                ctx.ok(cid, L.module.loc(p.stmt), f"{K.name} passes through the meta of `{ast.unparse(first)[:40]}`, which is not the logical node's own input")
            elif L.qual in R07F_EXCEPTIONS:
                ctx.exempt(cid, L.module.loc(p.stmt), R07F_EXCEPTIONS[L.qual])
            else:
                ctx.bad(cid, kpv.cls.module.loc(kpv.node), f"{L.qual} computes its _meta ({lpv.cls.qual}._meta), but {L.name}._lower returns {K.qual}(<its own input>, ...) whose _meta is `self.frame._meta`: once lowered, the plan declares the schema of the INPUT (other columns / dtypes / container than the aggregation produces) - optimize() changes the declared schema and persist() freezes the wrong one")
    ctx.floor("lowerings that return a constructed node", n, 25)


# ---------------------------------------------------------------------------------------------
# R07g
# ---------------------------------------------------------------------------------------------


@rule(
    "R07g",
    ["C07", "C04"],
    """A SOURCE THAT ABSORBS PROJECTIONS PROJECTS ITS OWN SCHEMA - sibling agreement: every class with `_absorb_projections = True`
    receives the selected columns as its `columns` operand and must itself make meta and data follow it: its `_meta` subscripts the
    full meta by the operand (FromPandas, FromArray, FromMapProjectable, ReadParquet, Timeseries all do). A source that only forwards
    the list to a wrapped reader inherits that reader's exceptions: dask's read_csv appends the path column whatever `usecols` says, so
    read_csv(include_path_column=True)[['a', 'b']] declared and computed ['a', 'b', 'path'] once optimized.""",
)
def r07g(ctx):
    model = ctx.model
    n = 0
    for c in model.expr_classes():
        if model.flag(c, "_absorb_projections", default=False) is not True:
            continue
        mv = c.provider("_meta")
        if mv is None or mv.kind == "attr":
            continue
        n += 1
        cid = f"{c.qual}._meta:follows-columns-operand"
        subs = [x for x in ast.walk(mv.node) if isinstance(x, ast.Subscript) and "columns" in ast.unparse(x.slice)]
        if subs:
            ctx.ok(cid, mv.cls.module.loc(mv.node), f"meta is projected by the columns operand (`{ast.unparse(subs[0])[:50]}`)")
        else:
            ctx.bad(cid, mv.cls.module.loc(mv.node), f"{c.qual} absorbs column selections (`_absorb_projections`) but {mv.cls.qual}._meta never subscripts the meta by the columns operand, unlike every sibling source: whatever the wrapped reader adds beyond the requested columns (the path column of read_csv) stays in the declared schema and in every partition after the projection was absorbed")
    ctx.floor("sources that absorb projections", n, 8)


@rule(
    "R07h",
    ["C07", "C04"],
    """EVERY OUTPUT PARTITION OF loc[rows, columns] APPLIES THE COLUMN INDEXER: LocSlice._layer writes its partitions by hand - first,
    interior and last. When a column indexer is set (`self.cindexer is not None`) each of them must go through it; a partition copied
    straight from the frame (`(self.frame._name, i)`) keeps all columns while the declared schema and its neighbours have the selected
    ones. A task that does not mention `self.cindexer` is only allowed under `self.cindexer is None`.""",
)
def r07h(ctx):
    from sa import flow

    model = ctx.model
    c = model.cls("LocSlice", "_indexing")
    fn = model.method(c, "_layer", own=True).node
    n = 0
    defs = flow.Defs(fn)

    def ex(node, at):
        try:
            return ast.unparse(defs.expand(node, at=at))
        except Exception:  # noqa: BLE001
            return ast.unparse(node)

    for st in flow.walk(fn):
        s_ = st.stmt
        if not (isinstance(s_, ast.Assign) and isinstance(s_.targets[0], ast.Subscript) and "self._name" in ex(s_.targets[0].slice, s_)):
            continue
        n += 1
        cid = f"_indexing.LocSlice._layer:partition-task#{n}"
        none_guard = any(pol and isinstance(t, ast.Compare) and isinstance(t.ops[0], ast.Is) and ex(t.left, s_) == "self.cindexer" and ast.unparse(t.comparators[0]) == "None" for t, pol in flow.facts(st))
        if "self.cindexer" in ex(s_.value, s_):
            ctx.ok(cid, c.module.loc(s_), "the task applies the column indexer")
        elif none_guard:
            ctx.ok(cid, c.module.loc(s_), "plain copy only when there is no column indexer")
        else:
            ctx.bad(cid, c.module.loc(s_), f"`{ast.unparse(s_)[:100]}` copies a partition of the frame without applying `self.cindexer` and without being guarded by `self.cindexer is None`: interior partitions of df.loc[a:b, cols] keep every column of df while the first and last partition (and the declared schema) have only `cols`")
    ctx.floor("hand-written partition tasks of LocSlice._layer", n, 2)


def pmatch_none(t):
    return isinstance(t, ast.Compare) and isinstance(t.ops[0], ast.Is) and ast.unparse(t.left) == "self.cindexer" and ast.unparse(t.comparators[0]) == "None"
