"""C02: results equal the pandas meaning for every partitioning - structural clauses."""
from __future__ import annotations

import ast
import re

from sa import flow
from sa.model import AnalysisError, dotted, names_in, unparse
from sa.rules import LEVEL_TEXT, rule
from sa.rules.util import closure_functions, is_self_attr, iter_body_nodes, one_local, pfind, pmatch, qual

LEVEL_TEXT["C02"] = (
    "Decides structural necessary conditions of the clause 'irrespective of how differently the inputs of a multi-input "
    "operation are partitioned' and of stage agreement: every user-facing construction of a multi-frame partitionwise "
    "operation is dominated by an are_co_aligned test (else its *Align sibling / an explicit refusal is used); the "
    "chunk, combine and aggregate stages of a reduction receive the same group-identity options (dropna, observed, "
    "sort, ascending, level, keep, subset); lowering forwards semantic parameters (R10a); range-separation tests are "
    "strict (R06f). Undecided: all numerical agreement with pandas (chunk/combine/aggregate algebra, window "
    "boundaries, tree depth) - runtime values."
)

# classes that combine a second row-aligned collection but have no *Align sibling: their API entry points must refuse
# unaligned inputs (explicit check helper) or test are_co_aligned
NO_ALIGN_SIBLING = {"Clip": "lower/upper", "Between": "left/right", "CaseWhen": "case list"}
API_MODULES = ("dask_expr._collection", "dask_expr._indexing", "dask_expr._groupby")
# (function, class) constructions that need no guard
R02A_EXCEPTIONS = {
    ("_collection.DataFrame.assign", "Assign"): "callable branch: the new column is computed from the frame itself (v(result)); collection values are checked in the Series branch of the same loop",
    ("_collection.DataFrame.map", "Map"): "arg is a python callable (DataFrame.map takes no collection)",
    ("_collection.FrameBase.__getitem__", "Filter"): "delegates to Expr.__getitem__, which holds the guard",
    ("_expr.Expr._filter_simplification", "Filter"): "rewrite helper: re-builds an already aligned node",
}


def _align_pairs(model):
    """{plain class name: align class name} from the _expr_cls declarations of MaybeAlignPartitions subclasses"""
    base = model.cls("MaybeAlignPartitions")
    out = {}
    for c in model.subclasses(base, strict=True):
        m = c.provider("_expr_cls")
        if m is None or m.kind != "attr":
            continue
        d = dotted(m.node)
        if d and d != "None":
            out.setdefault(d.split(".")[-1], c.name)
    return out


def _api_functions(model):
    out = []
    for mod, cls, fn in model.all_functions():
        if fn.name in ("_lower", "_simplify_up", "_simplify_down", "_tune_up", "_tune_down", "_layer", "_task"):
            continue
        if mod.name in API_MODULES:
            out.append((mod, cls, fn))
        elif mod.name == "dask_expr._expr" and cls is not None and cls.name == "Expr" and not fn.name.startswith("_simplify") and not fn.name.startswith("_lower"):
            out.append((mod, cls, fn))
    return out


def _guarded(p):
    """is the point dominated by an are_co_aligned decision?"""
    for t, pol in flow.facts(p):
        s = ast.unparse(t)
        if "are_co_aligned(" not in s and "_check_co_aligned(" not in s:
            continue
        if pol:
            return True
        # `if isinstance(v, Expr) and not are_co_aligned(...): return XAlign` -> on the fall-through the
        # conjunction is false: either no expression operand at all, or aligned
        if isinstance(t, ast.BoolOp) and isinstance(t.op, ast.And) and any(isinstance(v, ast.UnaryOp) and isinstance(v.op, ast.Not) and "are_co_aligned(" in ast.unparse(v) for v in t.values):
            return True
    # explicit refusal helper called earlier on the path
    for st in p.preceding:
        if isinstance(st, ast.Expr) and isinstance(st.value, ast.Call) and (dotted(st.value.func) or "").endswith("_check_co_aligned"):
            return True
        # an earlier (possibly nested) `if ... not are_co_aligned(...): return/continue <Align sibling>`
        for sub in ast.walk(st):
            if isinstance(sub, ast.If) and "are_co_aligned(" in ast.unparse(sub.test) and flow.terminates(sub.body):
                return True
    return False


def _root_name(e):
    while isinstance(e, (ast.Attribute, ast.Subscript, ast.Call)):
        e = e.value if not isinstance(e, ast.Call) else e.func
    return e.id if isinstance(e, ast.Name) else None


def _decision_subjects(p):
    """root names of the arguments of the are_co_aligned(...) calls that decide this path"""
    out = []
    tests = [t for t, pol in flow.facts(p)]
    for st in p.preceding:
        for sub in ast.walk(st):
            if isinstance(sub, ast.If) and flow.terminates(sub.body):
                tests.append(sub.test)
    for t in tests:
        for c in ast.walk(t):
            if isinstance(c, ast.Call) and (dotted(c.func) or "").endswith("are_co_aligned"):
                roots = {r for r in (_root_name(a) for a in c.args if not isinstance(a, ast.Starred)) if r}
                if any(isinstance(a, ast.Starred) for a in c.args):
                    roots.add("*")
                out.append(roots)
    return [r for r in out if "*" not in r]


@rule(
    "R02a",
    ["C02"],
    """ALIGNMENT MUST-CHECK: the multi-frame partitionwise classes are read from the code (every MaybeAlignPartitions subclass
    names its plain sibling in _expr_cls; Clip / Between / CaseWhen have no sibling). Every construction of such a class
    in the user-facing layer (_collection.py, _indexing.py, _groupby.py, the convenience methods of _expr.Expr) must be
    dominated by an are_co_aligned(...) decision - the true branch, the fall-through of `if not are_co_aligned(...):
    return XAlign(...)`, or a preceding explicit refusal (_check_co_aligned). Constructions inside rewrite rules
    re-build already aligned nodes and are exempt.""",
)
def r02a(ctx):
    model = ctx.model
    pairs = _align_pairs(model)
    ctx.info("plain -> Align siblings", pairs)
    ctx.floor("*Align siblings declared via _expr_cls", len(pairs), 9)
    watched = dict(pairs)
    watched.update({k: None for k in NO_ALIGN_SIBLING})
    n = 0
    for mod, cls, fn in _api_functions(model):
        fq = qual(cls, fn) if cls is not None else f"{mod.name.split('.', 1)[-1]}.{fn.name}"
        for call in (x for x in iter_body_nodes(fn) if isinstance(x, ast.Call)):
            d = dotted(call.func)
            if d is None:
                continue
            name = d.split(".")[-1]
            if name not in watched or (d != name and not d.startswith("expr.")):
                continue
            # only constructions that can receive a second collection: more than one positional/keyword operand
            nargs = len(call.args) + len(call.keywords)
            if nargs < 2:
                continue
            n += 1
            cid = f"{fq}->{name}"
            p = flow.point_of(fn, call)
            if p is not None and _guarded(p):
                # the decision must be about the frame that is built upon: are_co_aligned(x.expr, ...) with x the first operand
                subj = _decision_subjects(p)
                root = _root_name(call.args[0]) if call.args else None
                if subj and root is not None and root != "self" and not any(root in s_ for s_ in subj) and any("self" in s_ or s_ for s_ in subj):
                    ctx.bad(cid, mod.loc(call), f"{name} is built on `{root}` but the alignment decision on this path looked at {sorted(set().union(*subj))}: inside a loop that keeps extending `{root}` the frame that was tested is not the frame the operation is applied to")
                else:
                    ctx.ok(cid, mod.loc(call), "dominated by an alignment decision")
            elif (fq, name) in R02A_EXCEPTIONS:
                ctx.exempt(cid, mod.loc(call), R02A_EXCEPTIONS[(fq, name)])
            elif _only_literal_operands(call):
                ctx.ok(cid, mod.loc(call), "no collection operand possible")
            else:
                sib = watched[name]
                ctx.bad(
                    cid,
                    mod.loc(call),
                    f"{fq} builds {name} from a second, possibly differently partitioned collection without an are_co_aligned test"
                    + (f" (its aligning sibling {sib} is never chosen)" if sib else " (the class has no aligning sibling, so unaligned inputs must be refused)")
                    + ": partitions are paired by position, which gives values different from pandas",
                )
    ctx.floor("API-layer constructions of multi-frame partitionwise classes", n, 12)
    # each *Align class aligns before building the plain sibling
    base = model.cls("MaybeAlignPartitions")
    lo = model.method(base, "_lower", own=True).node
    t = ast.unparse(lo)
    good = "maybe_align_partitions(" in t and "RearrangeByColumn(" in t and "self._expr_cls(" in t
    (ctx.ok if good else ctx.bad)("_expr.MaybeAlignPartitions._lower", base.module.loc(lo), "repartitions on common divisions or shuffles on the index before building the plain op" if good else "MaybeAlignPartitions._lower no longer aligns (maybe_align_partitions / index shuffle) before building the plain operation")
    # shortcut (no alignment) only when all divisions are equal AND known
    short = None
    for p in flow.returns(lo):
        if p.stmt.value is not None and ast.unparse(p.stmt.value) == "self._expr_cls(*self.operands)":
            short = p
    if short is None:
        ctx.unclassified("_expr.MaybeAlignPartitions._lower:shortcut", base.module.loc(lo), "shortcut return not found")
    else:
        facts = " ".join(ast.unparse(t) for t, pol in flow.facts(short) if pol)
        good = "known_divisions" in facts and ".divisions ==" in facts
        (ctx.ok if good else ctx.bad)("_expr.MaybeAlignPartitions._lower:shortcut", base.module.loc(short.stmt), "skips alignment only for equal AND known divisions" if good else "alignment is skipped without requiring equal and KNOWN divisions (unknown divisions compare equal as tuples of None)")


def _only_literal_operands(call):
    rest = list(call.args[1:]) + [k.value for k in call.keywords]
    return all(isinstance(a, ast.Constant) for a in rest)


R02B_EXCEPTIONS = {
    "_reductions.Mode": "combine sums the per-partition value counts (M.sum); dropna is an option of value_counts / the final mode only",
}
GROUP_KEYS = {"dropna", "observed", "sort", "ascending", "level", "levels", "keep", "subset"}


def _keys_of(model, cls, name, depth=0):
    """statically known key set of a kwargs property, or None"""
    mem = cls.provider(name)
    if mem is None or depth > 4:
        return None
    if mem.kind == "attr":
        if isinstance(mem.node, ast.Dict) and not mem.node.keys:
            return set()
        return None
    fn = mem.node
    rets = [r.value for r in ast.walk(fn) if isinstance(r, ast.Return) and r.value is not None]
    if not rets:
        return None
    defs = flow.Defs(fn)

    def ev(v, d=0):
        if d > 5:
            return None
        if isinstance(v, ast.Dict):
            ks = set()
            for k, val in zip(v.keys, v.values):
                if k is None:
                    sub = ev(val, d + 1)
                    if sub is None:
                        return None
                    ks |= sub
                elif isinstance(k, ast.Constant):
                    ks.add(k.value)
                else:
                    return None
            return ks
        if isinstance(v, ast.Call) and dotted(v.func) == "dict" and not v.args:
            return {k.arg for k in v.keywords if k.arg}
        if isinstance(v, ast.Call) and dotted(v.func) == "_as_dict" and v.args and isinstance(v.args[0], ast.Constant):
            return {v.args[0].value}
        if is_self_attr(v) and v.attr in ("chunk_kwargs", "combine_kwargs", "aggregate_kwargs"):
            return _keys_of(model, cls, v.attr, depth + 1)
        if isinstance(v, ast.Call) and is_self_attr(v.func) and not v.args:
            return _keys_of(model, cls, v.func.attr, depth + 1)
        if isinstance(v, ast.Attribute) and isinstance(v.value, ast.Call) and dotted(v.value.func) == "super":
            for k in cls.mro[cls.mro.index(mem.cls) + 1 :]:
                if v.attr in k.members:
                    return _keys_of(model, k, v.attr, depth + 1)
            return None
        if isinstance(v, ast.Name):
            ds = [dd for dd in defs.reaching(v.id, v) if dd.value is not None]
            if not ds:
                return None
            ks = set()
            for dd in ds:
                sub = ev(dd.value, d + 1)
                if sub is None:
                    return None
                ks |= sub
            for n in ast.walk(fn):
                if isinstance(n, ast.Subscript) and isinstance(n.ctx, ast.Store) and isinstance(n.value, ast.Name) and n.value.id == v.id and isinstance(n.slice, ast.Constant):
                    ks.add(n.slice.value)
            return ks
        return None

    allk = set()
    for r in rets:
        s = ev(r)
        if s is None:
            return None
        allk |= s
    return allk


def _pure_concat(model, cls, name):
    m = cls.provider(name)
    if m is None or m.kind == "attr":
        return False
    rets = [r.value for r in ast.walk(m.node) if isinstance(r, ast.Return) and r.value is not None]
    return bool(rets) and all(isinstance(r, ast.Call) and dotted(r.func) == "_concat" for r in rets) and len(list(iter_body_nodes(m.node))) < 12


@rule(
    "R02b",
    ["C02", "C10"],
    """STAGE KWARGS AGREEMENT: for every ApplyConcatApply class (reductions, groupby aggregations) that defines a combine
    stage, a group-identity option (dropna, observed, sort, ascending, level(s), keep, subset) that is passed to BOTH the
    chunk stage and the aggregate stage must also be passed to the combine stage - otherwise the intermediate tree
    levels (which only exist for npartitions > split_every) treat missing keys / ordering differently from the first
    and the last stage. Classes whose combine merely concatenates are exempt.""",
)
def r02b(ctx):
    model = ctx.model
    aca = model.cls("ApplyConcatApply")
    n = 0
    for c in model.subclasses(aca):
        comb = c.provider("combine")
        has_combine = comb is not None and not (comb.kind == "attr" and isinstance(comb.node, ast.Constant) and comb.node.value is None)
        if not has_combine:
            continue
        ck, cb, ag = (_keys_of(model, c, k) for k in ("chunk_kwargs", "combine_kwargs", "aggregate_kwargs"))
        cid = f"{c.qual}:stage-kwargs"
        if ck is None or cb is None or ag is None:
            ctx.unclassified(cid, c.loc, "kwargs not statically known")
            continue
        n += 1
        if _pure_concat(model, c, "combine"):
            ctx.ok(cid, c.loc, "combine only concatenates")
            continue
        missing = sorted((ck & ag & GROUP_KEYS) - cb)
        if missing and c.qual in R02B_EXCEPTIONS:
            ctx.exempt(cid, c.loc, R02B_EXCEPTIONS[c.qual])
        elif missing:
            m = c.provider("combine_kwargs")
            ctx.bad(cid, m.cls.module.loc(m.node) if m is not None and m.kind != "attr" else c.loc, f"{c.qual} passes {missing} to the chunk and the aggregate stage but not to the combine stage: with more partitions than split_every the intermediate combine uses pandas' defaults (e.g. drops the NaN group) and the result depends on the tree depth")
        else:
            ctx.ok(cid, c.loc, f"combine keys {sorted(cb)}")
    ctx.floor("classes with statically known stage kwargs", n, 25)


@rule(
    "R10c",
    ["C10", "C02"],
    """JOIN STRATEGY AGREEMENT: Merge._lower (broadcast branch) hash-partitions the non-broadcast side exactly when
    BroadcastJoin._layer splits the other side's partitions by hash; both sites must test `how` for the same set of
    join kinds (today: how != 'inner'), otherwise one side is split by hash while the other is not.""",
)
def r10c(ctx):
    model = ctx.model
    merge = model.cls("Merge", "_merge")
    bj = model.cls("BroadcastJoin")
    lo = model.method(merge, "_lower", own=True).node
    ly = model.method(bj, "_layer", own=True).node
    domain = ["inner", "left", "right", "outer", "leftsemi"]

    def how_sets(fn, only_under=None):
        out = []
        for n in ast.walk(fn):
            if isinstance(n, ast.Compare) and len(n.ops) == 1 and is_self_attr(n.left, "how"):
                if only_under is not None:
                    p = flow.point_of(fn, n)
                    if p is None or not any(only_under in ast.unparse(t) and pol for t, pol in flow.facts(p)):
                        continue
                op, rhs = n.ops[0], n.comparators[0]
                vals = None
                if isinstance(rhs, ast.Constant):
                    vals = {rhs.value}
                elif isinstance(rhs, (ast.Tuple, ast.List, ast.Set)) and all(isinstance(e, ast.Constant) for e in rhs.elts):
                    vals = {e.value for e in rhs.elts}
                if vals is None:
                    continue
                if isinstance(op, (ast.Eq, ast.In)):
                    s = set(vals) & set(domain)
                elif isinstance(op, (ast.NotEq, ast.NotIn)):
                    s = set(domain) - set(vals)
                else:
                    continue
                out.append((n, frozenset(s)))
        return out

    a = how_sets(lo, only_under="is_broadcast_join")
    b = how_sets(ly)
    if not a or not b:
        raise AnalysisError("anchor vanished: `how` tests in Merge._lower (broadcast branch) / BroadcastJoin._layer")
    sa_, sb_ = {s for _, s in a}, {s for _, s in b}
    if sa_ == sb_:
        ctx.ok("_merge.Merge._lower~BroadcastJoin._layer:how", merge.module.loc(a[0][0]), f"both split by hash for how in {sorted(next(iter(sa_)))}")
    else:
        ctx.bad("_merge.Merge._lower~BroadcastJoin._layer:how", merge.module.loc(a[0][0]), f"Merge._lower shuffles the other side for how in {[sorted(s) for s in sa_]} but BroadcastJoin._layer splits by hash for how in {[sorted(s) for s in sb_]}: for the join kinds in the difference one side is hash-split and the other is not, so matches are lost on the broadcast plan only")


# parameters that are accepted but not read on the reference tree (compat signatures, protocol slots): confirmed by reading
R21A_UNUSED_OK = {
    ("_collection.FrameBase.__array__", "dtype"), ("_collection.Series.describe", "include"), ("_collection.Series.describe", "exclude"),
    ("_collection.Index.__array_wrap__", "context"), ("_concat.ConcatUnindexed.operation", "_kwargs"), ("_concat.ConcatUnindexed.operation", "axis"),
    ("_expr._return_input", "divisions"), ("_expr.calc_divisions_for_align", "allow_shuffle"),
    ("_expr.RenameSeries.operation", "sorted_index"), ("_expr.MinType.__le__", "other"), ("_groupby._median_groupby_aggregate", "group_keys"),
    ("_groupby.Cov.combine", "levels"), ("_groupby.GroupByApply._shuffle_grp_func", "shuffled"), ("_groupby.Median._shuffle_grp_func", "shuffled"),
    ("_groupby.GroupBy.cov", "shuffle_method"), ("_groupby.GroupBy.corr", "shuffle_method"), ("_groupby.GroupBy.rolling", "axis"),
    ("_groupby.SeriesGroupBy.idxmin", "split_every"), ("_groupby.SeriesGroupBy.idxmin", "numeric_only"), ("_groupby.SeriesGroupBy.idxmax", "numeric_only"),
    ("_reductions.TotalMemoryUsageFrame.reduction_combine", "is_dataframe"), ("_shuffle.SetIndexBlockwise.operation", "new_divisions"),
}
PROTOCOL_SLOTS = {"self", "cls", "parent", "dependents", "_", "index", "i", "args", "kwargs"}


@rule(
    "R21a",
    ["C02", "C10"],
    """PARAMETERS ARE CONSUMED: every named parameter of every function in the package is read somewhere in its body (protocol
    slots such as parent / dependents / index and *args / **kwargs excepted; 23 compat parameters are a confirmed
    table). An option that a user-facing method accepts but no longer forwards (na_position, ascending, dropna,
    shuffle_method, split_out ...) is silently ignored: the result stops following the pandas meaning / the knob.""",
)
def r21a(ctx):
    _r21(ctx, lambda mod, cls, fn: True, 1500)


@rule(
    "R21b",
    ["C13"],
    """R21a restricted to the repartition entry points and classes (functions named *repartition* or defined in
    _repartition.py): a layout request parameter (divisions, npartitions, partition_size, freq, force) that is accepted
    but not forwarded is silently ignored or wrongly rejected.""",
)
def r21b(ctx):
    _r21(ctx, lambda mod, cls, fn: "repartition" in fn.name.lower() or mod.name.endswith("_repartition"), 14)


@rule(
    "R21c",
    ["C11"],
    """R21a restricted to the selection entry points (head, tail, partitions, get_partition, to_delayed and the Head / Tail /
    Partitions classes).""",
)
def r21c(ctx):
    names = ("head", "tail", "partitions", "get_partition", "to_delayed", "_partitions")
    _r21(ctx, lambda mod, cls, fn: fn.name in names or (cls is not None and cls.name in ("Head", "Tail", "Partitions", "BlockwiseHead", "BlockwiseTail", "PartitionsFiltered")), 12)


def _r21(ctx, scope, floor):
    model = ctx.model
    n = 0
    for mod, cls, fn in model.all_functions():
        if mod.name.endswith("_version") or mod.name.startswith("dask_expr.diagnostics"):
            continue
        if not scope(mod, cls, fn):
            continue
        body = [s for s in fn.body if not (isinstance(s, ast.Expr) and isinstance(s.value, ast.Constant))]
        if len(body) == 1 and isinstance(body[0], (ast.Raise, ast.Pass)):
            continue
        if any(ast.unparse(d).endswith("abstractmethod") for d in fn.decorator_list):
            continue
        args = [a.arg for a in fn.args.posonlyargs + fn.args.args + fn.args.kwonlyargs]
        names = {x.id for x in ast.walk(fn) if isinstance(x, ast.Name) and isinstance(x.ctx, (ast.Load, ast.Del))}
        fq = qual(cls, fn) if cls is not None else f"{mod.name.split('.', 1)[-1]}.{fn.name}"
        for a in args:
            if a in PROTOCOL_SLOTS:
                continue
            n += 1
            if a in names:
                continue
            cid = f"{fq}:param:{a}"
            if (fq, a) in R21A_UNUSED_OK:
                ctx.exempt(cid, mod.loc(fn), "accepted for signature compatibility, unused on the reference tree")
            else:
                ctx.bad(cid, mod.loc(fn), f"parameter `{a}` of {fq} is never read: the caller's value is silently ignored (it used to be forwarded, or the option is accepted without effect)")
    ctx.ok("parameters read in their function", "", f"{n} parameters examined")
    ctx.floor("parameters examined", n, floor)


# parameters that may be ignored when two sources are compared for "same parent": they select columns / carry a
# cache, they do not change which rows are in which partition
R02C_IGNORABLE = {"columns", "_series", "_dataset_info_cache"}


def _ndim_only(test, target):
    txt = ast.unparse(test).replace(" ", "")
    tn = ast.unparse(target)
    return txt in (f"{tn}.ndim>0", f"{tn}.ndim!=0", f"{tn}.ndim", f"{tn}.ndim>=1", f"not{tn}.ndim==0")


@rule(
    "R02c",
    ["C02", "C14", "C17"],
    """CO-ALIGNMENT IS JUDGED OVER ALL ANCESTORS: are_co_aligned is the single decision between the plain partitionwise class
    and its aligning sibling (and what Fused groups rely on). Its walk must follow EVERY dependency of a partitionwise
    node (an unfiltered `.dependencies()`), must count every non-partitionwise, non-scalar node as an ancestor, may
    ignore only column-selection / cache parameters when comparing sources (filters, partition selections, paths
    distinguish sources), and answers True only for at most one distinct ancestor.""",
)
def r02c(ctx):
    model = ctx.model
    mod, entry = model.func("_expr", "are_co_aligned")
    # the walk may live in are_co_aligned itself or in a helper it calls
    scope = closure_functions(model, mod, None, entry, depth=1)
    fn = None
    for _, _, f in scope:
        if any(isinstance(w, ast.While) for w in ast.walk(f)) and any(isinstance(n, ast.If) and pmatch("isinstance(V_e, IO)", n.test) is not None for n in ast.walk(f)):
            fn = f
    if fn is None:
        raise AnalysisError("anchor vanished: the ancestor walk of are_co_aligned (a while loop over a work list with an isinstance(e, IO) arm)")
    defs = flow.Defs(fn)
    ext = []
    for pt in flow.walk(fn):
        if not isinstance(pt.stmt, ast.Expr):
            continue
        c = pt.stmt.value
        # the work list: the local the enclosing `while` tests and pops from
        if isinstance(c, ast.Call) and isinstance(c.func, ast.Attribute) and c.func.attr in ("extend", "append") and pt.loops:
            wl = next((ast.unparse(l.test) for l in pt.loops if isinstance(l, ast.While)), None)
            if wl is not None and dotted(c.func.value) == wl:
                ext.append((pt, c))
    if not ext:
        raise AnalysisError("anchor vanished: stack.extend(...) in are_co_aligned")
    for pt, c in ext:
        arg = c.args[0]
        val = arg
        if isinstance(arg, ast.Name):
            ds = defs.reaching(arg.id, pt.stmt)
            val = ds[0].value if len(ds) == 1 else None
        whole = isinstance(val, ast.Call) and isinstance(val.func, ast.Attribute) and val.func.attr == "dependencies" and not val.args
        if not whole and val is not None:
            # list(e.dependencies()) / [*e.dependencies()] / unfiltered comprehension
            t = val
            if isinstance(t, ast.Call) and dotted(t.func) in ("list", "tuple") and len(t.args) == 1:
                t = t.args[0]
            # a filter on `.ndim` only repeats the scalar arm of the walk (scalars are skipped anyway)
            if isinstance(t, (ast.ListComp, ast.GeneratorExp)) and len(t.generators) == 1 and all(_ndim_only(i, t.generators[0].target) for i in t.generators[0].ifs) and isinstance(t.elt, ast.Name) and ast.unparse(t.elt) == ast.unparse(t.generators[0].target):
                t = t.generators[0].iter
            if isinstance(t, ast.Name):
                ds = defs.reaching(t.id, pt.stmt)
                t = ds[0].value if len(ds) == 1 and ds[0].value is not None else t
            whole = isinstance(t, ast.Call) and isinstance(t.func, ast.Attribute) and t.func.attr == "dependencies" and not t.args
        (ctx.ok if whole else ctx.bad)(
            "_expr.are_co_aligned:walk",
            mod.loc(c),
            "the walk follows every dependency" if whole else f"`{ast.unparse(c)[:140]}` follows only some of a node's dependencies: an input that is left out is never compared, so differently partitioned inputs are declared co-aligned",
        )
    # fall-through arm: anything that is not IO / scalar / partitionwise / delayed is an ancestor
    chain = [n for n in ast.walk(fn) if isinstance(n, ast.If) and pmatch("isinstance(V_e, IO)", n.test) is not None]
    if not chain:
        raise AnalysisError("anchor vanished: isinstance(e, IO) chain in are_co_aligned")
    node_var = one_local(fn, "V_stack.pop()", "the node popped from the work list in are_co_aligned")
    else_ok = io_ok = False
    for pt in flow.walk(fn):
        if not (isinstance(pt.stmt, ast.Expr) and pmatch(f"V_anc.append({node_var})", pt.stmt.value) is not None):
            continue
        facts = [(t_, pol) for t_, pol in flow.facts(pt)]
        isinst = [(t_, pol) for t_, pol in facts if pmatch(f"isinstance({node_var}, V_k)", t_) is not None]
        if any(pol and pmatch(f"isinstance({node_var}, IO)", t_) is not None for t_, pol in isinst):
            io_ok = True
            # a scalar source (persisted / re-imported scalar) must already have been skipped: scalars broadcast
            scalar_first = any((not pol) and pmatch(f"{node_var}.ndim == 0", t_) is not None for t_, pol in facts)
            (ctx.ok if scalar_first else ctx.bad)("_expr.are_co_aligned:scalar-sources", mod.loc(pt.stmt), "scalar sources are skipped before sources are recorded" if scalar_first else "a source is recorded as an ancestor before its dimensionality is looked at: a persisted or re-imported scalar (an IO node) makes an otherwise aligned operation look unaligned")
        # the arm for "none of the known kinds": every class test on the node is negative here
        if isinst and all(not pol for t_, pol in isinst) and any(pmatch(f"isinstance({node_var}, IO)", t_) is not None for t_, pol in isinst):
            else_ok = True
    (ctx.ok if else_ok and io_ok else ctx.bad)(
        "_expr.are_co_aligned:ancestors",
        mod.loc(chain[0]),
        "sources and every other non-partitionwise node are ancestors" if else_ok and io_ok else "a source / an unclassified node is no longer recorded as an ancestor: inputs that come from it are never found to differ",
    )
    # identity of an ancestor
    toks = [n for _, _, f in scope for n in ast.walk(f) if isinstance(n, ast.Call) and dotted(n.func) == "_tokenize_partial"]
    for t in toks:
        ign = set()
        if len(t.args) > 1:
            v = model.resolve_expr(mod, t.args[1]) if hasattr(model, "resolve_expr") else None
            if isinstance(t.args[1], (ast.List, ast.Tuple, ast.Set)):
                ign = {e.value for e in t.args[1].elts if isinstance(e, ast.Constant)}
                if len(ign) != len(t.args[1].elts):
                    ign.add("<non-literal>")
            else:
                ign = {"<non-literal>"}
        extra = ign - R02C_IGNORABLE
        (ctx.bad if extra else ctx.ok)(
            "_expr.are_co_aligned:identity",
            mod.loc(t),
            f"sources are compared ignoring {sorted(extra)}: reads that differ there (other rows / partitions) count as the same parent" if extra else f"sources compared up to {sorted(ign)}",
        )
    # verdict
    rets = [r for r in ast.walk(entry) if isinstance(r, ast.Return) and r.value is not None]
    vd = [ast.unparse(r.value).replace(" ", "") for r in rets]
    good = bool(rets) and all(pmatch("len(V_u) <= 1", r.value) is not None or pmatch("len(V_u) < 2", r.value) is not None for r in rets)
    (ctx.ok if good else ctx.bad)(
        "_expr.are_co_aligned:verdict",
        mod.loc(rets[0]) if rets else mod.loc(entry),
        "co-aligned iff at most one distinct ancestor" if good else f"verdict is `{vd}`: more than one distinct ancestor may not count as co-aligned",
    )
    ctx.floor("are_co_aligned obligations", len(ext) + len(toks) + 2, 4)


# ---------------------------------------------------------------------------------------------
# R02d
# ---------------------------------------------------------------------------------------------

_ALIGNING_CALLS = ("maybe_align_partitions(", "RepartitionDivisions(", "RearrangeByColumn(", "Repartition(")


@rule(
    "R02d",
    ["C02", "C13", "C06"],
    """THE ALIGNMENT STEP IS ONLY SKIPPED FOR INPUTS THAT ARE PARTITIONED ALIKE - in every aligning lowering: each `_lower` of the
    *Align family (MaybeAlignPartitions, OpAlignPartitions and heirs with their own _lower) that can return the plain operation on the
    UN-aligned inputs does so under a disjunction whose every disjunct is one of: a single frame-like input; equal AND known divisions
    (equal unknown divisions are tuples of None - they say nothing); a single partition on all sides. A bare `len(self.divisions) == 2`
    (one combined partition, but an input may have (0, 1, 1)) or equality without `known_divisions` pairs partitions by position.
    Each such lowering also needs the index-shuffle branch for unknown divisions. The divisions the node reports must be those of the
    inputs when nothing is aligned (calc_divisions_for_align: identical inputs are returned as they are, not de-duplicated).""",
)
def r02d(ctx):
    model = ctx.model
    base = model.cls("MaybeAlignPartitions")
    n = 0
    for c in model.subclasses(base):
        mem = c.members.get("_lower")
        if mem is None or mem.kind == "attr":
            continue
        fn = mem.node
        defs = flow.Defs(fn)
        shortcut = []
        for p in flow.returns(fn):
            v = p.stmt.value
            if v is None:
                continue
            chain_text = ast.unparse(v) + " " + " ".join(ast.unparse(x) for nm in names_in(v) for x in [d.value for d in defs.reaching(nm, p.stmt) if d.value is not None])
            if not any(k in chain_text for k in _ALIGNING_CALLS):
                shortcut.append(p)
        text = ast.unparse(fn)
        aligns = any(k in text for k in _ALIGNING_CALLS)
        if not shortcut:
            if aligns:
                n += 1
                ctx.ok(f"{c.qual}._lower:always-aligns", c.module.loc(fn), "every return goes through an aligning call")
            continue
        for p in shortcut:
            n += 1
            cid = f"{c.qual}._lower:shortcut"
            g = next((g for g, pol in reversed(p.guards) if pol), None)
            disj = list(g.values) if isinstance(g, ast.BoolOp) and isinstance(g.op, ast.Or) else ([g] if g is not None else [])
            bad = []
            for d in disj:
                try:
                    t = ast.unparse(defs.expand(d, at=p.stmt))
                except Exception:  # noqa: BLE001
                    t = ast.unparse(d)
                single_input = re.fullmatch(r"len\([\w\.]+\) == 1", t) is not None
                equal_known = ".divisions ==" in t and "known_divisions" in t
                one_partition = "npartitions == 1" in t
                if not (single_input or equal_known or one_partition):
                    bad.append(t)
            if not disj:
                ctx.bad(cid, c.module.loc(p.stmt), f"`{unparse(p.stmt)}` builds the plain operation on un-aligned inputs unconditionally")
            elif bad:
                ctx.bad(cid, c.module.loc(p.stmt), f"the alignment step is skipped under `{bad[0][:120]}`, which does not establish that the inputs are partitioned alike (equal unknown divisions are tuples of None; two combined division entries do not bound the inputs' partition counts): partitions are then paired by position - a + b on unrelated collections / da.sub(ds, axis=0) with (0, 1, 1) vs (0, 1) differ from pandas")
            else:
                ctx.ok(cid, c.module.loc(p.stmt), "alignment is skipped only for a single input, equal known divisions or single partitions")
        shuffle = "RearrangeByColumn(" in text
        cid = f"{c.qual}._lower:unknown-divisions-shuffle"
        (ctx.ok if shuffle else ctx.bad)(cid, c.module.loc(fn), "unknown divisions are aligned by an index shuffle" if shuffle else f"{c.qual}._lower has no index-shuffle branch: inputs with unknown divisions are repartitioned on divisions of None (TypeError) or paired by position")
    ctx.floor("aligning lowerings", n, 3)
    # reported divisions when nothing is aligned
    mod, fn = model.func("_expr", "calc_divisions_for_align")
    dedup = [x for x in ast.walk(fn) if isinstance(x, ast.Call) and dotted(x.func) in ("unique", "set", "sorted")]
    keeps = False
    for p in flow.returns(fn):
        if p.stmt.value is not None and any(pol and ".divisions ==" in ast.unparse(t) for t, pol in flow.facts(p)) and ".divisions" in ast.unparse(p.stmt.value):
            keeps = True
    cid = "_expr.calc_divisions_for_align:identical-inputs"
    if dedup and not keeps:
        ctx.bad(cid, mod.loc(fn), "the merged divisions are always de-duplicated, also when all inputs carry the SAME divisions with a repeated last entry (0, 2, 3, 4, 4): lowering leaves such inputs untouched (4 partitions) while the node advertises (0, 2, 3, 4) - partitions[-1] / tail() address the wrong partition")
    else:
        ctx.ok(cid, mod.loc(fn), "identical input divisions are reported unchanged")


@rule(
    "R02e",
    ["C02", "C06", "C09"],
    """set_index(sorted=True) REFUSES PARTITIONS THAT ARE NOT IN ORDER - both ends: `_compute_partition_stats` trusts the caller's claim
    that the data is sorted and only checks the per-partition summaries. Partitions are "sorted relative to each other" only if BOTH the
    minima AND the maxima of the non-empty partitions are non-decreasing; with the minima alone a partition nested inside its neighbour
    ([0..9], [3..5]) passes, its range gets divisions (0, 3, 5) and rows 6..9 sit in a partition whose divisions exclude them.""",
)
def r02e(ctx):
    model = ctx.model
    mod, fn = model.func("_collection", "_compute_partition_stats")
    tested = set()
    for i_ in (x for x in ast.walk(fn) if isinstance(x, ast.If) and any(isinstance(b, ast.Raise) for b in x.body)):
        for cmp_ in (x for x in ast.walk(i_.test) if isinstance(x, ast.Compare)):
            b = pmatch("sorted(V_x) != V_x", cmp_) or pmatch("V_x != sorted(V_x)", cmp_)
            if b:
                tested.add(b["V_x"])
    defs = flow.Defs(fn)
    kinds = set()
    for v in tested:
        texts = " ".join(ast.unparse(d.value) for d in defs.reaching(v, fn.body[-1]) if d.value is not None)
        if "mins" in texts or "min" in v:
            kinds.add("min")
        if "maxes" in texts or "max" in v:
            kinds.add("max")
    cid = "_collection._compute_partition_stats:both-ends-sorted"
    if kinds >= {"min", "max"}:
        ctx.ok(cid, mod.loc(fn), "unsorted minima OR unsorted maxima raise")
    else:
        ctx.bad(cid, mod.loc(fn), f"the 'partitions are not sorted' refusal tests only {sorted(kinds) or 'nothing'}: a partition whose range is nested in / interleaved with its neighbour's passes, set_index(sorted=True) publishes divisions built from the minima and rows above the next minimum lie outside their partition's divisions (loc and merges lose them)")
    # (b) one (min, max) pair per PARTITION unless overlaps are to be resolved: the caller builds divisions of length npartitions + 1 from
    # the mins; the summaries of the non-empty partitions only are shorter, so they may be returned only on the allow_overlap path (where
    # ResolveOverlappingDivisions re-partitions anyway)
    ao = next((a.arg for a in fn.args.args if "overlap" in a.arg), None)
    if ao is not None:
        for p in flow.returns(fn):
            v = p.stmt.value
            if not (isinstance(v, ast.Tuple) and v.elts):
                continue
            first = ast.unparse(defs.expand(v.elts[0], at=p.stmt))
            short = "non_empty" in ast.unparse(v.elts[0]) or " if " in first
            if not short:
                continue
            under = any(pol and ast.unparse(t) == ao for t, pol in flow.facts(p))
            cid2 = "_collection._compute_partition_stats:one-summary-per-partition"
            if under:
                ctx.ok(cid2, mod.loc(p.stmt), "the shortened summaries are returned only when overlaps are resolved afterwards")
            else:
                ctx.bad(cid2, mod.loc(p.stmt), f"`{unparse(p.stmt)}` returns the summaries of the NON-EMPTY partitions on a path where `{ao}` is not set: set_index(sorted=True) builds its divisions from them, so a frame with an empty partition gets fewer divisions than partitions - the node reports a partition count its layer does not define (missing keys / IndexError)")


@rule(
    "R02f",
    ["C02", "C17", "C01"],
    """AN ACCUMULATOR THAT IS EXTENDED IN A LOOP IS EXTENDED FROM ITSELF: several API methods build their result step by step
    (`result = self`; in a loop `result = new_collection(Op(result, ...))`). A step that builds on the ORIGINAL object instead
    (`Op(self, ...)`) silently discards everything the earlier iterations added - df.assign(a=..., b=<unaligned series>, ...) lost the
    columns assigned before the series. In a function where a local is initialised from `self` and rebound inside a loop, every
    rebinding inside the loop must mention that local.""",
)
def r02f(ctx):
    model = ctx.model
    n = 0
    for mod, cls, fn in _api_functions(model):
        inits = {}
        for st in fn.body:
            if isinstance(st, ast.Assign) and len(st.targets) == 1 and isinstance(st.targets[0], ast.Name) and ast.unparse(st.value) in ("self", "self.expr", "self._expr"):
                inits[st.targets[0].id] = st
        if not inits:
            continue
        for loop in (x for x in ast.walk(fn) if isinstance(x, (ast.For, ast.While))):
            for acc in inits:
                rebinds = [st for st in ast.walk(loop) if isinstance(st, ast.Assign) and any(isinstance(t, ast.Name) and t.id == acc for t in st.targets)]
                if len(rebinds) < 1:
                    continue
                fq = qual(cls, fn) if cls is not None else f"{mod.name.split('.', 1)[-1]}.{fn.name}"
                for k, st in enumerate(rebinds):
                    n += 1
                    cid = f"{fq}:accumulator:{acc}#{k}"
                    names = {x.id for x in ast.walk(st.value) if isinstance(x, ast.Name)}
                    if acc in names:
                        ctx.ok(cid, mod.loc(st), f"`{acc}` is extended from itself")
                    elif "self" in names:
                        ctx.bad(cid, mod.loc(st), f"`{unparse(st)[:100]}` rebuilds the accumulator `{acc}` from `self` inside the loop: whatever earlier iterations added to `{acc}` is discarded (columns assigned before this step disappear from the result)")
                    else:
                        ctx.ok(cid, mod.loc(st), f"`{acc}` is replaced by a value that does not restart from self")
    ctx.floor("accumulator rebindings in API loops", n, 3)


@rule(
    "R02g",
    ["C02", "C10"],
    """THE TOTAL OF A NORMALISED value_counts COUNTS THE ROWS THAT WERE COUNTED: with split_out > 1 the counts are normalised by a separately
    computed length. With dropna=True (the default) missing values are not counted, so the total must be the length of the series
    WITHOUT them; with dropna=False of the whole series. In Series.value_counts the value handed to `Len(...)` must be chosen by a
    conditional on `dropna` whose dropna-arm is `self.dropna()` and whose other arm is `self`; `Len(self)` alone, or the arms swapped,
    makes the frequencies of split_out=1 and split_out>1 differ whenever the series has missing values.""",
)
def r02g(ctx):
    model = ctx.model
    c = model.cls("Series", "_collection")
    fn = model.method(c, "value_counts", own=True).node
    defs = flow.Defs(fn)
    lens = [x for x in ast.walk(fn) if isinstance(x, ast.Call) and dotted(x.func) == "Len" and x.args]
    if not lens:
        raise AnalysisError("anchor vanished: the Len(...) total of Series.value_counts")
    for i, call in enumerate(lens):
        cid = f"_collection.Series.value_counts:normalisation-total#{i}"
        v = defs.expand(call.args[0], at=flow.point_of(fn, call).stmt)
        good = False
        if isinstance(v, ast.IfExp):
            test, body, orelse = v.test, ast.unparse(v.body), ast.unparse(v.orelse)
            neg = isinstance(test, ast.UnaryOp) and isinstance(test.op, ast.Not)
            subj = ast.unparse(test.operand if neg else test)
            if subj == "dropna":
                drop_arm, keep_arm = (orelse, body) if neg else (body, orelse)
                good = drop_arm == "self.dropna()" and keep_arm == "self"
        if good:
            ctx.ok(cid, c.module.loc(call), "the total follows `dropna`")
        else:
            ctx.bad(cid, c.module.loc(call), f"the normalisation total is `Len({ast.unparse(v)[:70]})`: it must be the length of `self.dropna()` when dropna is set and of `self` otherwise - as written, value_counts(normalize=True, split_out>1) divides by a total that includes (or excludes) the missing values the counts exclude (include), so the frequencies do not sum to 1 and differ from split_out=1")


@rule(
    "R02h",
    ["C02", "C09"],
    """THE SIDE WHOSE ROW IS PREFERRED IS THE SIDE THAT IS TESTED FOR EMPTINESS: merge_asof carries "the last row of the most recent
    non-empty partition" (and the first row of the next one) through prefix / suffix reductions with the combiners most_recent_tail /
    most_recent_head. Each returns ONE row of its preferred operand (`right.tail(1)` / `left.head(1)`) and falls back to the other
    operand exactly when the PREFERRED one is empty. Testing the other operand instead returns `preferred.head(1)` of an empty frame
    - no row - whenever a partition is empty, and the look-back / look-ahead row across an empty partition is lost.""",
)
def r02h(ctx):
    model = ctx.model
    n = 0
    for fname in ("most_recent_tail", "most_recent_head"):
        mod, fn = model.func("_merge_asof", fname)
        n += 1
        cid = f"_merge_asof.{fname}:fallback-tests-preferred-side"
        pref = None
        for p in flow.returns(fn):
            b = pmatch("V_x.tail(1)", p.stmt.value) or pmatch("V_x.head(1)", p.stmt.value) if p.stmt.value is not None else None
            if b:
                pref = b["V_x"]
        if pref is None:
            ctx.unclassified(cid, mod.loc(fn), "no `<operand>.head(1)` / `.tail(1)` return found")
            continue
        ok = False
        tested = None
        for p in flow.returns(fn):
            v = p.stmt.value
            if isinstance(v, ast.Name) and v.id != pref:
                for t, pol in flow.facts(p):
                    b = pmatch("len(V_y.index) == 0", t) or pmatch("len(V_y) == 0", t) or pmatch("V_y.empty", t)
                    if pol and b:
                        tested = b["V_y"]
                        ok = ok or tested == pref
        if ok:
            ctx.ok(cid, mod.loc(fn), f"falls back to the other operand when `{pref}` is empty")
        else:
            ctx.bad(cid, mod.loc(fn), f"{fname} prefers a row of `{pref}` but falls back after testing `{tested}` for emptiness: when `{pref}` is an empty partition the combiner returns `{pref}.head/tail(1)` - an empty frame - instead of the row carried so far, so merge_asof loses the nearest row across empty partitions")
    ctx.floor("asof combiners", n, 2)
