"""C09: task graphs closed, unambiguous, free of planner objects (per-layer structural clauses)."""
from __future__ import annotations

import ast

from sa import flow
from sa.model import AnalysisError, dotted, names_in, unparse
from sa.rules import LEVEL_TEXT, rule
from sa.rules.util import external_name, is_self_attr, iter_body_nodes, own_methods, qual, reads_of_self

LEVEL_TEXT["C09"] = (
    "Decides per-layer necessary conditions of C09: every expression that is not lowered away has a task provider; "
    "hand-written layers store their outputs under (self._name, position); every internal key namespace a layer "
    "references is defined by that layer; every internal key namespace is determined by at least the operands the "
    "tasks stored under it depend on (otherwise two expressions sharing a child put different tasks under one key); "
    "no task embeds the expression, an expression operand or a bound method. Undecided: closure / acyclicity of the "
    "assembled graph of a particular query."
)

ALL = "*all"


class LayerFacts:
    """Key stores / key references of one layer-building function."""

    def __init__(self, model, cls, fn):
        self.model, self.cls, self.fn = model, cls, fn
        self.defs = flow.Defs(fn)
        self.stores = []  # (key tuple node, value node, holder stmt/comp)
        self._collect()

    def _collect(self):
        for n in iter_body_nodes(self.fn):
            if isinstance(n, ast.Assign):
                for t in n.targets:
                    if isinstance(t, ast.Subscript) and isinstance(t.slice, ast.Tuple):
                        self.stores.append((t.slice, n.value, n))
                    elif isinstance(t, ast.Subscript) and isinstance(t.slice, ast.Name):
                        v = self.defs.single_value(t.slice.id, t)
                        if isinstance(v, ast.Tuple):
                            self.stores.append((v, n.value, n))
                        else:
                            self.stores.append((t.slice, n.value, n))
            elif isinstance(n, ast.DictComp) and isinstance(n.key, ast.Tuple):
                self.stores.append((n.key, n.value, n))
            elif isinstance(n, ast.Dict):
                for k, v in zip(n.keys, n.values):
                    if isinstance(k, ast.Tuple):
                        self.stores.append((k, v, n))
                    elif isinstance(k, ast.Name):
                        kv = self.defs.single_value(k.id, k)
                        self.stores.append((kv if isinstance(kv, ast.Tuple) else k, v, n))

    # -- prefix analysis -----------------------------------------------------------------
    def prefix_of(self, key):
        return key.elts[0] if isinstance(key, ast.Tuple) and key.elts else key

    def reads(self, node, at=None, depth=4, _seen=None):
        """operand parameters of self that evaluating node may depend on; ALL for self._name / uuid."""
        out = set()
        _seen = _seen if _seen is not None else set()
        at = at if at is not None else node
        for n in ast.walk(node):
            if is_self_attr(n, "_name") or is_self_attr(n, "operands"):
                out.add(ALL)
            if isinstance(n, ast.Call):
                ext = external_name(self.model, self.cls.module, n.func)
                if ext and ext.startswith("uuid."):
                    out.add(ALL)
            if isinstance(n, ast.Name) and isinstance(n.ctx, ast.Load) and n.id != "self" and depth > 0:
                for d in self.defs.reaching(n.id, at):
                    key = (n.id, id(d.stmt))
                    if key in _seen or d.value is None:
                        continue
                    _seen.add(key)
                    out |= self.reads(d.value, at=d.stmt if isinstance(d.stmt, ast.stmt) else at, depth=depth - 1, _seen=_seen)
        out |= {r for r in reads_of_self(self.model, self.cls, node, depth=3) if r != "*operands"}
        if "*operands" in reads_of_self(self.model, self.cls, node, depth=3):
            out.add(ALL)
        return out

    def control_reads(self, holder):
        """reads of loop iterables / branch conditions that control a store"""
        out = set()
        n = holder
        while n is not None and n is not self.fn:
            p = getattr(n, "_parent", None)
            if isinstance(p, (ast.For, ast.AsyncFor)):
                out |= self.reads(p.iter, at=p)
            elif isinstance(p, ast.While):
                out |= self.reads(p.test, at=p)
            elif isinstance(p, ast.If):
                out |= self.reads(p.test, at=p)
            elif isinstance(p, (ast.DictComp, ast.ListComp)):
                for g in p.generators:
                    out |= self.reads(g.iter, at=holder if isinstance(holder, ast.stmt) else p)
            n = p
        if isinstance(holder, ast.DictComp):
            for g in holder.generators:
                out |= self.reads(g.iter, at=holder)
                for c in g.ifs:
                    out |= self.reads(c, at=holder)
        return out

    def is_self_name(self, node, depth=0):
        if is_self_attr(node, "_name"):
            return True
        if isinstance(node, ast.Name) and depth < 3:
            ds = [d for d in self.defs.reaching(node.id, node) if d.value is not None]
            return bool(ds) and any(self.is_self_name(d.value, depth + 1) for d in ds)
        return False

    def is_dependency_name(self, node, depth=0):
        """X._name for X != self (a child's name), or a local that may hold one."""
        if isinstance(node, ast.Attribute) and node.attr == "_name" and not (isinstance(node.value, ast.Name) and node.value.id == "self"):
            return True
        if isinstance(node, ast.Name) and depth < 3:
            ds = [d for d in self.defs.reaching(node.id, node) if d.value is not None]
            return any(self.is_dependency_name(d.value, depth + 1) for d in ds)
        return False


def _layer_functions(model):
    """(class, fn) for hand-written layer builders: own _layer plus cached helper properties they return."""
    out = []
    for c, m in own_methods(model, "_layer"):
        if c is model.core_expr:
            continue
        fn = m.node
        if all(isinstance(s, (ast.Raise, ast.Expr, ast.Pass)) for s in fn.body):
            continue
        out.append((c, fn))
        # helper: `return self._layer_information[0]`
        for r in ast.walk(fn):
            if isinstance(r, ast.Return) and r.value is not None:
                for a in ast.walk(r.value):
                    if is_self_attr(a):
                        mem = c.provider(a.attr)
                        if mem is not None and mem.kind in ("cached_property", "property") and any(isinstance(x, (ast.Dict, ast.DictComp)) or (isinstance(x, ast.Subscript) and isinstance(x.ctx, ast.Store)) for x in ast.walk(mem.node)):
                            out.append((mem.cls, mem.node))
    seen, uniq = set(), []
    for c, fn in out:
        if id(fn) not in seen:
            seen.add(id(fn))
            uniq.append((c, fn))
    return uniq


# layer -> reason its outputs are not spelled (self._name, i) in the function
R09B_EXCEPTIONS = {
    "_expr._DelayedExpr._layer": "output key is (self.obj.key, 0) and _name IS self.obj.key (checked: same expression)",
    "io.io.FromGraph._layer": "stores (self._name, part) aliases into a copy of the imported graph",
}


@rule(
    "R09b",
    ["C09", "C17"],
    """OUTPUT KEYS: every hand-written _layer stores at least one key whose namespace is self._name (the keys
    __dask_keys__ reports) and the stored output keys have the shape (self._name, index...). For _DelayedExpr the
    stored namespace must be the very expression its _name returns.""",
)
def r09b(ctx):
    model = ctx.model
    layers = [(c, fn) for c, fn in _layer_functions(model) if fn.name == "_layer"]
    ctx.floor("hand-written layers", len(layers), 28)
    for c, fn in layers:
        cid = qual(c, fn)
        lf = LayerFacts(model, c, fn)
        if any(lf.is_self_name(lf.prefix_of(k)) for k, v, h in lf.stores):
            ctx.ok(cid, c.module.loc(fn), "stores (self._name, ...)")
            continue
        if c.name == "_DelayedExpr":
            nm = model.method(c, "_name", own=True).node
            rets = [unparse(r.value) for r in ast.walk(nm) if isinstance(r, ast.Return) and r.value is not None]
            pref = {unparse(lf.prefix_of(k)) for k, v, h in lf.stores}
            if rets and all(r in pref for r in rets):
                ctx.exempt(cid, c.module.loc(fn), R09B_EXCEPTIONS[cid])
            else:
                ctx.bad(cid, c.module.loc(fn), f"_name returns `{rets}` but the layer stores its output under `{sorted(pref)}`: consumers reference (self._name, 0), which this layer never defines")
            continue
        # delegating layers: return super()._layer() / toolz.merge of helper dicts / helper property
        txt = unparse(fn)
        if "super()._layer()" in txt and not lf.stores:
            ctx.ok(cid, c.module.loc(fn), "delegates to super()._layer()")
            continue
        helper = [a.attr for a in ast.walk(fn) if is_self_attr(a) and c.provider(a.attr) is not None and c.provider(a.attr).kind in ("cached_property", "property")]
        if any(any(LayerFacts(model, c, c.provider(h).node).is_self_name(LayerFacts(model, c, c.provider(h).node).prefix_of(k)) for k, v, hh in LayerFacts(model, c, c.provider(h).node).stores) for h in helper if isinstance(c.provider(h).node, ast.FunctionDef)):
            ctx.ok(cid, c.module.loc(fn), "outputs stored by a helper property under self._name")
            continue
        if _helper_stores_under_self_name(model, c, fn, lf):
            ctx.ok(cid, c.module.loc(fn), "outputs stored by a helper function under the namespace self._name it is handed")
            continue
        if cid in R09B_EXCEPTIONS:
            ctx.exempt(cid, c.module.loc(fn), R09B_EXCEPTIONS[cid])
            continue
        ctx.bad(cid, c.module.loc(fn), "no key under the namespace self._name is stored by this layer: the keys reported by __dask_keys__ are undefined")


def _helper_stores_under_self_name(model, c, fn, lf):
    """the layer calls a package function with self._name (or a local holding it) as an argument, and that function stores
    keys whose namespace is the corresponding parameter"""
    from sa.rules.util import callee

    for call in (x for x in iter_body_nodes(fn) if isinstance(x, ast.Call)):
        t = callee(model, c.module, c, call)
        if t is None:
            continue
        hmod, hcls, hfn = t
        names = [a.arg for a in hfn.args.posonlyargs + hfn.args.args]
        if names and names[0] in ("self", "cls"):
            names = names[1:]
        bound = {}
        for i, a in enumerate(call.args):
            if isinstance(a, ast.Starred):
                break
            if i < len(names):
                bound[names[i]] = a
        for kw in call.keywords:
            if kw.arg:
                bound[kw.arg] = kw.value
        ns_params = {p for p, a in bound.items() if lf.is_self_name(a)}
        if not ns_params:
            continue
        hf = LayerFacts(model, hcls if hcls is not None else c, hfn)
        for k, v, h in hf.stores:
            pre = hf.prefix_of(k)
            if isinstance(pre, ast.Name) and pre.id in ns_params:
                return True
    return False


# (layer function, prefix text) -> reason
R09D_EXCEPTIONS = {}


@rule(
    "R09d",
    ["C09", "C08", "C13", "C12"],
    """KEY NAMESPACE DETERMINES ITS TASKS: for every key a layer stores under a namespace other than self._name, the set
    of operands the namespace expression depends on (self._name and a fresh uuid count as 'everything') must cover the
    operands the stored task and the loops / branches around the store depend on. A namespace built only from a
    child's name (or a constant) while its tasks depend on further operands of self makes two expressions over the
    same child define different tasks under one key.""",
)
def r09d(ctx):
    model = ctx.model
    fns = _layer_functions(model)
    n = 0
    for c, fn in fns:
        lf = LayerFacts(model, c, fn)
        by_prefix = {}
        for k, v, h in lf.stores:
            p = lf.prefix_of(k)
            if lf.is_self_name(p):
                continue
            by_prefix.setdefault(unparse(p), []).append((p, k, v, h))
        for ptxt, items in sorted(by_prefix.items()):
            n += 1
            cid = f"{qual(c, fn)}:namespace:{ptxt}"
            D, T = set(), set()
            for p, k, v, h in items:
                D |= lf.reads(p, at=h if isinstance(h, ast.stmt) else p)
                T |= lf.reads(v, at=h if isinstance(h, ast.stmt) else v)
                for e in k.elts[1:] if isinstance(k, ast.Tuple) else []:
                    T |= lf.reads(e, at=h if isinstance(h, ast.stmt) else e)
                T |= lf.control_reads(h)
            loc = c.module.loc(items[0][3])
            if ALL in D:
                ctx.ok(cid, loc, "namespace derives from self._name / a fresh token")
                continue
            T.discard(ALL)
            missing = sorted(T - D)
            if not missing:
                ctx.ok(cid, loc, f"namespace depends on {sorted(D)}, tasks on {sorted(T)}")
            elif (qual(c, fn), ptxt) in R09D_EXCEPTIONS:
                ctx.exempt(cid, loc, R09D_EXCEPTIONS[(qual(c, fn), ptxt)])
            else:
                ctx.bad(
                    cid,
                    loc,
                    f"key namespace `{ptxt}` is determined by {sorted(D) or 'constants'} only, but the tasks stored under it also depend on "
                    f"{missing}: two {c.name} expressions that differ in {missing} over the same input define different tasks under the same key",
                )
        # namespaces handed to a helper whose result is merged into the layer: name must cover the helper's other arguments
        local_prefixes = {d.name for d in lf.defs.all if d.value is not None and d.kind == "assign" and _is_string_build(d.value)}
        for call in (x for x in iter_body_nodes(fn) if isinstance(x, ast.Call)):
            if is_self_attr(call.func) or not isinstance(call.func, (ast.Name, ast.Attribute)):
                continue
            ns_args = [a for a in call.args if isinstance(a, ast.Name) and a.id in local_prefixes]
            if not ns_args:
                continue
            for a in ns_args:
                n += 1
                cid = f"{qual(c, fn)}:namespace-arg:{a.id}->{dotted(call.func)}"
                D = lf.reads(a, at=call)
                T = set()
                for o in list(call.args) + [k.value for k in call.keywords]:
                    if o is not a:
                        T |= lf.reads(o, at=call)
                T.discard(ALL)
                loc = c.module.loc(call)
                if ALL in D or not (T - D):
                    ctx.ok(cid, loc, "namespace covers the helper's other arguments")
                else:
                    ctx.bad(cid, loc, f"namespace `{a.id}` (determined by {sorted(D) or 'constants'}) is handed to {dotted(call.func)}(...) together with arguments depending on {sorted(T - D)}: the helper's tasks differ between expressions that share {sorted(D)} but are stored under the same keys")
    ctx.floor("internal key namespaces", n, 15)


@rule(
    "R09c",
    ["C09"],
    """INTERNAL KEY CLOSURE: every key tuple a layer places inside a task whose namespace is a local string built by
    this layer (not a dependency's _name) must use a namespace that the same layer also stores keys under.""",
)
def r09c(ctx):
    model = ctx.model
    n = 0
    for c, fn in _layer_functions(model):
        lf = LayerFacts(model, c, fn)
        stored = {unparse(lf.prefix_of(k)) for k, v, h in lf.stores}
        stored_self = any(lf.is_self_name(lf.prefix_of(k)) for k, v, h in lf.stores)
        local_prefix_names = set()
        for d in lf.defs.all:
            if d.value is not None and d.kind == "assign" and _is_string_build(d.value):
                local_prefix_names.add(d.name)
        problems = []
        for k, v, h in lf.stores:
            for t in ast.walk(v):
                if isinstance(t, ast.Tuple) and t.elts and isinstance(t.elts[0], ast.Name) and isinstance(t.elts[0].ctx, ast.Load):
                    nm = t.elts[0].id
                    if nm in local_prefix_names and len(t.elts) >= 2:
                        n += 1
                        if nm in stored or (stored_self and lf.is_self_name(t.elts[0])):
                            continue
                        if lf.is_dependency_name(t.elts[0]):
                            continue
                        problems.append((t, nm))
        cid = f"{qual(c, fn)}:closure"
        if problems:
            t, nm = problems[0]
            ctx.bad(cid, c.module.loc(t), f"task references key `{unparse(t)}` but this layer never stores a key under namespace `{nm}`: the graph has a dangling reference")
        else:
            ctx.ok(cid, c.module.loc(fn), f"namespaces stored: {sorted(stored)}")
    ctx.floor("internal key references", n, 10)


def _is_string_build(v):
    if isinstance(v, ast.JoinedStr):
        return True
    if isinstance(v, ast.BinOp) and isinstance(v.op, ast.Add):
        return any(isinstance(x, ast.Constant) and isinstance(x.value, str) for x in (v.left, v.right)) or _is_string_build(v.left)
    return False


EXPR_PARAM_NAMES = {"frame", "left", "right", "other", "_expr", "previous_partitions", "cum_raw", "cum_last"}


@rule(
    "R09e",
    ["C09", "C05"],
    """NO PLANNER OBJECT IN A TASK: in _layer / _task / _filtered_task no task element is `self`, an expression operand
    itself (self.frame, self.left ...: only its ._name may appear), or `self.m` where m resolves to a plain instance
    method (a bound method embeds the expression; staticmethods / classmethods / operands are fine).""",
)
def r09e(ctx):
    model = ctx.model
    n = 0
    for mname in ("_layer", "_task", "_filtered_task"):
        for c, m in own_methods(model, mname):
            fn = m.node
            n += 1
            problems = []
            for t in iter_body_nodes(fn):
                if not isinstance(t, (ast.Tuple, ast.List)) or not isinstance(getattr(t, "ctx", None), ast.Load):
                    continue
                if not _looks_like_task(t, fn):
                    continue
                for e in t.elts:
                    if isinstance(e, ast.Name) and e.id == "self":
                        problems.append((e, "`self` is an element of a task"))
                    elif is_self_attr(e):
                        kind, mem = model.attr_kind(c, e.attr)
                        if kind == "func":
                            problems.append((e, f"bound method self.{e.attr} (a plain instance method of {mem.cls.qual}) is an element of a task: the task embeds the expression object"))
                        elif kind == "operand" and e.attr in EXPR_PARAM_NAMES:
                            problems.append((e, f"expression operand self.{e.attr} itself (not its key) is an element of a task"))
            cid = qual(c, fn)
            if problems:
                e, what = problems[0]
                ctx.bad(cid, c.module.loc(e), what + "; the graph cannot be serialized for remote execution and keeps the planner alive")
            else:
                ctx.ok(cid, c.module.loc(fn))
    ctx.floor("task builders", n, 60)


def _looks_like_task(t, fn):
    """a tuple/list that is (part of) a value stored in a layer or returned by a task builder"""
    p = t
    while p is not None and p is not fn:
        par = getattr(p, "_parent", None)
        if isinstance(par, ast.Return):
            return True
        if isinstance(par, ast.Assign) and any(isinstance(tg, ast.Subscript) for tg in par.targets):
            return True
        if isinstance(par, ast.Assign):
            return False
        if isinstance(par, (ast.DictComp,)) and par.value is p:
            return True
        if isinstance(par, ast.Dict) and any(p is v for v in par.values):
            return True
        if isinstance(par, ast.Subscript) and par.slice is p:
            return False
        if isinstance(par, ast.stmt):
            return False
        p = par
    return False


@rule(
    "R09a",
    ["C09", "C14"],
    """TASK PROVIDER: every expression class that is not rewritten away by its own _lower resolves _task or _layer (through
    the MRO) to an implementation other than the abstract defaults (core Expr._task raising NotImplementedError, or a
    body that only raises); Blockwise classes in particular must resolve _task to a total provider.""",
)
def r09a(ctx):
    model = ctx.model
    core = model.core_expr
    n = 0
    from sa.rules.r11 import _lowering_is_nontrivial_for

    bw = model.cls("Blockwise")
    for c in model.expr_classes():
        if c.module.name.endswith("_core"):
            continue
        n += 1
        cid = f"{c.qual}:task-provider"
        lowered = _lowering_is_nontrivial_for(model, c)
        ly = c.provider("_layer")
        tk = c.provider("_task")
        layer_ok = ly is not None and ly.cls is not core and not _only_raises(ly.node)
        task_ok = tk is not None and tk.cls is not core and not _only_raises(tk.node)
        if tk is not None and tk.cls.name == "PartitionsFiltered":
            ft = c.provider("_filtered_task")
            task_ok = ft is not None and ft.cls.name != "PartitionsFiltered" and not _only_raises(ft.node)
        abstract = bool(model.subclasses(c, strict=True)) and not layer_ok and not task_ok
        if layer_ok or task_ok:
            ctx.ok(cid, c.loc, "layer" if layer_ok else f"task via {tk.cls.qual}")
        elif lowered:
            ctx.ok(cid, c.loc, "rewritten by its own _lower before graph generation")
        elif abstract or c.name in ("Expr", "IO", "PartitionsFiltered", "MaybeAlignPartitions"):
            ctx.exempt(cid, c.loc, "abstract base class (has subclasses, never instantiated as a graph node)")
        elif c in model.subclasses(bw):
            ctx.bad(cid, c.loc, f"Blockwise class {c.qual} resolves _task to {tk.cls.qual if tk else None}, which only raises: fusion and graph generation fail for it")
        else:
            ctx.bad(cid, c.loc, f"{c.qual} is not lowered away and has neither a _task nor a _layer implementation (resolves to {tk.cls.qual if tk else None}._task / {ly.cls.qual if ly else None}._layer)")
    ctx.floor("expression classes", n, 300)


def _only_raises(fn):
    body = [s for s in fn.body if not (isinstance(s, ast.Expr) and isinstance(s.value, ast.Constant))]
    return bool(body) and all(isinstance(s, ast.Raise) for s in body)


@rule(
    "R09f",
    ["C09", "C05"],
    """LAZY VALUES BECOME OPERANDS, ALSO BY KEYWORD: the user-function entry points (map_partitions, map_overlap) copy their
    **kwargs into the kwargs dict of every task. Positional arguments become operands of the expression (collections are
    unpacked, their graphs merged); a collection passed by keyword must be lifted the same way or refused - otherwise every
    task embeds the collection object itself and the graph loses the dependency on the computation that produces it.""",
)
def r09f(ctx):
    model = ctx.model
    n = 0
    for fname in ("map_partitions", "map_overlap"):
        mod, fn = model.func("_collection", fname)
        ctor = [c for c in ast.walk(fn) if isinstance(c, ast.Call) and (dotted(c.func) or "").split(".")[-1] in ("MapPartitions", "MapOverlap", "MapOverlapAlign")]
        if not ctor:
            raise AnalysisError(f"anchor vanished: expression construction in {fname}")
        kw = fn.args.kwarg.arg if fn.args.kwarg else None
        if kw is None:
            continue
        forwards = [c for c in ctor if any(isinstance(a, ast.Name) and a.id == kw for a in list(c.args) + [k.value for k in c.keywords])]
        if not forwards:
            continue
        n += 1
        # a test of the keyword VALUES for collections anywhere before the construction
        handled = False
        for node in ast.walk(fn):
            if isinstance(node, ast.Call) and isinstance(node.func, ast.Name) and node.func.id == "isinstance" and len(node.args) == 2:
                kinds = {dotted(e) for e in (node.args[1].elts if isinstance(node.args[1], ast.Tuple) else [node.args[1]])}
                if kinds & {"FrameBase", "Scalar", "Expr", "expr.Expr", "Delayed"}:
                    # the tested value must come from the kwargs dict
                    holder = node
                    while holder is not None and not isinstance(holder, (ast.stmt, ast.comprehension, ast.DictComp, ast.ListComp, ast.GeneratorExp)):
                        holder = getattr(holder, "_parent", None)
                    scope = holder
                    while scope is not None and not isinstance(scope, ast.stmt):
                        scope = getattr(scope, "_parent", None)
                    if scope is not None and f"{kw}." in ast.unparse(scope):
                        handled = True
        cid = f"_collection.{fname}:lazy-kwargs"
        if handled:
            ctx.ok(cid, mod.loc(forwards[0]), "keyword values are inspected for collections")
        else:
            ctx.bad(cid, mod.loc(forwards[0]), f"{fname} hands **{kw} to the expression without looking at the values: a Scalar / collection passed by keyword is copied into every task as an object instead of becoming an operand")
    ctx.floor("user-function entry points forwarding **kwargs", n, 2)


@rule(
    "R09g",
    ["C09", "C02"],
    """THE LEAVES OF A HAND-BUILT REDUCTION TREE ARE DEFINED WITHOUT A GAP: prefix_reduction / suffix_reduction (merge_asof) pad the n
    partition leaves to the next power of two N. The leaf keys `(name, i, 1, 0)` are written by two consecutive loops - `range(n)` for the
    data and `range(<start>, N)` for the identity padding - and the inner levels read every leaf 0..N-1. The padding must start exactly
    where the data stops (`<start>` is the data loop's bound); `range(n + 1, N)` leaves leaf n undefined and the graph refers to a key
    nobody produces (KeyError at compute time whenever n is not a power of two).""",
)
def r09g(ctx):
    model = ctx.model
    n = 0
    for fname in ("prefix_reduction", "suffix_reduction"):
        mod, fn = model.func("_merge_asof", fname)
        loops = [st for st in fn.body if isinstance(st, ast.For) and isinstance(st.iter, ast.Call) and dotted(st.iter.func) == "range" and any(isinstance(w, ast.Assign) and isinstance(w.targets[0], ast.Subscript) and ast.unparse(w.targets[0].slice).endswith(", 1, 0)") for w in st.body)]
        if len(loops) < 2:
            raise AnalysisError(f"anchor vanished: the two leaf loops of {fname}")
        data, pad = loops[0], loops[1]
        n += 1
        cid = f"_merge_asof.{fname}:leaves-contiguous"
        stop = ast.unparse(data.iter.args[-1]) if len(data.iter.args) in (1, 2) else None
        start = ast.unparse(pad.iter.args[0]) if len(pad.iter.args) == 2 else "0"
        if stop is not None and start == stop and (len(data.iter.args) == 1 or ast.unparse(data.iter.args[0]) == "0"):
            ctx.ok(cid, mod.loc(pad), f"data leaves range({stop}), padding range({start}, ...)")
        else:
            ctx.bad(cid, mod.loc(pad), f"the data leaves are written for `{ast.unparse(data.iter)}` and the padding for `{ast.unparse(pad.iter)}`: the two ranges do not meet, so a leaf key `(name, i, 1, 0)` that the next level reads is never defined (or defined twice) - merge_asof on a partition count that is not a power of two fails with a missing key / combines the wrong suffix")
    ctx.floor("hand-built reduction trees", n, 2)
