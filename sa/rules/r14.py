"""C14: blockwise fusion only changes task granularity - structural clauses about Fused."""
from __future__ import annotations

import ast
import re

from sa import flow
from sa.model import AnalysisError, dotted, names_in, unparse
from sa.rules import LEVEL_TEXT, rule
from sa.rules.util import callee, closure_functions, is_self_attr, iter_body_nodes, locals_defined_by, one_local, pfind, pmatch

LEVEL_TEXT["C14"] = (
    "Decides structural necessary conditions of C14: every Blockwise class resolves _task to a total provider; Fused takes "
    "its schema and divisions from the top-most member; its broadcast rule is 'every single-partition dependency' (the "
    "rule all members were grouped under); in Fused._task the members' tasks are written in group order and the "
    "positional placeholders of the external dependencies are written LAST, so a nested group's own placeholder "
    "numbering can never shadow the outer one; the argument tuple lists the dependencies in the same order as the "
    "placeholders; classes whose tasks are not partitionwise are kept out of the partition push-down (R11b). "
    "Undecided: per-partition content equality."
)


@rule(
    "R14c",
    ["C14", "C09"],
    """FUSED SUB-GRAPH DISCIPLINE: Fused._meta/_divisions come from self.exprs[0]; Fused._broadcast_dep is exactly
    `dep.npartitions == 1`; in Fused._task (a) the output alias self._name -> (exprs[0]._name, index) is created,
    (b) the member loop iterates self.exprs in order (not reversed / sorted), handles nested Fused members by merging
    their sub-graph and aliasing (name, index), and broadcast members under index 0, (c) every statement that binds a
    dependency key to a "_<i>" placeholder comes AFTER the member loop (later dict writes win), (d) the placeholders
    and the trailing argument tuple enumerate self.dependencies() in the same order through self._blockwise_arg.""",
)
def r14c(ctx):
    model = ctx.model
    fused = model.cls("Fused")
    mod = fused.module
    for attr, want in (("_meta", "self.exprs[0]._meta"), ("_divisions", "self.exprs[0]._divisions()")):
        fn = model.method(fused, attr, own=True).node
        rets = [unparse(r.value) for r in ast.walk(fn) if isinstance(r, ast.Return) and r.value is not None]
        good = rets == [want]
        (ctx.ok if good else ctx.bad)(f"_expr.Fused.{attr}", mod.loc(fn), want if good else f"Fused.{attr} returns {rets}, not {want}: the fused node no longer mirrors its top-most member")
    bd = model.method(fused, "_broadcast_dep", own=True).node
    arg = bd.args.args[1].arg
    rets = [unparse(r.value) for r in ast.walk(bd) if isinstance(r, ast.Return) and r.value is not None]
    good = rets == [f"{arg}.npartitions == 1"]
    (ctx.ok if good else ctx.bad)(
        "_expr.Fused._broadcast_dep",
        mod.loc(bd),
        "every single-partition dependency is broadcast" if good else f"Fused._broadcast_dep returns {rets}: the group and the member that consumes a single-partition input can disagree on its key ((name, 0) vs (name, index))",
    )

    task = model.method(fused, "_task", own=True).node
    idx = task.args.args[1].arg
    stmts = list(task.body)
    # (b) member loop
    tdefs = flow.Defs(task)
    loops = [s for s in stmts if isinstance(s, ast.For) and "exprs" in ast.unparse(tdefs.expand(s.iter, at=s))]
    if not loops:
        raise AnalysisError("anchor vanished: member loop of Fused._task")
    loop = loops[0]
    it = unparse(tdefs.expand(loop.iter, at=loop))
    # Once the nested group's placeholder bindings are filtered out of the merge (clause nested-placeholders below) no two
    # writes into the sub-graph can disagree, so neither the member order nor the position of the placeholder bindings matters;
    # without the filter both do (later dict writes win).
    _ups = [n for n in ast.walk(loop) if isinstance(n, ast.Call) and isinstance(n.func, ast.Attribute) and n.func.attr == "update" and n.args]

    def _is_filtered(u):
        a0 = tdefs.expand(u.args[0], at=flow.point_of(task, u).stmt)
        return (isinstance(a0, ast.DictComp) and any(g.ifs for g in a0.generators)) or (isinstance(a0, ast.Call) and not (isinstance(a0.func, ast.Attribute) and a0.func.attr == "_task"))

    order_free = bool(_ups) and all(_is_filtered(u) for u in _ups)
    order_src = it.replace("reversed(", "").replace("sorted(", "").replace("list(", "").rstrip(")")
    if order_free and order_src == "self.exprs":
        it = "self.exprs"
    (ctx.ok if it == "self.exprs" else ctx.bad)(
        "_expr.Fused._task:member-order",
        mod.loc(loop),
        "members are written in group order (root first)" if it == "self.exprs" else f"member loop iterates `{it}`, not self.exprs in order: with nested groups a later dict write overrides an earlier one, so the entry that must win (the outer member's task) can be replaced by a nested group's placeholder",
    )
    v = loop.target.id if isinstance(loop.target, ast.Name) else None
    calls = [n for n in ast.walk(loop) if isinstance(n, ast.Call) and isinstance(n.func, ast.Attribute) and n.func.attr == "_task" and isinstance(n.func.value, ast.Name) and n.func.value.id == v]
    def _guarded(call, needle):
        p = flow.point_of(task, call)
        return p is not None and any(needle in ast.unparse(t) for t, pol in flow.facts(p) if pol)
    nested_ok = any(_guarded(c, f"isinstance({v}, Fused)") for c in calls) and any(isinstance(n, ast.Call) and isinstance(n.func, ast.Attribute) and n.func.attr == "update" for n in ast.walk(loop))
    bcast_ok = any(len(c.args) == 1 and isinstance(c.args[0], ast.Constant) and c.args[0].value == 0 and _guarded(c, f"_broadcast_dep({v})") for c in calls)
    norm_ok = any(len(c.args) == 1 and ast.unparse(c.args[0]) == idx and not _guarded(c, f"_broadcast_dep({v})") for c in calls)
    (ctx.ok if nested_ok else ctx.bad)("_expr.Fused._task:nested", mod.loc(loop), "nested groups are merged and aliased" if nested_ok else "nested Fused members are no longer merged via graph.update(subgraph)")
    # nested group that is a broadcast input: expanded at index 0, like every other broadcast member
    for c in (c for c in calls if _guarded(c, f"isinstance({v}, Fused)")):
        st_ = flow.point_of(task, c).stmt
        a0 = tdefs.expand(c.args[0], at=st_) if c.args else None
        cond = isinstance(a0, ast.IfExp) and f"_broadcast_dep({v})" in ast.unparse(a0.test) and ast.unparse(a0.body) == "0" and ast.unparse(a0.orelse) == idx
        split = _guarded(c, f"_broadcast_dep({v})") and ast.unparse(a0) == "0"
        if cond or split or any(_guarded(c2, f"isinstance({v}, Fused)") and _guarded(c2, f"_broadcast_dep({v})") for c2 in calls):
            ctx.ok("_expr.Fused._task:nested-broadcast", mod.loc(c), "a nested group that is broadcast is expanded and published at index 0")
        else:
            ctx.bad("_expr.Fused._task:nested-broadcast", mod.loc(c), f"a nested Fused member is expanded with `{unparse(c)}` whatever its partition count: a single-partition nested group (an optimized lookup frame used as broadcast operand) is published under (name, {idx}) while its consumers ask for (name, 0) - partitions 1.. read the wrong frame or a raw key tuple")
    # the nested group's own input placeholders must not be merged: they number ITS dependency list
    ups = [n for n in ast.walk(loop) if isinstance(n, ast.Call) and isinstance(n.func, ast.Attribute) and n.func.attr == "update" and n.args]
    for u in ups:
        a0 = tdefs.expand(u.args[0], at=flow.point_of(task, u).stmt)
        filtered = isinstance(a0, ast.DictComp) and any(g.ifs for g in a0.generators) or (isinstance(a0, ast.Call) and not (isinstance(a0.func, ast.Attribute) and a0.func.attr == "_task"))
        if filtered:
            ctx.ok("_expr.Fused._task:nested-placeholders", mod.loc(u), "the nested group's placeholder bindings are filtered out before the merge")
        else:
            ctx.bad("_expr.Fused._task:nested-placeholders", mod.loc(u), f"`{unparse(u)}` merges the nested group's sub-graph including its input placeholders, which are numbered for the NESTED dependency list: they overwrite the task of an outer member written earlier (a shared single-partition node), so the nested group reads another input of the outer group")
    (ctx.ok if bcast_ok else ctx.bad)("_expr.Fused._task:broadcast-member", mod.loc(loop), "broadcast members are defined once under index 0" if bcast_ok else "broadcast members are no longer defined under (name, 0) via _task(0)")
    (ctx.ok if norm_ok else ctx.bad)("_expr.Fused._task:member-task", mod.loc(loop), "member task stored under (member name, index)" if norm_ok else "ordinary members are not stored as graph[(member._name, index)] = member._task(index)")
    # (a) alias
    alias = False
    for st in stmts:
        for n in ast.walk(st):
            if isinstance(n, ast.Dict):
                pairs = [(ast.unparse(tdefs.expand(k, at=st)), ast.unparse(tdefs.expand(v_, at=st))) for k, v_ in zip(n.keys, n.values) if k is not None]
            elif isinstance(n, ast.Assign) and len(n.targets) == 1 and isinstance(n.targets[0], ast.Subscript):
                pairs = [(ast.unparse(tdefs.expand(n.targets[0].slice, at=st)), ast.unparse(tdefs.expand(n.value, at=st)))]
            else:
                continue
            alias = alias or any(k == "self._name" and v_ == f"(self.exprs[0]._name, {idx})" for k, v_ in pairs)
    (ctx.ok if alias else ctx.bad)("_expr.Fused._task:output-alias", mod.loc(task), "self._name aliases the top member's key" if alias else "the fused sub-graph no longer aliases self._name to (self.exprs[0]._name, index)")
    # the placeholder form is defined by the READER: Fused._execute_task binds graph[<placeholder(i)>] for the i-th input
    ex = model.method(fused, "_execute_task", own=True).node
    a = [x.arg for x in ex.args.args]
    va = ex.args.vararg.arg if ex.args.vararg else None
    stores = []
    for n in ast.walk(ex):
        if isinstance(n, ast.For) and va is not None and f"enumerate({va})" in ast.unparse(n.iter) and isinstance(n.target, ast.Tuple) and len(n.target.elts) == 2:
            iv, dv = (ast.unparse(e) for e in n.target.elts)
            for x in ast.walk(n):
                if isinstance(x, ast.Assign) and len(x.targets) == 1 and isinstance(x.targets[0], ast.Subscript) and ast.unparse(x.targets[0].value) == a[0]:
                    stores.append((iv, dv, x))
    if not stores:
        raise AnalysisError("anchor vanished: Fused._execute_task no longer binds graph[<placeholder>] for each positional input")
    templates = {re.sub(rf"\b{re.escape(iv)}\b", "V_i", ast.unparse(x.targets[0].slice)) for iv, dv, x in stores}
    # (c) placeholder writes of the WRITER: every expression of that form in Fused._task
    ph_nodes = []
    for tpl in templates:
        ph_nodes += [n for n, _b in pfind(tpl, task)]
    ph_exprs = list(ph_nodes)
    if not ph_nodes:
        ctx.bad("_expr.Fused:placeholder-agreement", mod.loc(task), f"Fused._execute_task binds its inputs as {sorted(templates)} but no expression of that form occurs in Fused._task: the members' references to external inputs stay unbound")
    bad_ph = None
    for n in ph_nodes:
        st = n
        while getattr(st, "_parent", None) is not task:
            st = st._parent
        if stmts.index(st) < stmts.index(loop) and not order_free:
            bad_ph = (n, st)
    if bad_ph:
        ctx.bad("_expr.Fused._task:placeholders-last", mod.loc(bad_ph[0]), f"placeholder bindings (`{unparse(bad_ph[1])[:80]}`) are written before the member loop: a nested group's own bindings (numbered for ITS dependency list) are merged afterwards and override them, so a member reads the wrong external input")
    else:
        ctx.ok("_expr.Fused._task:placeholders-last", mod.loc(ph_nodes[0]) if ph_nodes else mod.loc(task), "nested placeholder bindings are filtered out of the merge: the position of the outer bindings is free" if order_free else "placeholder bindings are the last writes into the sub-graph")
    # (d) same enumeration for placeholders and trailing args
    def _dep_source(it_node, at):
        """strip order-preserving wrappers (enumerate, tuple/list of `self._blockwise_arg(d, index) for d in X`) from an iteration source"""
        x = tdefs.expand(it_node, at=at)
        for _ in range(4):
            if isinstance(x, ast.Call) and dotted(x.func) == "enumerate" and len(x.args) == 1:
                x = x.args[0]
            elif isinstance(x, ast.Call) and dotted(x.func) in ("tuple", "list") and len(x.args) == 1:
                x = x.args[0]
            elif isinstance(x, (ast.GeneratorExp, ast.ListComp)) and len(x.generators) == 1 and not x.generators[0].ifs and pmatch(f"self._blockwise_arg({ast.unparse(x.generators[0].target)}, {idx})", x.elt) is not None:
                x = x.generators[0].iter
            else:
                break
        return unparse(x)

    deps_iters = []
    for st in stmts:
        for n in ast.walk(st):
            if isinstance(n, (ast.For, ast.comprehension)):
                src = _dep_source(n.iter, st)
                if "dependencies()" in src:
                    deps_iters.append(src)
    keyed = [n for n in ast.walk(task) if isinstance(n, ast.Call) and is_self_attr(n.func, "_blockwise_arg")]
    good = len(deps_iters) >= 1 and all(len(k.args) == 2 and unparse(k.args[1]) == idx for k in keyed) and len(keyed) >= 1
    order_ok = all(d == "self.dependencies()" for d in deps_iters)
    (ctx.ok if good and order_ok else ctx.bad)(
        "_expr.Fused._task:dependency-order",
        mod.loc(task),
        "placeholders and arguments both follow self.dependencies()" if good and order_ok else f"placeholder numbering / argument order no longer both follow self.dependencies() through _blockwise_arg(dep, index): {deps_iters}",
    )
    evals = any(isinstance(r, ast.Return) and isinstance(r.value, ast.Call) and [ast.unparse(x) for x in r.value.args[:2]] == a[:2] for r in ast.walk(ex))
    (ctx.ok if evals else ctx.bad)("_expr.Fused._execute_task", mod.loc(ex), "binds placeholder(i) to the i-th dependency and evaluates `name`" if evals else "Fused._execute_task no longer evaluates the sub-graph for `name` after binding the inputs")
    if ph_nodes:
        ctx.ok("_expr.Fused:placeholder-agreement", mod.loc(ex), f"_task writes and _execute_task binds {sorted(templates)}")
    # placeholders are not guessable strings
    def _stringy(e, depth=0):
        if isinstance(e, ast.JoinedStr) or (isinstance(e, ast.Constant) and isinstance(e.value, str)):
            return True
        if isinstance(e, ast.BinOp) and isinstance(e.op, (ast.Add, ast.Mod)):
            return _stringy(e.left, depth) or _stringy(e.right, depth)
        if isinstance(e, ast.Call) and isinstance(e.func, ast.Name) and e.func.id == "str":
            return True
        if isinstance(e, ast.Call) and isinstance(e.func, ast.Attribute) and e.func.attr in ("format", "join"):
            return True
        if isinstance(e, ast.Call) and depth < 2:
            t = callee(model, mod, fused, e)
            if t is not None:
                return any(_stringy(r.value, depth + 1) for r in ast.walk(t[2]) if isinstance(r, ast.Return) and r.value is not None)
        return False

    for e in ph_exprs:
        if _stringy(e):
            ctx.bad("_expr.Fused._task:placeholder-namespace", mod.loc(e), f"the inputs of a fused group are bound to plain strings (`{unparse(e)}`) in a graph that also holds the members' literal operands unquoted: dask.core.get replaces every hashable argument that is a key, so a column label / literal / broadcast value equal to '_0', '_1', ... is replaced by an input partition (df['_0'] + df['_1'] fails, assign(c='_0') copies a column)")
        else:
            ctx.ok("_expr.Fused._task:placeholder-namespace", mod.loc(e), "placeholders are not strings a literal operand can equal")
    # computed inputs are stored inert
    for iv, dv, x in stores:
        val = x.value
        inert = isinstance(val, ast.Tuple) and len(val.elts) == 1 and isinstance(val.elts[0], ast.Call) and ast.unparse(val.elts[0].func).endswith("literal") and [ast.unparse(z) for z in val.elts[0].args] == [dv]
        inert = inert or (isinstance(val, ast.Call) and ast.unparse(val.func).endswith("quote") and False)
        if inert:
            ctx.ok("_expr.Fused._execute_task:inert-inputs", mod.loc(x), "input values are stored as quoted literals")
        else:
            ctx.bad("_expr.Fused._execute_task:inert-inputs", mod.loc(x), f"`{unparse(x)}` stores the computed input as a TASK of the private graph: dask.core.get executes it - a string value equal to a key becomes an alias (a broadcast tag.min() == '_0' turned into input 0), lists are traversed, tuples with a callable head are called")


@rule(
    "R14d",
    ["C14", "C19"],
    """FUSION ELIGIBILITY: is_valid_blockwise_op admits only Blockwise expressions and excludes exactly the sources whose
    tasks hold data rather than keys (FromPandas, FromArray, FromDelayed); optimize_blockwise_fusion only fuses
    groups of more than one member and substitutes the group for its top-most member.""",
)
def r14d(ctx):
    model = ctx.model
    mod, outer = model.func("_expr", "optimize_blockwise_fusion")
    _, fn = model.func("_expr", "is_valid_blockwise_op")
    rets = [r.value for r in ast.walk(fn) if isinstance(r, ast.Return) and r.value is not None]
    txt = " ".join(unparse(r) for r in rets)
    pos = "isinstance(expr, Blockwise)" in txt
    excl = set()
    for r in rets:
        for n in ast.walk(r):
            if isinstance(n, ast.UnaryOp) and isinstance(n.op, ast.Not) and isinstance(n.operand, ast.Call) and dotted(n.operand.func) == "isinstance":
                t = n.operand.args[1]
                excl |= {dotted(e) for e in (t.elts if isinstance(t, ast.Tuple) else [t])}
    need = {"FromPandas", "FromArray"}
    if pos and need <= excl:
        ctx.ok("_expr.is_valid_blockwise_op", mod.loc(fn), f"Blockwise and not {sorted(excl)}")
    else:
        ctx.bad("_expr.is_valid_blockwise_op", mod.loc(fn), f"fusion eligibility is `{txt}`: must require Blockwise and exclude {sorted(need - excl)} (their tasks embed data / foreign keys, not (name, index) keys of a dependency)")
    # Blockwise classes whose layer is hand-written build tasks that read other partitions of their input than the one they
    # produce (loc with a slice: partition start + i); a fused group only wires the same-numbered partition of its
    # dependencies, so each of them must fail the eligibility test - by name, or through a test on the class's _layer
    param = fn.args.args[0].arg
    generic_excl = any(pmatch(f"type({param})._layer is V_base._layer", n) is not None or pmatch(f"type({param})._layer is Expr._layer", n) is not None for r in rets for n in ast.walk(r))
    bw = model.cls("Blockwise")
    nh = 0
    for c in model.subclasses(bw):
        ly = c.provider("_layer")
        if ly is None or ly.cls is model.core_expr:
            continue
        nh += 1
        cid = f"{c.qual}:hand-written-layer:not-fusable"
        named = any(k.name in excl for k in c.mro if not isinstance(k, str))
        if generic_excl or named:
            ctx.ok(cid, c.loc, "fails the fusion eligibility test")
        else:
            ctx.bad(cid, ly.cls.module.loc(ly.node), f"{c.qual} is Blockwise with a hand-written _layer ({ly.cls.qual}._layer) but passes is_valid_blockwise_op: inside a fused group its task still names partitions of its input that the group does not wire (e.g. (frame, start + i)), so the fused plan fails or reads the wrong partition")
    ctx.floor("Blockwise classes with a hand-written layer", nh, 3)
    # the locals of the pass are identified by what they hold, not by their names
    # the pass may be split over nested functions and helpers: they are found by what they contain
    scope = [f for _, _, f in closure_functions(model, mod, None, outer, depth=2)]
    scope += [n for n in ast.walk(outer) if isinstance(n, ast.FunctionDef) and n is not outer and all(n is not f for f in scope)]
    # innermost first, so that the function that directly holds the construct is chosen over the one it is nested in
    scope.sort(key=lambda f: sum(1 for _ in ast.walk(f)))
    fp = next((f for f in scope if any(isinstance(c, ast.Call) and dotted(c.func) == "Fused" for c in ast.walk(f))), None)
    if fp is None:
        raise AnalysisError("anchor vanished: Fused(...) construction in optimize_blockwise_fusion")
    rec_fn = next((f for f in scope if locals_defined_by(f, "defaultdict(set)")), None)
    if rec_fn is None:
        raise AnalysisError("anchor vanished: the consumers map (a local assigned defaultdict(set)) of the fusion pass")
    fused = [c for c in ast.walk(fp) if isinstance(c, ast.Call) and dotted(c.func) == "Fused"]
    group = ast.unparse(fused[0].args[0]) if fused[0].args else None
    good = group is not None
    sub_ok = bool(pfind(f"V_e.substitute({group}[0], V_new)", fp))
    size_ok = any(pmatch(f"len({group}) > 1", n.test) is not None for n in ast.walk(fp) if isinstance(n, ast.If))
    # fusion condition: same partition count or broadcast, and all dependents inside the group
    cond = None
    for n in ast.walk(outer):
        if isinstance(n, ast.If) and pfind("V_n._broadcast_dep(V_dep)", n.test):
            cond = n
    if cond is None:
        raise AnalysisError("anchor vanished: fusion condition in optimize_blockwise_fusion")
    dep = pfind("V_n._broadcast_dep(V_dep)", cond.test)[0][1]["V_dep"]
    pterms = list(flow.conj_terms(cond.test, True))
    terms = [x for x, pol in pterms]
    c1 = any(pfind(f"{dep}.npartitions == V_root.npartitions", x) and pfind(f"V_n._broadcast_dep({dep})", x) for x in terms)
    c2 = False
    for x, pol in pterms:
        cands = [pmatch(f"V_dependents[{dep}._name] - V_a - V_b", x)] if not pol else [b for _, b in pfind(f"not V_dependents[{dep}._name] - V_a - V_b", x)]
        for bb in (c for c in cands if c is not None):
            # the two subtracted sets are the names already in the group and those queued for it
            da = locals_defined_by(fp, "{V_s._name for V_s in V_src}")
            c2 = c2 or (bb["V_a"] in da and bb["V_b"] in da and bb["V_a"] != bb["V_b"])
    (ctx.ok if c1 and c2 else ctx.bad)(
        "_expr.optimize_blockwise_fusion:group-condition",
        mod.loc(cond),
        "member joins a group only with equal partition count (or broadcast) and all dependents inside" if c1 and c2 else f"fusion condition `{ast.unparse(cond.test)[:160]}` lost " + ("the partition-count / broadcast test" if not c1 else "the all-dependents-inside-the-group test"),
    )
    # another pass is needed iff roots remain AFTER the traversal appended new ones
    roots = None
    for w in ast.walk(fp):
        if isinstance(w, ast.While) and isinstance(w.test, ast.Name) and flow.contains(w, fused[0]):
            roots = w.test.id
    if roots is None:
        raise AnalysisError("anchor vanished: `while <roots>:` loop around the group construction")
    last_append = max((n.lineno for n in ast.walk(fp) if isinstance(n, ast.Call) and ast.unparse(n.func) == f"{roots}.append"), default=0)
    defs = flow.Defs(fp)
    sub_names = {a.targets[0].id for a, _ in pfind(f"V_r = V_e.substitute({group}[0], V_new)", fp) if isinstance(a, ast.Assign) and isinstance(a.targets[0], ast.Name)}
    for r in [x for x in ast.walk(fp) if isinstance(x, ast.Return) and isinstance(x.value, ast.Tuple) and len(x.value.elts) == 2 and (names_in(x.value.elts[0]) & sub_names or "substitute(" in ast.unparse(x.value.elts[0]))]:
        flag = r.value.elts[1]
        fresh = roots in names_in(flag)
        if not fresh and isinstance(flag, ast.Name):
            ds = defs.reaching(flag.id, r)
            fresh = bool(ds) and all(getattr(d.stmt, "lineno", 0) > last_append and d.value is not None and roots in names_in(d.value) for d in ds)
        (ctx.ok if fresh else ctx.bad)(
            "_expr.optimize_blockwise_fusion:done-flag",
            mod.loc(r),
            "'done' is evaluated after the traversal queued new roots" if fresh else f"the 'no more roots' flag `{ast.unparse(flag)}` is computed before the group traversal appends new roots: fusion stops early, so optimize() is not idempotent",
        )
    # the dependents map must record EVERY consumer of a fusable node (the group condition subtracts group members from it;
    # a consumer that is not itself fusable - a reduction, a shuffle - is exactly the one that must keep the node out of a group)
    dependencies = locals_defined_by(rec_fn, "{}")
    dependents = one_local(rec_fn, "defaultdict(set)", "the consumers map of the fusion pass")
    rec = []
    for pt in flow.walk(rec_fn):
        for n in ast.walk(pt.stmt) if isinstance(pt.stmt, ast.Expr) else []:
            if isinstance(n, ast.Call) and isinstance(n.func, ast.Attribute) and n.func.attr == "add" and isinstance(n.func.value, ast.Subscript) and dotted(n.func.value.value) == dependents:
                rec.append((pt, n))
    if not rec:
        raise AnalysisError("anchor vanished: dependents[...].add(...) in _fusion_pass")
    for pt, n in rec:
        consumer = n.args[0] if n.args else None
        cname = names_in(consumer) if consumer is not None else set()
        restricting = [ast.unparse(g) for g, pol in pt.guards if pol and (names_in(g) & cname) and ((names_in(g) & set(dependencies)) or "is_valid_blockwise_op" in ast.unparse(g))]
        (ctx.bad if restricting else ctx.ok)(
            "_expr.optimize_blockwise_fusion:dependents-complete",
            mod.loc(n),
            f"`{ast.unparse(n)}` is only reached under `{restricting[0]}`: consumers that are not fusable themselves are no longer recorded, so a node feeding a non-blockwise consumer is fused away from it" if restricting else "every consumer of a fusable operand is recorded as its dependent",
        )
    (ctx.ok if good and sub_ok and size_ok else ctx.bad)(
        "_expr.optimize_blockwise_fusion:substitute",
        mod.loc(outer),
        "groups of >1 members replace their top-most member" if good and sub_ok and size_ok else "the fused group no longer replaces group[0] (its top-most member) / single-member groups are fused",
    )
