"""C12: a shuffle is a permutation that co-locates equal keys consistently across frames - structural clauses."""
from __future__ import annotations

import ast

from sa import flow
from sa.model import AnalysisError, dotted, unparse
from sa.rules import LEVEL_TEXT, rule
from sa.rules.util import external_name, is_self_attr, iter_body_nodes, pmatch, qual

LEVEL_TEXT["C12"] = (
    "Decides structural necessary conditions of C12: every hash partition assignment receives the numeric cast dtype "
    "(the precondition for int and float keys to land in the same partition), computed through _is_numeric_cast_type "
    "from the very frame / key list that is hashed; shuffle layers keep positions and partition ids apart (R11a) and "
    "name their internal keys after everything their tasks depend on (R09d). Undecided: that the staged base-k "
    "routing is a permutation that co-locates keys for all (n_in, n_out, max_branch) - arithmetic over runtime "
    "integers (enumeration / model checking territory, not this family)."
)

R12A_EXCEPTIONS = {}


@rule(
    "R12a",
    ["C12", "C10"],
    """CAST MUST-PASS-THROUGH: (a) every call of dask's partitioning_index(frame, npartitions, cast_dtype) in the repository
    passes a cast dtype; (b) RearrangeByColumn._lower passes AssignPartitioningIndex a cast-dtype value all of whose
    definitions go through _is_numeric_cast_type, and (c) computes it from the same versions of `frame` and
    `partitioning_index` that it hands to AssignPartitioningIndex (same reaching definitions) - computing the cast
    list before an index level is rewritten into a helper column leaves that key un-cast.""",
)
def r12a(ctx):
    model = ctx.model
    n = 0
    for mod, cls, fn in model.all_functions():
        for call in (x for x in iter_body_nodes(fn) if isinstance(x, ast.Call)):
            if not (isinstance(call.func, ast.Name) and call.func.id == "partitioning_index"):
                continue
            ext = external_name(model, mod, call.func)
            if ext is None or not ext.endswith("partitioning_index"):
                continue
            n += 1
            fq = qual(cls, fn) if cls is not None else f"{mod.name.split('.', 1)[-1]}.{fn.name}"
            cid = f"{fq}:partitioning_index#{_ord(fn, call)}"
            has_cast = len(call.args) >= 3 or any(k.arg == "cast_dtype" for k in call.keywords)
            if has_cast:
                ctx.ok(cid, mod.loc(call), "cast dtype passed")
            elif (fq,) in R12A_EXCEPTIONS:
                ctx.exempt(cid, mod.loc(call), R12A_EXCEPTIONS[(fq,)])
            else:
                ctx.bad(cid, mod.loc(call), f"`{ast.unparse(call)}` hashes the key columns without a cast dtype: an int64 key and a float64 key with equal values get different partition numbers, so a frame shuffled here is not co-located with one shuffled through RearrangeByColumn")
    ctx.floor("partitioning_index calls", n, 4)

    rbc = model.cls("RearrangeByColumn")
    lo = model.method(rbc, "_lower", own=True).node
    defs = flow.Defs(lo)
    ctor = [c for c in ast.walk(lo) if isinstance(c, ast.Call) and dotted(c.func) == "AssignPartitioningIndex"]
    if not ctor:
        raise AnalysisError("anchor vanished: AssignPartitioningIndex construction in RearrangeByColumn._lower")
    ctor = ctor[0]
    params = model.parameters(model.cls("AssignPartitioningIndex"))
    if "cast_dtype" not in params:
        raise AnalysisError("anchor changed: AssignPartitioningIndex has no cast_dtype parameter")
    idx = params.index("cast_dtype")
    arg = ctor.args[idx] if len(ctor.args) > idx else next((k.value for k in ctor.keywords if k.arg == "cast_dtype"), None)
    if arg is None:
        ctx.bad("_shuffle.RearrangeByColumn._lower:cast-dtype", rbc.module.loc(ctor), "AssignPartitioningIndex is built without a cast dtype")
        return
    ok, why = _all_defs_cast(defs, arg, lo, model=model, mod=rbc.module, cls=rbc)
    (ctx.ok if ok else ctx.bad)("_shuffle.RearrangeByColumn._lower:cast-dtype", rbc.module.loc(ctor), "every definition of the cast dtype goes through _is_numeric_cast_type" if ok else f"cast dtype `{ast.unparse(arg)}` can come from `{why}` without consulting _is_numeric_cast_type")
    # (c) same versions of frame / partitioning_index
    # the locals that hold the frame and the key list (identified by what they are first assigned, not by name)
    from sa.rules.util import locals_defined_by

    held = locals_defined_by(lo, "self.frame") + locals_defined_by(lo, "self.partitioning_index")
    watched = [p for p in dict.fromkeys(held) if any(isinstance(x, ast.Name) and x.id == p for a in ctor.args for x in ast.walk(a))]
    if not watched:
        raise AnalysisError("anchor vanished: locals holding self.frame / self.partitioning_index in RearrangeByColumn._lower")
    at_ctor = {w: {id(d.stmt) for d in defs.reaching(w, ctor)} for w in watched}
    problems = []
    if isinstance(arg, ast.Name):
        for d in defs.all:
            if d.name != arg.id and not _feeds(defs, d, arg.id, lo):
                continue
        for node in ast.walk(lo):
            if isinstance(node, ast.Call) and dotted(node.func) == "_is_numeric_cast_type":
                # the statement / comprehension computing cast entries: which frame / key versions does it see?
                st = node
                while not isinstance(st, ast.stmt):
                    st = st._parent
                scope = st
                # climb to the enclosing loop header if the cast test sits in a loop over frame[cols].dtypes
                par = getattr(st, "_parent", None)
                while par is not None and par is not lo and not isinstance(par, (ast.For,)):
                    par = getattr(par, "_parent", None)
                reads = set()
                feeders = [f for f in _sibling_feeders(defs, scope, lo) if not any(d.stmt is f and d.name in watched for d in defs.all)]
                for s in ([par] if isinstance(par, ast.For) else []) + [scope] + feeders:
                    for x in ast.walk(s):
                        if isinstance(x, ast.Name) and x.id in watched and isinstance(x.ctx, ast.Load):
                            reads.add((x.id, frozenset(id(dd.stmt) for dd in defs.reaching(x.id, x))))
                stmt_by_id = {id(d.stmt): d.stmt for d in defs.all}
                for name, seen in reads:
                    later = [stmt_by_id[i] for i in at_ctor[name] - set(seen) if i in stmt_by_id]
                    # a definition that reaches the constructor but not the cast computation only matters if it can
                    # execute after the cast computation on one path (not in an exclusive if/else arm)
                    if any(not _exclusive(scope, d_stmt, lo) for d_stmt in later):
                        problems.append((node, name))
    # the cast computation must look at the LOCAL version of the frame (which may have been extended with a helper column for an
    # index-level key), never at the operand `self.frame` behind its back
    rebound = {w: sum(1 for d in defs.all if d.name == w and d.value is not None) > 1 for w in watched}
    frame_locals = [w for w in locals_defined_by(lo, "self.frame") if rebound.get(w)]
    if frame_locals:
        for node in ast.walk(lo):
            if isinstance(node, ast.Call) and dotted(node.func) == "_is_numeric_cast_type":
                st = node
                while not isinstance(st, ast.stmt):
                    st = st._parent
                par = getattr(st, "_parent", None)
                while par is not None and par is not lo and not isinstance(par, ast.For):
                    par = getattr(par, "_parent", None)
                scope_nodes = ([par.iter] if isinstance(par, ast.For) else []) + [st] + list(_sibling_feeders(defs, st, lo))
                for sn in scope_nodes:
                    for x in ast.walk(sn):
                        if is_self_attr(x, "frame") and not (isinstance(getattr(x, "_parent", None), ast.Assign) and x._parent.value is x):
                            problems.append((node, "self.frame"))
    if problems:
        node, name = problems[0]
        ctx.bad("_shuffle.RearrangeByColumn._lower:cast-from-hashed-frame", rbc.module.loc(node), f"the cast dtypes are computed from an earlier version of `{name}` than the one handed to AssignPartitioningIndex (the key list / frame is modified in between, e.g. an index level rewritten to a helper column): that key is hashed without the numeric cast")
    else:
        ctx.ok("_shuffle.RearrangeByColumn._lower:cast-from-hashed-frame", rbc.module.loc(ctor), "cast dtypes are derived from the frame / key list that is hashed")
    # AssignPartitioningIndex.operation forwards cast_dtype
    api = model.cls("AssignPartitioningIndex")
    op = model.method(api, "operation", own=True).node
    calls = [c for c in ast.walk(op) if isinstance(c, ast.Call) and dotted(c.func) == "partitioning_index"]
    good = calls and all(len(c.args) >= 3 and ast.unparse(c.args[2]) == "cast_dtype" for c in calls)
    (ctx.ok if good else ctx.bad)("_shuffle.AssignPartitioningIndex.operation:forwards-cast", api.module.loc(op), "cast_dtype forwarded to every partitioning_index call" if good else "AssignPartitioningIndex.operation does not forward cast_dtype to partitioning_index")


def _ord(fn, call):
    xs = [x for x in iter_body_nodes(fn) if isinstance(x, ast.Call) and isinstance(x.func, ast.Name) and x.func.id == "partitioning_index"]
    xs.sort(key=lambda x: (x.lineno, x.col_offset))
    return next(i for i, x in enumerate(xs) if x is call)


def _all_defs_cast(defs, arg, fn, depth=0, seen=None, model=None, mod=None, cls=None):
    """every definition of the value mentions _is_numeric_cast_type, is None-from-empty, or an accumulator filled under it"""
    seen = seen or set()
    if not isinstance(arg, ast.Name):
        t = ast.unparse(arg)
        return ("_is_numeric_cast_type" in t or t in ("None", "{}", "False")), t
    ds = [d for d in defs.reaching(arg.id, arg) if d.value is not None]
    if not ds:
        return False, "parameter"
    for d in ds:
        t = ast.unparse(d.value)
        if "_is_numeric_cast_type" in t or t in ("None", "False"):
            continue
        if model is not None:
            from sa.rules.util import closure_text

            if "_is_numeric_cast_type" in closure_text(model, mod, cls, d.value, depth=1):
                continue
        if t == "{}":
            # accumulator: every store into it must be under a _is_numeric_cast_type test
            stores = [n for n in ast.walk(fn) if isinstance(n, ast.Assign) and any(isinstance(tg, ast.Subscript) and isinstance(tg.value, ast.Name) and tg.value.id == arg.id for tg in n.targets)]
            for s in stores:
                p = flow.point_of(fn, s)
                if p is None or not any("_is_numeric_cast_type" in ast.unparse(tt) and pol for tt, pol in flow.facts(p)):
                    return False, ast.unparse(s)
            continue
        return False, t
    return True, ""


def _feeds(defs, d, name, fn):
    return False


def _sibling_feeders(defs, scope, fn):
    """statements that define names read by scope (one level), e.g. `cols = [...]` feeding `frame[cols].dtypes`"""
    out = []
    par = getattr(scope, "_parent", None)
    top = scope
    while par is not None and par is not fn and not isinstance(par, ast.For):
        top = par
        par = getattr(par, "_parent", None)
    hdr = par if isinstance(par, ast.For) else scope
    for x in ast.walk(hdr.iter if isinstance(hdr, ast.For) else hdr):
        if isinstance(x, ast.Name) and isinstance(x.ctx, ast.Load):
            for dd in defs.reaching(x.id, x):
                if isinstance(dd.stmt, ast.stmt) and dd.value is not None and dd.stmt is not fn:
                    out.append(dd.stmt)
    return out


def _arms(node, fn):
    """[(if node, 'body'|'orelse')] from outermost to innermost for the statement"""
    out = []
    child, par = node, getattr(node, "_parent", None)
    while par is not None and par is not fn:
        if isinstance(par, ast.If):
            if any(child is x for x in par.body):
                out.append((id(par), "body"))
            elif any(child is x for x in par.orelse):
                out.append((id(par), "orelse"))
        child, par = par, getattr(par, "_parent", None)
    return list(reversed(out))


def _exclusive(a, b, fn):
    """do statements a and b sit in different arms of the same if statement?"""
    arms_a, arms_b = dict(_arms(a, fn)), dict(_arms(b, fn))
    return any(k in arms_b and arms_b[k] != v for k, v in arms_a.items())


R12C_BARE_LABEL_OK = {
    "_reductions.Unique": "the chunks are a one-column frame of the values themselves: the fallback `columns` of ShuffleReduce IS that column, so a falsy name changes nothing",
}


@rule(
    "R12b",
    ["C12", "C10", "C02"],
    """SHUFFLE KEYS OF A REDUCTION NAME THE COLUMNS THAT ARE SHUFFLED: (a) when a lowering renames the frame's columns before
    handing it to a shuffle / sort (RenameFrame(frame, mapping)), the key list handed over with it is derived through the same
    mapping - a key that still carries the old label is taken for an index level and the data is partitioned by the index;
    (b) `split_by` of a reduction is a list of labels or None, never a bare label: ShuffleReduce reads `self.split_by or
    columns`, so the labels None / 0 / '' of an unnamed series would select the wrong key.""",
)
def r12b(ctx):
    from sa.rules.util import own_methods, pfind, pmatch

    model = ctx.model
    SHUFFLERS = {"RearrangeByColumn", "SortValues", "Shuffle", "SetIndex", "SetPartition"}
    n = 0
    for mod, cls, fn in model.all_functions():
        if not pfind("RenameFrame(V_old, V_map)", fn):
            continue
        defs = flow.Defs(fn)
        fq = qual(cls, fn) if cls is not None else f"{mod.name.split('.', 1)[-1]}.{fn.name}"
        for c in (x for x in iter_body_nodes(fn) if isinstance(x, ast.Call) and (dotted(x.func) or "").split(".")[-1] in SHUFFLERS and len(x.args) >= 2):
            if not isinstance(c.args[0], ast.Name):
                continue
            # the renamings that may reach the frame handed to the shuffle
            maps = []
            for d in defs.reaching(c.args[0].id, c):
                if d.value is not None:
                    bb = pmatch("RenameFrame(V_old, V_map)", d.value)
                    if bb is not None:
                        maps.append(bb["V_map"])
            if not maps:
                continue
            n += 1
            key = c.args[1]
            key_txt = ast.unparse(key)
            if isinstance(key, ast.Name):
                key_txt += " " + " ".join(ast.unparse(d.value) for d in defs.reaching(key.id, c) if d.value is not None)
            cid = f"{fq}:renamed-frame-key@{dotted(c.func)}"
            missing = [m_ for m_ in maps if m_ not in names_in_text(key_txt)]
            if not missing:
                ctx.ok(cid, mod.loc(c), f"key derived through {sorted(set(maps))}")
            else:
                ctx.bad(cid, mod.loc(c), f"`{c.args[0].id}` may have had its columns renamed by `{missing[0]}` but the key `{ast.unparse(key)}` handed to {dotted(c.func)} is not derived through that mapping: a key that keeps its old label is not a column of the renamed frame and is taken for an index level")
    ctx.floor("shuffles of a renamed frame", n, 2)
    m = 0
    for c, mem in own_methods(model, "split_by"):
        if not isinstance(mem.node, (ast.FunctionDef, ast.AsyncFunctionDef)):
            continue
        m += 1
        rets = [r.value for r in ast.walk(mem.node) if isinstance(r, ast.Return) and r.value is not None]
        bare = [r for r in rets if isinstance(r, ast.Attribute) and r.attr in ("name",) or (isinstance(r, ast.Attribute) and r.attr == "name")]
        cid = f"{c.qual}.split_by"
        if not bare:
            ctx.ok(cid, c.module.loc(mem.node), "a list of labels / an operand holding one")
        elif c.qual in R12C_BARE_LABEL_OK:
            ctx.exempt(cid, c.module.loc(mem.node), R12C_BARE_LABEL_OK[c.qual])
        else:
            ctx.bad(cid, c.module.loc(mem.node), f"{c.qual}.split_by returns the bare label `{ast.unparse(bare[0])}`: for an unnamed series (None) or a label 0 / '' ShuffleReduce's `self.split_by or columns` falls back to the chunk's own columns, so the reduction is shuffled by the wrong key and every value is returned once per partition")
    ctx.floor("split_by definitions", m, 3)


def names_in_text(t):
    import re as _re2

    return set(_re2.findall(r"[A-Za-z_]\w*", t))


@rule(
    "R12c",
    ["C12", "C10"],
    """THE HASHED KEY FRAME FOLLOWS THE ORDER OF THE KEYS, NOT OF THE FRAME: the partition of a row is the hash of its key values taken in
    the order of the selected columns. Two frames shuffled (or merged) on the same key list co-locate equal keys only if both hash
    them in KEY order - their own column orders differ. In `_select_columns_or_index(df, keys)` every comprehension that produces the
    selected labels iterates the key list (the function's second parameter, possibly normalised to a list), never `df.columns`.""",
)
def r12c(ctx):
    model = ctx.model
    mod, fn = model.func("_shuffle", "_select_columns_or_index")
    dfp, keys = fn.args.args[0].arg, fn.args.args[1].arg
    comps = [x for x in ast.walk(fn) if isinstance(x, (ast.ListComp, ast.GeneratorExp))]
    if not comps:
        raise AnalysisError("anchor vanished: the label selection of _select_columns_or_index")
    for i, comp in enumerate(comps):
        it = ast.unparse(comp.generators[0].iter)
        cid = f"_shuffle._select_columns_or_index:selection-order#{i}"
        if it == keys:
            ctx.ok(cid, mod.loc(comp), "labels are selected in key order")
        elif f"{dfp}.columns" in it or it == dfp:
            ctx.bad(cid, mod.loc(comp), f"`{unparse(comp)}` selects the key columns in the order of `{dfp}.columns`: the row hash then depends on the column order of the frame, so two frames partitioned on the same keys (both sides of a hash join, a frame and its already shuffled twin) send equal keys to different partitions")
        else:
            ctx.unclassified(cid, mod.loc(comp), f"selection iterates `{it}`")


@rule(
    "R12d",
    ["C12"],
    """EVERY KIND OF KEY IS HASHED AS A FRAME: a one-column frame and the Series of that column hash to different values
    (hash_object_dispatch of a frame combines per-column hashes). AssignPartitioningIndex.operation normalises every key form to a
    frame before hashing: a 1-d key (`index.ndim == 1`) and the index (`index_shuffle`) go through `.to_frame()`, labels through
    `_select_columns_or_index`. Rows shuffled by `df.shuffle(df.k)` and by `df.shuffle("k")` must land in the same partitions -
    a merge shuffles one side by label and the other by a key collection.""",
)
def r12d(ctx):
    model = ctx.model
    c = model.cls("AssignPartitioningIndex", "_shuffle")
    fn = model.method(c, "operation", own=True).node
    key = fn.args.args[1].arg
    ok1 = False
    for st in ast.walk(fn):
        if isinstance(st, ast.Assign) and any(isinstance(t, ast.Name) and t.id == key for t in st.targets) and pmatch(f"{key}.to_frame()", st.value) is not None:
            p = flow.point_of(fn, st)
            if p is not None and any(pol and pmatch(f"{key}.ndim == 1", t) is not None for t, pol in flow.facts(p)):
                ok1 = True
    cid = "_shuffle.AssignPartitioningIndex.operation:series-key-as-frame"
    if ok1:
        ctx.ok(cid, c.module.loc(fn), "a 1-d key is turned into a frame before it is hashed")
    else:
        ctx.bad(cid, c.module.loc(fn), f"a 1-d key (`{key}.ndim == 1`) is no longer turned into a frame before hashing: a Series hashes differently from the one-column frame of the same values, so rows shuffled by a key collection and rows shuffled by the column label of the same key land in different partitions")


@rule(
    "R12e",
    ["C12", "C02"],
    """INDEXES ARE ALIGNED BY SHUFFLE ONLY WHEN EQUAL LABELS HASH EQUALLY: two frames are aligned by hashing their index labels; that works
    when both indexes have the SAME dtype, or when all are numeric (numeric keys are cast to float64 before hashing). Dtypes of one
    *kind* do not qualify: object and string[pyarrow], datetime64[ns] and datetime64[s], int64 and categorical codes hash the same
    label to different partitions. `_are_dtypes_shuffle_compatible` may answer True only under `len(<the dtype set>) == 1` or an
    all-numeric test over it.""",
)
def r12e(ctx):
    model = ctx.model
    mod, fn = model.func("_expr", "_are_dtypes_shuffle_compatible")
    par = fn.args.args[0].arg
    n = 0
    for p in flow.returns(fn):
        v = p.stmt.value
        if not (isinstance(v, ast.Constant) and v.value is True):
            if v is not None and not (isinstance(v, ast.Constant) and v.value is False):
                ctx.unclassified("_expr._are_dtypes_shuffle_compatible:computed-return", mod.loc(p.stmt), f"returns `{unparse(v)}`")
            continue
        n += 1
        cid = f"_expr._are_dtypes_shuffle_compatible:accepts#{n}"
        pos = [t for t, pol in flow.facts(p) if pol]
        same = any(pmatch(f"len({par}) == 1", t) is not None for t in pos)
        numeric = any(isinstance(t, ast.Call) and dotted(t.func) == "all" and "is_numeric_dtype" in ast.unparse(t) and t.args and isinstance(t.args[0], (ast.GeneratorExp, ast.ListComp)) and ast.unparse(t.args[0].generators[0].iter) == par for t in pos)
        if same or numeric:
            ctx.ok(cid, mod.loc(p.stmt), "accepted for one dtype / all numeric dtypes")
        else:
            ctx.bad(cid, mod.loc(p.stmt), f"index dtypes are declared shuffle-compatible under `{' and '.join(ast.unparse(t) for t in pos)[:120]}`: only identical dtypes (or all-numeric ones, which are cast before hashing) hash equal labels equally - dtypes that merely share a kind send the same label of the two frames to different partitions and the aligned operation pairs nothing")
    ctx.floor("accepting returns of _are_dtypes_shuffle_compatible", n, 1)


@rule(
    "R12f",
    ["C12"],
    """A KEY IS EITHER A COLUMN LABEL OR AN INDEX LEVEL, NEVER BOTH: `_select_columns_or_index` adds the index (`_index`) to the hashed key
    frame when `_contains_index_name` says so, and selects the columns that `_is_column_label_reference` accepts. A frame whose index
    name equals one of its column labels would contribute BOTH for that key unless `_is_index_level_reference` excludes column labels
    (pandas resolves such a key to the column). Then this frame hashes (column, index) while its join / alignment partner hashes
    (column) - equal keys go to different partitions. The index-level test must contain a `not in <df>.columns` term.""",
)
def r12f(ctx):
    model = ctx.model
    mod, fn = model.func("_shuffle", "_is_index_level_reference")
    dfp, key = fn.args.args[0].arg, fn.args.args[1].arg
    excl = False
    for cmp_ in (x for x in ast.walk(fn) if isinstance(x, ast.Compare) and isinstance(x.ops[0], ast.NotIn) and ast.unparse(x.left) == key):
        if "columns" in ast.unparse(cmp_.comparators[0]):
            excl = True
    cid = "_shuffle._is_index_level_reference:excludes-column-labels"
    if excl:
        ctx.ok(cid, mod.loc(fn), "a key that is also a column label is not an index level reference")
    else:
        ctx.bad(cid, mod.loc(fn), f"`{key}` is accepted as an index level reference although it may also be a column label (`{key} not in {dfp}.columns` is gone): the hashed key frame of such a frame contains the column AND the index, its partner's only the column, so the two are partitioned by different hashes and a hash join / aligned shuffle pairs nothing")
