"""C15: planner caches are transparent (structural clauses)."""
from __future__ import annotations

import ast

from sa import flow
from sa.model import AnalysisError, dotted, names_in, unparse
from sa.rules import LEVEL_TEXT, rule
from sa.rules.util import is_self_attr, iter_body_nodes, qual, reads_of_self

LEVEL_TEXT["C15"] = (
    "Decides structural necessary conditions of C15: process-global mutable state is inventoried automatically; every "
    "read of a cache entry has a miss path (membership test followed by recompute-and-store, or a dominating fill); "
    "every memo key mentions everything the cached computation reads; sibling sites agree on the key layout; the "
    "overwrite path of to_parquet clears the plan cache; file identity tokens include path, size and modification "
    "time. Undecided: interleavings, eviction orders, injected failures (histories)."
)

CONTAINER_CTORS = {"LRU", "dict", "list", "set", "WeakValueDictionary", "weakref.WeakValueDictionary", "defaultdict", "OrderedDict", "collections.OrderedDict", "collections.defaultdict"}


def global_state(model):
    """{(module name, var name) -> node} module-level / class-level containers written from function bodies,
    plus global flags rebound via `global`."""
    cands = {}
    for mod in model.modules.values():
        for name, v in mod.assigns.items():
            if isinstance(v, (ast.Dict, ast.List, ast.Set)) and not (v.keys if isinstance(v, ast.Dict) else v.elts):
                cands[(mod.name, name)] = v
            elif isinstance(v, ast.Call) and dotted(v.func) in CONTAINER_CTORS:
                cands[(mod.name, name)] = v
        for c in mod.classes.values():
            for mname, m in c.members.items():
                if m.kind == "attr" and isinstance(m.node, ast.Call) and dotted(m.node.func) in CONTAINER_CTORS:
                    cands[(mod.name, f"{c.name}.{mname}")] = m.node
    written = {}
    for mod, cls, fn in model.all_functions():
        for n in iter_body_nodes(fn):
            tgt = None
            if isinstance(n, ast.Assign):
                for t in n.targets:
                    if isinstance(t, ast.Subscript):
                        tgt = t.value
            elif isinstance(n, ast.Call) and isinstance(n.func, ast.Attribute) and n.func.attr in ("pop", "clear", "update", "setdefault", "append", "add"):
                tgt = n.func.value
            elif isinstance(n, ast.Global):
                for nm in n.names:
                    written[(mod.name, nm)] = written.get((mod.name, nm), 0) + 1
            if tgt is None:
                continue
            d = dotted(tgt)
            if d is None:
                continue
            key = _resolve_global(model, mod, d)
            if key in cands:
                written[key] = written.get(key, 0) + 1
            elif isinstance(tgt, ast.Name):
                # a local that may alias a global container (`cache = divisions_lru` on some path)
                for a in iter_body_nodes(fn):
                    if isinstance(a, ast.Assign) and any(isinstance(t, ast.Name) and t.id == tgt.id for t in a.targets):
                        dv = dotted(a.value)
                        k2 = _resolve_global(model, mod, dv) if dv else None
                        if k2 in cands:
                            written[k2] = written.get(k2, 0) + 1
    return cands, written


def _resolve_global(model, mod, d):
    head = d.split(".")[0]
    if (mod.name, d) in {(mod.name, d)} and d in mod.assigns:
        return (mod.name, d)
    if head in mod.classes and "." in d:
        return (mod.name, d)
    if d.startswith("cls.") or d.startswith("self."):
        return None
    imp = mod.imports.get(head)
    if imp is not None and imp[0] == "attr" and "." not in d:
        return (imp[1], imp[2])
    return (mod.name, d)


def _is_cache_expr(model, mod, fn, defs, e, state, _depth=0):
    """does expression e denote one of the inventoried caches (or the per-source _division_info LRU)?"""
    d = dotted(e)
    if d is None:
        return None
    if d.endswith("._division_info"):
        return "_BackendData._division_info"
    key = _resolve_global(model, mod, d)
    if key in state:
        return f"{key[0].split('.', 1)[-1]}.{key[1]}"
    if isinstance(e, ast.Name):
        v = defs.single_value(e.id, e)
        if v is not None and v is not e:
            return _is_cache_expr(model, mod, fn, defs, v, state)
        # may-alias: a parameter / local that is (re)bound to a global cache on some path (`if cache is None: cache = LRU`)
        if _depth < 3:
            for d_ in defs.reaching(e.id, e):
                if d_.value is not None and d_.value is not e:
                    r = _is_cache_expr(model, mod, fn, defs, d_.value, state, _depth + 1)
                    if r is not None:
                        return r
    return None


class Memo:
    def __init__(self, mod, cls, fn, cache, key, kind, if_stmt, miss, store):
        self.mod, self.cls, self.fn, self.cache, self.key, self.kind = mod, cls, fn, cache, key, kind
        self.if_stmt, self.miss, self.store = if_stmt, miss, store


def find_memos(model, state):
    out = []
    for mod, cls, fn in model.all_functions():
        defs = None
        for p in flow.walk(fn):
            st = p.stmt
            if not isinstance(st, ast.If):
                continue
            t = st.test
            neg = False
            if isinstance(t, ast.UnaryOp) and isinstance(t.op, ast.Not):
                t, neg = t.operand, True
            if isinstance(t, ast.NamedExpr):
                pass
            if not (isinstance(t, ast.Compare) and len(t.ops) == 1 and isinstance(t.ops[0], (ast.In, ast.NotIn))):
                continue
            if defs is None:
                defs = flow.Defs(fn)
            cache = _is_cache_expr(model, mod, fn, defs, t.comparators[0], state)
            if cache is None:
                continue
            is_in = isinstance(t.ops[0], ast.In) != neg
            key = t.left.value if isinstance(t.left, ast.NamedExpr) else t.left
            # statements after the If in the same block
            parent_body = _body_of(st)
            after = parent_body[parent_body.index(st) + 1 :] if parent_body else []
            if is_in:
                # hit arm returns; the miss path is the else arm (if any) followed by what comes after the if
                miss = list(st.orelse) + [s for s in after]
                kind = "hit-return"
            else:
                miss = list(st.body)
                kind = "miss-block"
            store = None
            for s in miss:
                for n in ast.walk(s):
                    if isinstance(n, ast.Assign) and any(isinstance(tg, ast.Subscript) and _is_cache_expr(model, mod, fn, defs, tg.value, state) == cache for tg in n.targets):
                        store = n
            out.append(Memo(mod, cls, fn, cache, key, kind, st, miss, store))
    return out


def _body_of(stmt):
    p = getattr(stmt, "_parent", None)
    for attr in ("body", "orelse", "finalbody"):
        b = getattr(p, attr, None)
        if isinstance(b, list) and stmt in b:
            return b
    return None


@rule(
    "R15a",
    ["C15", "C16"],
    """STATE INVENTORY + MISS PATH: process-global mutable state (module / class level containers written from function
    bodies) is found automatically. Every subscript read `C[k]` of such a cache (and of the per-source
    _division_info LRU) must be dominated by a membership test whose miss branch recomputes and stores, or by a call
    that fills the cache; an `assert k in C` is not a miss path: the entry may have been evicted, or the expression
    may have been unpickled in another process.""",
)
def r15a(ctx):
    model = ctx.model
    cands, written = global_state(model)
    state = {k for k in cands if k in written}
    ctx.info("process-global mutable state", sorted(f"{k[0]}.{k[1]} (writes: {written[k]})" for k in state))
    ctx.info("global flags", sorted(f"{k[0]}.{k[1]}" for k in written if k not in cands))
    ctx.floor("process-global caches", len(state), 5)
    memos = find_memos(model, state)
    n_reads = 0
    for mod, cls, fn in model.all_functions():
        defs = None
        for n in iter_body_nodes(fn):
            if not (isinstance(n, ast.Subscript) and isinstance(n.ctx, ast.Load)):
                continue
            if defs is None:
                defs = flow.Defs(fn)
            cache = _is_cache_expr(model, mod, fn, defs, n.value, state)
            if cache is None:
                continue
            n_reads += 1
            fq = qual(cls, fn) if cls is not None else f"{mod.name.split('.', 1)[-1]}.{fn.name}"
            cid = f"{fq}:read:{cache}"
            in_memo = [m for m in memos if m.fn is fn and m.cache == cache and m.store is not None]
            asserted = [a for a in iter_body_nodes(fn) if isinstance(a, ast.Assert) and isinstance(a.test, ast.Compare) and any(isinstance(o, ast.In) for o in a.test.ops) and _is_cache_expr(model, mod, fn, defs, a.test.comparators[0], state) == cache]
            filled = _dominating_fill(model, cls, fn, n, cache, mod, state)
            if in_memo:
                ctx.ok(cid, mod.loc(n), "membership test with recompute-and-store miss path")
            elif filled:
                ctx.ok(cid, mod.loc(n), f"dominated by a call that fills the cache ({filled})")
            elif asserted:
                ctx.bad(cid, mod.loc(n), f"`{unparse(n)}` is read under `assert ... in {cache}` only: there is no miss path, so the value is available only while the entry survives in this process's cache (not after eviction, not in another process)")
            else:
                ctx.bad(cid, mod.loc(n), f"`{unparse(n)}` reads the process-global cache {cache} without a membership test / miss path")
    ctx.floor("cache reads", n_reads, 8)


def _dominating_fill(model, cls, fn, node, cache, mod, state):
    """a statement before `node` calls self.<m>() where m (transitively, depth 2) stores into the cache"""
    if cls is None:
        return None
    p = flow.point_of(fn, node)
    if p is None:
        return None
    stmts = list(p.preceding) + [p.stmt]
    for s in stmts:
        for call in (c for c in ast.walk(s) if isinstance(c, ast.Call) or is_self_attr(c)):
            name = None
            if isinstance(call, ast.Call) and is_self_attr(call.func):
                name = call.func.attr
            elif is_self_attr(call):
                name = call.attr
            if name is None:
                continue
            if _stores_into(model, cls, name, cache, mod, state, 2):
                return f"self.{name}"
    return None


def _stores_into(model, cls, name, cache, mod, state, depth):
    m = cls.provider(name)
    if m is None or m.kind == "attr" or depth < 0:
        return False
    defs = flow.Defs(m.node)
    for n in iter_body_nodes(m.node):
        if isinstance(n, ast.Assign) and any(isinstance(t, ast.Subscript) and _is_cache_expr(model, m.cls.module, m.node, defs, t.value, state) == cache for t in n.targets):
            return True
        if is_self_attr(n) and n.attr != name and _stores_into(model, cls, n.attr, cache, mod, state, depth - 1):
            return True
    return False


# (function, missing item) -> reason
R15B_EXCEPTIONS = {
    ("_shuffle._get_divisions", "frame"): "frame only serves the error message of _calculate_divisions; the quantiles are computed from `other`, whose name is in the key",
    ("io.io.FromPandas._divisions_and_locations", "chunksize"): "the LRU lives on the _BackendData instance, which from_pandas creates per call together with one fixed (npartitions, chunksize) request; chunksize is only read when npartitions is None, and then every expression over that instance carries the same chunksize",
}


@rule(
    "R15b",
    ["C15", "C19", "C16", "C18", "C08", "C03"],
    """MEMO-KEY COMPLETENESS: for every memo idiom over an inventoried cache (`if key in C: return C[key]; v = f(...); C[key] =
    v` or `if key not in C: ...; C[key] = v`), every function parameter / expression operand that the miss path reads
    must be mentioned by the key expression (directly, as x._name, or through a token of it). Sibling sites that
    address the same cache must build keys of the same length.""",
)
def r15b(ctx):
    model = ctx.model
    cands, written = global_state(model)
    state = {k for k in cands if k in written}
    memos = [m for m in find_memos(model, state) if m.store is not None]
    ctx.floor("memo idioms", len(memos), 5)
    key_arity = {}
    for m in memos:
        fq = qual(m.cls, m.fn) if m.cls is not None else f"{m.mod.name.split('.', 1)[-1]}.{m.fn.name}"
        defs = flow.Defs(m.fn)
        key_x = defs.expand(m.key, at=m.if_stmt)
        params = {a.arg for a in m.fn.args.args + m.fn.args.kwonlyargs} - {"self", "cls"}
        key_names = names_in(key_x)
        key_reads = reads_of_self(model, m.cls, key_x, depth=3) if m.cls is not None else set()
        miss_names, miss_reads = set(), set()
        for s in m.miss:
            if s is m.store:
                continue
            # the stored value expression counts as part of the miss path
            miss_names |= names_in(s) & params
            if m.cls is not None:
                miss_reads |= reads_of_self(model, m.cls, s, depth=3)
        missing = sorted((miss_names - key_names) | ({r for r in miss_reads if r != "*operands"} - key_reads - {"_dataset_info_cache"}))
        # reads through self.frame (the _BackendData holding the LRU) are implied by the cache's owner
        if m.cache == "_BackendData._division_info":
            missing = [x for x in missing if x not in ("frame",)]
        cid = f"{fq}:memo:{m.cache}"
        problems = [x for x in missing if (fq, x) not in R15B_EXCEPTIONS]
        for x in missing:
            if (fq, x) in R15B_EXCEPTIONS:
                ctx.exempt(f"{cid}:{x}", m.mod.loc(m.if_stmt), R15B_EXCEPTIONS[(fq, x)])
        if problems:
            ctx.bad(cid, m.mod.loc(m.if_stmt), f"cache key `{unparse(key_x)}` does not mention {problems}, which the cached computation reads: two requests differing only there share one entry, so the answer depends on which ran first")
        else:
            ctx.ok(cid, m.mod.loc(m.if_stmt), f"key `{unparse(key_x)[:100]}` covers the miss path")
        # a key built from selected components of a mapping (X["a"], X["b"]) while the cached computation is handed X whole:
        # the components left out of the key are still inputs of the value
        sub_roots, whole_roots = {}, set()
        for n in ast.walk(key_x):
            if isinstance(n, ast.Subscript) and isinstance(n.slice, ast.Constant) and isinstance(n.value, (ast.Name, ast.Attribute)):
                sub_roots.setdefault(ast.unparse(n.value), []).append(n.slice.value)
        sub_values = {id(n.value) for n in ast.walk(key_x) if isinstance(n, ast.Subscript) and isinstance(n.slice, ast.Constant)}
        for n in ast.walk(key_x):
            if isinstance(n, (ast.Name, ast.Attribute)) and id(n) not in sub_values:
                whole_roots.add(ast.unparse(n))
        partial = {r: c for r, c in sub_roots.items() if r not in whole_roots}
        if partial:
            whole_in_miss = set()
            for st in m.miss:
                if st is m.store:
                    continue
                for c in (x for x in ast.walk(st) if isinstance(x, ast.Call)):
                    for a in list(c.args) + [k.value for k in c.keywords]:
                        if isinstance(a, (ast.Name, ast.Attribute)):
                            t = ast.unparse(defs.expand(a, at=st))
                            if t in partial:
                                whole_in_miss.add(t)
            for r in sorted(whole_in_miss):
                ctx.bad(f"{cid}:partial:{r.split('.')[-1]}", m.mod.loc(m.if_stmt), f"cache key is built from the components {sorted(map(str, partial[r]))} of `{r}` but the cached computation receives `{r}` whole: requests that differ in another component share one entry")
        if isinstance(key_x, ast.Tuple):
            key_arity.setdefault(m.cache, {})[fq] = (len(key_x.elts), m.mod.loc(m.if_stmt))
    # sibling key layouts: other readers of the same cache building a tuple key
    for mod, cls, fn in model.all_functions():
        defs = None
        for n in iter_body_nodes(fn):
            if isinstance(n, ast.Subscript) and isinstance(n.ctx, ast.Load):
                if defs is None:
                    defs = flow.Defs(fn)
                cache = _is_cache_expr(model, mod, fn, defs, n.value, state)
                if cache is None or cache not in key_arity:
                    continue
                k = defs.expand(n.slice, at=n)
                fq = qual(cls, fn) if cls is not None else f"{mod.name.split('.', 1)[-1]}.{fn.name}"
                if isinstance(k, ast.Tuple) and fq not in key_arity[cache]:
                    want = {v[0] for v in key_arity[cache].values()}
                    cid = f"{fq}:key-layout:{cache}"
                    if len(k.elts) in want:
                        ctx.ok(cid, mod.loc(n), f"{len(k.elts)} components, like the memo function")
                    else:
                        ctx.bad(cid, mod.loc(n), f"key `{unparse(k)}` has {len(k.elts)} components but the function that fills {cache} uses {sorted(want)}: this reader can never hit (or hits another request's entry)")


@rule(
    "R15c",
    ["C15", "C18", "C08"],
    """INVALIDATION AND FILE IDENTITY: to_parquet clears the read_parquet plan cache on every overwrite path
    (`_cached_plan.clear()` under `if overwrite`, not only inside the directory-exists branch); the token of a
    pyarrow FileInfo - key of the statistics cache and input of the arrow reader's dataset checksum - includes
    path, size and mtime_ns, so a rewritten file is a different file.""",
)
def r15c(ctx):
    model = ctx.model
    mod, fn = model.func("io.parquet", "to_parquet")
    clears = [n for n in ast.walk(fn) if isinstance(n, ast.Call) and dotted(n.func) == "_cached_plan.clear"]
    if not clears:
        ctx.bad("io.parquet.to_parquet:clear-plan-cache", mod.loc(fn), "to_parquet no longer clears _cached_plan: re-reading an overwritten dataset returns the old plan")
    for i, c in enumerate(clears):
        # enclosing `if` statements only (early exits that raise do not narrow the overwrite path)
        encl = []
        n = c
        while n is not None and n is not fn:
            par = getattr(n, "_parent", None)
            if isinstance(par, ast.If):
                in_body = any(n is x or flow.contains(x, n) for x in par.body)
                # the else arm of an `if ...: raise / return` is just the fall-through written out: it narrows nothing
                if in_body or not flow.terminates(par.body):
                    tt, pol = par.test, in_body
                    if isinstance(tt, ast.UnaryOp) and isinstance(tt.op, ast.Not):
                        tt, pol = tt.operand, not pol
                    encl.append((unparse(tt), pol))
            n = par
        under_overwrite = any(t == "overwrite" and pol for t, pol in encl)
        narrower = [t for t, pol in encl if t != "overwrite"]
        cid = f"io.parquet.to_parquet:clear-plan-cache#{i}"
        if (under_overwrite and not narrower) or not encl:
            ctx.ok(cid, mod.loc(c), "cleared whenever overwrite=True")
        else:
            ctx.bad(cid, mod.loc(c), f"_cached_plan.clear() only runs under {[t for t, pol in encl]}: an overwrite that does not satisfy this keeps the stale plan")
    # fsspec reader: the dataset checksum is taken over the dataset's FILES (or its _metadata file), not the requested paths
    fs_cls = model.cls("ReadParquetFSSpec")
    di = model.method(fs_cls, "_dataset_info", own=True).node
    ddefs = flow.Defs(di)
    loops = [n for n in ast.walk(di) if isinstance(n, ast.For) and any(isinstance(c, ast.Call) and isinstance(c.func, ast.Attribute) and c.func.attr == "checksum" for c in ast.walk(n))]
    if not loops:
        raise AnalysisError("anchor vanished: checksum loop in ReadParquetFSSpec._dataset_info")
    it = loops[0].iter
    srcs = [ast.unparse(d.value) for d in ddefs.reaching(it.id, loops[0]) if d.value is not None] if isinstance(it, ast.Name) else [ast.unparse(it)]
    real = [x for x in srcs if x != "[]"]
    good = real and all(".files" in x or "_metadata" in x for x in real)
    (ctx.ok if good else ctx.bad)("io.parquet.ReadParquetFSSpec._dataset_info:checksum-files", fs_cls.module.loc(loops[0]), "checksum over the dataset's files / its _metadata file" if good else f"the dataset checksum is computed over {real}: a directory entry does not change when its part files are rewritten in place, so a re-read keeps the old name and the cached plan")
    # FileInfo token
    fi = None
    for m in model.modules.values():
        for node in ast.walk(m.tree):
            if isinstance(node, ast.FunctionDef):
                for d in node.decorator_list:
                    if isinstance(d, ast.Call) and dotted(d.func) == "normalize_token.register" and d.args and (dotted(d.args[0]) or "").endswith("FileInfo"):
                        fi = (m, node)
    if fi is None:
        raise AnalysisError("anchor vanished: normalize_token registration for pyarrow FileInfo")
    m, node = fi
    arg = node.args.args[0].arg
    attrs = {a.attr for r in ast.walk(node) if isinstance(r, ast.Return) and r.value is not None for a in ast.walk(r.value) if isinstance(a, ast.Attribute) and isinstance(a.value, ast.Name) and a.value.id == arg}
    need = {"path", "size", "mtime_ns"}
    if need <= attrs:
        ctx.ok("io.parquet._tokenize_fileinfo", m.loc(node), f"token covers {sorted(attrs & need)}")
    else:
        ctx.bad("io.parquet._tokenize_fileinfo", m.loc(node), f"file identity token lacks {sorted(need - attrs)}: a file rewritten in place (same path{', same size' if 'size' in attrs else ''}) keeps its token, so cached statistics, the dataset checksum and the read_parquet name go stale")


@rule(
    "R15d",
    ["C15"],
    """NO CONFIGURATION FROZEN INTO A SINGLETON: expressions are process-wide singletons keyed by name, so a cached_property of
    an expression class whose value depends on the process configuration (dask.config.get, get_default_shuffle_method())
    keeps the value of the first session that asked: later plans depend on what ran before. Such members must be plain
    properties / methods (or the setting must be an operand).""",
)
def r15d(ctx):
    model = ctx.model
    n = 0
    for c in model.expr_classes():
        for m in model.functions_of(c):
            fn = m.node
            reads = []
            for call in (x for x in iter_body_nodes(fn) if isinstance(x, ast.Call)):
                d = dotted(call.func) or ""
                if d in ("get_default_shuffle_method", "config.get", "dask.config.get"):
                    reads.append(call)
            if not reads:
                continue
            n += 1
            cid = f"{qual(c, fn)}:config-read"
            if m.kind == "cached_property":
                ctx.bad(cid, c.module.loc(reads[0]), f"{qual(c, fn)} is a cached_property that reads the process configuration (`{ast.unparse(reads[0])}`): the shared expression instance keeps the first answer, so the plan of a later query depends on the configuration under which an equal expression was planned earlier")
            else:
                ctx.ok(cid, c.module.loc(reads[0]), f"{m.kind}: evaluated at use")
    ctx.floor("configuration reads in expression classes", n, 3)


def _function_cache_decorators(fn):
    return [ast.unparse(d) for d in fn.decorator_list if ast.unparse(d).split("(")[0] in ("functools.lru_cache", "lru_cache", "functools.cache", "cache")]


@rule(
    "R15e",
    ["C15", "C16"],
    """NO FUNCTION-LEVEL CACHE ON EXPRESSION METHODS: functools.lru_cache / functools.cache on a method (or under a property) of
    an expression class is a process-global cache keyed by `self`: it pins the instance, so the weak singleton registry
    never forgets it and a later, equal-named expression gets the stale object (and its stale plan) back - depending on
    how many other calls evicted it. Per-instance caching must use cached_property.""",
)
def r15e(ctx):
    model = ctx.model
    n = 0
    for c in model.expr_classes():
        for m in model.functions_of(c):
            n += 1
            bad = _function_cache_decorators(m.node)
            cid = f"{qual(c, m.node)}:function-cache"
            if bad:
                ctx.bad(cid, c.module.loc(m.node), f"{qual(c, m.node)} is decorated with {bad}: a process-global cache that holds the expression instance alive and answers for later, equal expressions from a stale object")
    import os

    ex = os.path.join(os.path.dirname(os.path.dirname(__file__)), "examples", "r15e_positive.py")
    tree = ast.parse(open(ex).read())
    flagged = {f.name for k in tree.body if isinstance(k, ast.ClassDef) for f in k.body if isinstance(f, ast.FunctionDef) and _function_cache_decorators(f)}
    if flagged != {"_plan"}:
        raise AnalysisError(f"R15e self-check failed: positive example flagged {sorted(flagged)}, expected ['_plan']")
    ctx.ok("examples/r15e_positive.py", "sa/examples/r15e_positive.py", "positive example flagged, cached_property twin is not")
    ctx.ok("expression methods without function-level caches", "", f"{n} methods scanned")
    ctx.floor("expression methods", n, 900)


def _inplace_edited_classes(classes):
    """classes one of whose methods (other than __init__ / __new__ / __setstate__) rebinds self._expr - plus everything that
    shares instances with them (their bases and subclasses)"""
    edited = []
    for c in classes:
        for name, node in c["methods"].items():
            if name.split("@")[0] in ("__init__", "__new__", "__setstate__"):
                continue
            for a in ast.walk(node):
                if isinstance(a, (ast.Assign, ast.AugAssign, ast.AnnAssign)):
                    tgts = a.targets if isinstance(a, ast.Assign) else [a.target]
                    if any(isinstance(t, ast.Attribute) and isinstance(t.value, ast.Name) and t.value.id == "self" and t.attr == "_expr" for t in tgts):
                        edited.append(c)
                        break
            else:
                continue
            break
    return edited


def _cached_members(node):
    out = []
    for f in node.body:
        if isinstance(f, (ast.FunctionDef, ast.AsyncFunctionDef)):
            decs = [ast.unparse(d).split("(")[0] for d in f.decorator_list]
            hit = [d for d in decs if d in ("functools.cached_property", "cached_property", "functools.lru_cache", "lru_cache", "functools.cache", "cache")]
            if hit:
                out.append((f, hit))
    return out


@rule(
    "R15f",
    ["C15", "C06", "C07"],
    """NO CACHE ON AN IN-PLACE EDITED COLLECTION: the collection classes rebind self._expr in place (df["c"] = ..., df.index =
    ..., df.columns = ...). A cached_property / lru_cache member of such a class (or of a class that shares instances with
    it - its bases and subclasses) keeps describing the expression the collection had when the member was first read:
    divisions, meta or npartitions reported afterwards depend on whether they were looked at before the edit.""",
)
def r15f(ctx):
    model = ctx.model
    infos = []
    for c in model.classes:
        if model.is_expr(c):
            continue
        infos.append({"cls": c, "methods": {f"{f.name}@{f.lineno}": f for f in c.node.body if isinstance(f, (ast.FunctionDef, ast.AsyncFunctionDef))}})
    edited = [i["cls"] for i in _inplace_edited_classes(infos)]
    ctx.floor("collection classes that rebind self._expr in place", len(edited), 2)
    family = []
    for c in model.classes:
        if model.is_expr(c):
            continue
        if any(e in c.mro or c in e.mro for e in edited):
            family.append(c)
    n = 0
    for c in family:
        n += 1
        hits = _cached_members(c.node)
        cid = f"{c.qual}:cached-members"
        if hits:
            f, dec = hits[0]
            ctx.bad(f"{c.qual}.{f.name}:cached-on-mutable-collection", c.module.loc(f), f"{c.qual}.{f.name} is {dec[0]} on a collection whose expression is replaced in place ({', '.join(sorted(e.name for e in edited if e in c.mro or c in e.mro))} assign self._expr): after such an edit it still answers for the old expression")
        else:
            ctx.ok(cid, c.loc, "no cached members")
    import os

    ex = os.path.join(os.path.dirname(os.path.dirname(__file__)), "examples", "r15f_positive.py")
    tree = ast.parse(open(ex).read())
    for node in ast.walk(tree):
        for ch in ast.iter_child_nodes(node):
            ch._parent = node  # type: ignore[attr-defined]
    k = next(x for x in tree.body if isinstance(x, ast.ClassDef))
    info = [{"cls": k, "methods": {f.name: f for f in k.body if isinstance(f, ast.FunctionDef)}}]
    flagged = {f.name for f, _ in _cached_members(k)} if _inplace_edited_classes(info) else set()
    if flagged != {"_schema"}:
        raise AnalysisError(f"R15f self-check failed: positive example flagged {sorted(flagged)}, expected ['_schema']")
    ctx.ok("examples/r15f_positive.py", "sa/examples/r15f_positive.py", "positive example flagged, plain-property twin is not")
    ctx.floor("classes sharing instances with an in-place edited collection", n, 4)
