"""Cross-layer naming: classes that share a name across modules (collection vs expression, frame vs groupby reductions)."""
from __future__ import annotations

import ast

from sa.model import AnalysisError
from sa.rules import rule


# ---------------------------------------------------------------------------------------------
# R21d
# ---------------------------------------------------------------------------------------------


def homonym_bindings(model):
    """{module rel: {enclosing function qualname: {class name: defining module}}} for class names defined in several modules"""
    import collections

    defs = collections.defaultdict(set)
    for c in model.classes:
        defs[c.name].add(c.module.name)
    homonyms = {n for n, mods in defs.items() if len(mods) > 1}
    out = {}
    for mod in model.modules.values():
        top = {}
        for st in mod.tree.body:
            if isinstance(st, ast.ImportFrom):
                for a in st.names:
                    top[a.asname or a.name] = (st.module or "") + ("" if not st.level else "")
            elif isinstance(st, ast.ClassDef):
                top[st.name] = mod.name
        for node in ast.walk(mod.tree):
            if not (isinstance(node, ast.Name) and isinstance(node.ctx, ast.Load) and node.id in homonyms):
                continue
            # enclosing functions, innermost first
            chain = []
            p = getattr(node, "_parent", None)
            while p is not None:
                if isinstance(p, (ast.FunctionDef, ast.AsyncFunctionDef, ast.ClassDef)):
                    chain.append(p)
                p = getattr(p, "_parent", None)
            src = None
            for f in (x for x in chain if isinstance(x, (ast.FunctionDef, ast.AsyncFunctionDef))):
                for st in ast.walk(f):
                    if isinstance(st, ast.ImportFrom) and any((a.asname or a.name) == node.id for a in st.names):
                        src = st.module
                        break
                if src:
                    break
            if src is None:
                src = top.get(node.id)
            if src is None:
                continue
            qualn = ".".join(x.name for x in reversed(chain)) or "<module>"
            out.setdefault(mod.rel, {}).setdefault(qualn, {})[node.id] = src
    return out


@rule(
    "R21d",
    ["C06", "C07", "C01"],
    """A NAME SHARED BY A COLLECTION CLASS AND AN EXPRESSION CLASS KEEPS MEANING THE SAME CLASS: `Index`, `Head`, `Sum`, `Cov` ... are each
    defined in more than one module (the user-facing collection `_collection.Index` and the expression `_expr.Index`; frame / groupby
    reductions). `isinstance(x, Index)` silently becomes always-False (or always-True) when the import is redirected to the other
    definition - nothing fails to import, no test exercises the branch. Every use of such a homonym must be bound to the module recorded
    on the confirmed tree (sa/data/homonyms_ref.json; uses that are new or gone are not judged).""",
)
def r21d(ctx):
    import json
    import os

    model = ctx.model
    ref = json.load(open(os.path.join(os.path.dirname(os.path.dirname(__file__)), "data", "homonyms_ref.json")))
    now = homonym_bindings(model)
    n = 0
    for rel, funcs in sorted(ref.items()):
        for fq, names in sorted(funcs.items()):
            for name, src in sorted(names.items()):
                cur = now.get(rel, {}).get(fq, {}).get(name)
                if cur is None:
                    continue
                n += 1
                cid = f"{rel}:{fq}:{name}"
                if cur == src:
                    ctx.ok(cid, rel, f"{name} is {src}.{name}")
                else:
                    ctx.bad(cid, rel, f"in {fq} the name `{name}` is now bound to {cur}.{name}; on the confirmed tree it was {src}.{name}. The two classes share only the name: isinstance tests, constructions and attribute look-ups on it silently take the other branch (an Index collection is not an `_expr.Index`), e.g. accessor properties of an Index keep the divisions of the un-transformed index")
    ctx.floor("homonym uses compared with the reference", n, 100)


# ---------------------------------------------------------------------------------------------
# R21e
# ---------------------------------------------------------------------------------------------

R21E_EXCEPTIONS = {
    "_collection._compute_partition_stats": "only chooses the wording of an error / warning message",
    "_reductions.ShuffleReduce._lower": "placeholder label for the temporary frame; translated back before the lowering returns (R07e)",
}


def _bare_terms(test):
    if isinstance(test, ast.BoolOp):
        for v in test.values:
            yield from _bare_terms(v)
    elif isinstance(test, ast.UnaryOp) and isinstance(test.op, ast.Not):
        yield from _bare_terms(test.operand)
    else:
        yield test


@rule(
    "R21e",
    ["C07", "C17", "C01"],
    """A LABEL IS COMPARED WITH `is None`, NEVER TESTED FOR TRUTH: 0, "" and False are legal Series / index names and column labels
    (`pd.Series(..., name=0)`, the value column of an unnamed `reset_index`). A condition whose term is a bare `<x>.name`
    (`if s.name:`, `s.ndim == 1 and s.name`, `s.name or default`) treats those like "unnamed" and takes the other branch - a binary
    operator with a re-imported dask array skipped its column selection for a Series named 0. Uses confirmed harmless are listed as
    exceptions (message wording, placeholders that are translated back).""",
)
def r21e(ctx):
    model = ctx.model
    n = 0
    for mod, cls, fn in model.all_functions():
        fq = (f"{mod.name.split('.', 1)[-1]}.{cls.name}.{fn.name}" if cls is not None else f"{mod.name.split('.', 1)[-1]}.{fn.name}")
        for node in ast.walk(fn):
            tests = []
            if isinstance(node, (ast.If, ast.IfExp, ast.While)):
                tests.append(node.test)
            if isinstance(node, ast.BoolOp) and isinstance(node.op, ast.Or):
                tests += node.values[:-1]
            if isinstance(node, ast.BoolOp) and isinstance(node.op, ast.And):
                tests += node.values
            for t in tests:
                for b in _bare_terms(t):
                    if isinstance(b, ast.Attribute) and b.attr == "name":
                        n += 1
                        cid = f"{fq}:truthiness:{ast.unparse(b)}"
                        if fq in R21E_EXCEPTIONS:
                            ctx.exempt(cid, mod.loc(b), R21E_EXCEPTIONS[fq])
                        else:
                            ctx.bad(cid, mod.loc(b), f"`{ast.unparse(node)[:90]}` tests the label `{ast.unparse(b)}` for truth: a Series / index named 0, '' or False is treated as unnamed and the other branch is taken (compare with `is None` / `is not None`)")
    ctx.ok("labels-tested-for-truth", "", f"{n} truthiness tests of a `.name` found, all covered by reasoned exceptions" if n else "no truthiness test of a label")


# ---------------------------------------------------------------------------------------------
# R21f
# ---------------------------------------------------------------------------------------------


@rule(
    "R21f",
    ["C04", "C02", "C01"],
    """AN AXIS THAT IS COMPARED WITH A NUMBER HAS BEEN NORMALISED TO A NUMBER: the public methods accept axis as 0 / 1 / "index" / "columns";
    `_validate_axis(axis)` maps the names to numbers, `_validate_axis(axis, numeric_axis=False)` only validates. A method that branches
    on `axis == 1` / `axis == 0` / `axis in (0, 1)` after the non-normalising call takes the wrong branch for axis="columns" / "index" -
    DataFrame.clip(axis="columns") then goes down the partitionwise path that prunes columns and aligns nothing.""",
)
def r21f(ctx):
    from sa import flow

    model = ctx.model
    n = 0
    for mod, cls, fn in model.all_functions():
        defs = None
        for cmp_ in (x for x in ast.walk(fn) if isinstance(x, ast.Compare) and isinstance(x.left, ast.Name)):
            nums = [c for c in cmp_.comparators if (isinstance(c, ast.Constant) and isinstance(c.value, int) and not isinstance(c.value, bool)) or (isinstance(c, (ast.Tuple, ast.List, ast.Set)) and c.elts and all(isinstance(e, ast.Constant) and isinstance(e.value, int) and not isinstance(e.value, bool) for e in c.elts))]
            if not nums:
                continue
            var = cmp_.left.id
            if defs is None:
                defs = flow.Defs(fn)
            rd = [d for d in defs.reaching(var, cmp_) if d.value is not None]
            calls = [d.value for d in rd if isinstance(d.value, ast.Call) and isinstance(d.value.func, ast.Attribute) and d.value.func.attr == "_validate_axis"]
            if not calls:
                continue
            n += 1
            fq = (f"{mod.name.split('.', 1)[-1]}.{cls.name}.{fn.name}" if cls is not None else f"{mod.name.split('.', 1)[-1]}.{fn.name}")
            cid = f"{fq}:axis-compared-with-number:{ast.unparse(cmp_)}"
            raw = [c for c in calls if any(kw.arg == "numeric_axis" and isinstance(kw.value, ast.Constant) and kw.value.value is False for kw in c.keywords) or (len(c.args) >= 2 and isinstance(c.args[1], ast.Constant) and c.args[1].value is False)]
            if raw:
                ctx.bad(cid, mod.loc(cmp_), f"`{ast.unparse(cmp_)}` compares `{var}` with a number although it comes from `{ast.unparse(raw[0])}`, which keeps the spellings \"index\" / \"columns\": for those the comparison is False and the method takes the branch meant for the other axis")
            else:
                ctx.ok(cid, mod.loc(cmp_), "the axis was normalised to a number before the comparison")
    ctx.floor("numeric comparisons of a validated axis", n, 5)
