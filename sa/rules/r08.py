"""C08 (names deterministic and collision free) and the determinism clause of C19."""
from __future__ import annotations

import ast

from sa import flow
from sa.model import AnalysisError, dotted, enclosing_class, unparse
from sa.rules import LEVEL_TEXT, rule
from sa.rules.util import (
    REWRITE_METHODS,
    external_name,
    is_self_attr,
    is_self_operands,
    iter_body_nodes,
    own_methods,
    qual,
    resolves_to,
    shape,
)

LEVEL_TEXT["C08"] = (
    "Decides the structural part of C08: every expression name is built from ALL operands by the deterministic "
    "tokenizer, no name / key / plan-construction code consults a per-process or per-call source (uuid, time, random, "
    "id, builtin hash), and no unordered collection is iterated into an ordered operand, name or key. "
    "Undecided: hash collisions between values, third-party __dask_tokenize__."
)
LEVEL_TEXT["C19"] = (
    "Decides only the clause 'produces the same plan every time': no rewrite rule or plan-construction code consults a "
    "non-deterministic source or iterates an unordered collection into an ordered operand. Termination and idempotence "
    "are NOT decided (rewrite system over an unbounded program space)."
)

TOKENIZER = "dask_expr._util._tokenize_deterministic"

# ---------------------------------------------------------------------------------------
# R08a
# ---------------------------------------------------------------------------------------

# class -> reason the name legitimately does not splat all operands (keyed by defining class)
R08A_EXCEPTIONS = {
    "_expr._DelayedExpr": "name is the wrapped Delayed object's own key; the single operand is that object",
}


def _full_operand_token(model, mod, ret_value):
    """A call to the deterministic tokenizer whose arguments contain *self.operands."""
    for call in (n for n in ast.walk(ret_value) if isinstance(n, ast.Call)):
        if not resolves_to(model, mod, call.func, TOKENIZER):
            continue
        for a in call.args:
            if isinstance(a, ast.Starred) and is_self_operands(a.value):
                return call
    return None


def _is_super_name(node):
    return any(
        isinstance(n, ast.Attribute)
        and n.attr == "_name"
        and isinstance(n.value, ast.Call)
        and isinstance(n.value.func, ast.Name)
        and n.value.func.id == "super"
        for n in ast.walk(node)
    )


@rule(
    "R08a",
    ["C08", "C19", "C17", "C01", "C06", "C11"],
    """NAME COVERS ALL OPERANDS: every _name definition returns, on every path, a string containing
    _tokenize_deterministic(*self.operands) (full splat) or super()._name. ReadParquet may drop exactly its last
    operand, which must be _dataset_info_cache in every reader class, and must add the dataset checksum and the class.""",
)
def r08a(ctx):
    model = ctx.model
    defs = own_methods(model, "_name", expr_only=False)
    defs = [(c, m) for c, m in defs if model.is_expr(c)]
    ctx.floor("_name definitions", len(defs), 14)
    for c, m in defs:
        fn = m.node
        rets = flow.returns(fn)
        if not rets:
            ctx.bad(qual(c, fn), c.module.loc(fn), "_name has no return statement")
            continue
        for i, p in enumerate(rets):
            cid = f"{qual(c, fn)}#return{i}"
            v = p.stmt.value
            loc = c.module.loc(p.stmt)
            if v is None:
                ctx.bad(cid, loc, "_name returns None")
                continue
            if _full_operand_token(model, c.module, v) or _is_super_name(v):
                ctx.ok(cid, loc, unparse(v))
                continue
            if c.qual in R08A_EXCEPTIONS:
                ctx.exempt(cid, loc, R08A_EXCEPTIONS[c.qual])
                continue
            if c.name == "ReadParquet" and _readparquet_name_ok(ctx, c, v):
                ctx.ok(cid, loc, "operands[:-1] + checksum + class; last parameter is _dataset_info_cache in all readers")
                continue
            ctx.bad(
                cid,
                loc,
                f"name is not built from all operands: `{unparse(v)}` has no _tokenize_deterministic(*self.operands) "
                "- two expressions differing only in an omitted operand share a name",
            )
    # the driver side: Expr.__new__ must key the singleton registry by _name and nothing else
    core = model.core_expr
    new = model.method(core, "__new__", own=True).node
    txt = [unparse(n) for n in ast.walk(new) if isinstance(n, ast.Compare)]
    keyed = any(
        isinstance(n, ast.Compare)
        and len(n.ops) == 1
        and isinstance(n.ops[0], ast.In)
        and dotted(n.comparators[0]) in ("Expr._instances", "cls._instances")
        for n in ast.walk(new)
    )
    if keyed:
        ctx.ok("_core.Expr.__new__:registry", core.module.loc(new), "singleton registry keyed by _name")
    else:
        ctx.unclassified("_core.Expr.__new__:registry", core.module.loc(new), "registry lookup not recognised")


def _readparquet_name_ok(ctx, c, v):
    model = ctx.model
    call = None
    for n in ast.walk(v):
        if isinstance(n, ast.Call) and resolves_to(model, c.module, n.func, TOKENIZER):
            call = n
    if call is None:
        return False
    has_slice = has_checksum = has_type = False
    for a in call.args:
        if isinstance(a, ast.Starred) and isinstance(a.value, ast.Subscript) and is_self_operands(a.value.value):
            s = a.value.slice
            if (
                isinstance(s, ast.Slice)
                and s.lower is None
                and s.step is None
                and isinstance(s.upper, ast.UnaryOp)
                and isinstance(s.upper.op, ast.USub)
                and isinstance(s.upper.operand, ast.Constant)
                and s.upper.operand.value == 1
            ):
                has_slice = True
        if is_self_attr(a, "checksum"):
            has_checksum = True
        if "type(self)" in unparse(a):
            has_type = True
    if not (has_slice and has_checksum and has_type):
        return False
    for sub in model.subclasses(c, strict=True):
        params = model.parameters(sub)
        if not params or params[-1] != "_dataset_info_cache":
            ctx.bad(
                f"{sub.qual}._parameters:last",
                sub.loc,
                f"ReadParquet._name drops the last operand, which is `{params[-1] if params else None}` here, not _dataset_info_cache",
            )
            return True
    return True


# ---------------------------------------------------------------------------------------
# R08e anchors of the naming mechanism
# ---------------------------------------------------------------------------------------


@rule(
    "R08e",
    ["C08", "C16"],
    """NAMING MECHANISM ANCHORS: _tokenize_deterministic tokenizes all its arguments under
    tokenize.ensure-deterministic=True; the normalize_token registration for Expr returns expr._name; the one for
    _BackendData returns the content token, which is _tokenize_deterministic(self._data); FrameBase.__dask_tokenize__
    includes the expression name; Expr.__hash__ hashes _name.""",
)
def r08e(ctx):
    model = ctx.model
    mod, fn = model.func("_util", "_tokenize_deterministic")
    ok = False
    for w in ast.walk(fn):
        if isinstance(w, ast.With):
            cfg = unparse(w.items[0].context_expr)
            if "tokenize.ensure-deterministic" in cfg and "True" in cfg:
                for r in ast.walk(w):
                    if isinstance(r, ast.Return) and isinstance(r.value, ast.Call):
                        call = r.value
                        star = any(isinstance(a, ast.Starred) and isinstance(a.value, ast.Name) and a.value.id == fn.args.vararg.arg for a in call.args) if fn.args.vararg else False
                        if dotted(call.func) == "tokenize" and star:
                            ok = True
    (ctx.ok if ok else ctx.bad)(
        "_util._tokenize_deterministic",
        mod.loc(fn),
        "tokenize(*args) under ensure-deterministic=True" if ok else "does not tokenize all arguments under tokenize.ensure-deterministic=True",
    )

    # dask tokenizes a dict by its SORTED items; operands whose dict order decides the result (the column order of an
    # aggregation spec) need an order-preserving form before they are tokenized: the arguments must pass through a helper of
    # the package that rebuilds dicts from `.items()` in iteration order
    ordered = False
    vararg = fn.args.vararg.arg if fn.args.vararg else None
    for a_ in (x for x in ast.walk(fn) if isinstance(x, ast.Assign)):
        if vararg and any(isinstance(t, ast.Name) and t.id == vararg for t in a_.targets):
            for c_ in (x for x in ast.walk(a_.value) if isinstance(x, ast.Call) and isinstance(x.func, ast.Name)):
                r_ = model.resolve_name(mod, c_.func.id)
                if r_ is not None and r_[0] == "func":
                    body = r_[2]
                    has_items = any(isinstance(x, ast.Call) and isinstance(x.func, ast.Attribute) and x.func.attr == "items" for x in ast.walk(body))
                    no_sort = not any(isinstance(x, ast.Call) and dotted(x.func) in ("sorted", "set", "frozenset") for x in ast.walk(body))
                    tests_dict = any(isinstance(x, ast.Name) and x.id == "dict" for x in ast.walk(body))
                    ordered = ordered or (has_items and no_sort and tests_dict)
    (ctx.ok if ordered else ctx.bad)("_util._tokenize_deterministic:dict-order", mod.loc(fn), "dict operands are tokenized in iteration order" if ordered else "dict operands are tokenized by their sorted items: two expressions whose dict operand differs only in order (groupby.agg specs, dtypes of timeseries) share a name although the order decides the result")
    # normalize_token registrations
    regs = []
    for m in model.modules.values():
        for node in ast.walk(m.tree):
            if isinstance(node, ast.FunctionDef):
                for d in node.decorator_list:
                    if isinstance(d, ast.Call) and dotted(d.func) == "normalize_token.register" and d.args:
                        regs.append((m, node, dotted(d.args[0]) or unparse(d.args[0])))
    ctx.info("normalize_token registrations", [f"{m.rel}:{n.name}({t})" for m, n, t in regs])
    by_type = {t: (m, n) for m, n, t in regs}
    for t, want, why in (
        ("Expr", "_name", "expression tokens must be their names"),
        ("_BackendData", "_token", "wrapped source data must be tokenized by content"),
    ):
        if t not in by_type:
            raise AnalysisError(f"anchor vanished: normalize_token registration for {t}")
        m, n = by_type[t]
        rets = [r for r in ast.walk(n) if isinstance(r, ast.Return)]
        arg = n.args.args[0].arg
        good = rets and all(isinstance(r.value, ast.Attribute) and r.value.attr == want and isinstance(r.value.value, ast.Name) and r.value.value.id == arg for r in rets)
        (ctx.ok if good else ctx.bad)(f"normalize_token[{t}]", m.loc(n), f"returns {arg}.{want}" if good else f"does not return {arg}.{want}: {why}")

    bd = model.cls("_BackendData")
    tok = model.method(bd, "_token", own=True).node
    good = False
    for r in ast.walk(tok):
        if isinstance(r, ast.Return) and isinstance(r.value, ast.Call):
            if dotted(r.value.func) == "_tokenize_deterministic" and len(r.value.args) == 1 and is_self_attr(r.value.args[0], "_data") and not r.value.keywords:
                good = True
    (ctx.ok if good else ctx.bad)("_util._BackendData._token", bd.module.loc(tok), "token of the full wrapped data" if good else "token is not _tokenize_deterministic(self._data)")

    for cname, modname in (("Expr", "_core"), ("Expr", "_expr")):
        c = model.cls(cname, modname)
        h = c.members.get("__hash__")
        if h is None:
            continue
        good = any(isinstance(r, ast.Return) and unparse(r.value) == "hash(self._name)" for r in ast.walk(h.node))
        (ctx.ok if good else ctx.bad)(f"{c.qual}.__hash__", c.module.loc(h.node), "hash(self._name)" if good else "hash is not derived from _name alone")

    fb = model.cls("FrameBase")
    tk = fb.members.get("__dask_tokenize__")
    if tk is None:
        raise AnalysisError("anchor vanished: FrameBase.__dask_tokenize__")
    good = any(isinstance(r, ast.Return) and any(isinstance(a, ast.Attribute) and a.attr == "_name" for a in ast.walk(r.value)) for r in ast.walk(tk.node))
    (ctx.ok if good else ctx.bad)("_collection.FrameBase.__dask_tokenize__", fb.module.loc(tk.node), "includes expr._name" if good else "collection token does not include the expression name")


# ---------------------------------------------------------------------------------------
# R08b forbidden sources
# ---------------------------------------------------------------------------------------

FORBIDDEN_EXTERNAL_PREFIXES = (
    "uuid.",
    "time.time",
    "time.perf_counter",
    "time.monotonic",
    "time.time_ns",
    "random.",
    "secrets.",
    "os.urandom",
    "os.getpid",
    "numpy.random.",
    "datetime.datetime.now",
    "datetime.datetime.utcnow",
    "datetime.date.today",
)
FORBIDDEN_BUILTINS = {"id", "hash"}
NAMING_METHODS = ("_name", "_funcname", "token", "_token", "__dask_tokenize__", "checksum")
PLAN_METHODS = REWRITE_METHODS + ("_divisions", "_meta", "npartitions", "_npartitions", "_divisions_and_locations")
TASK_METHODS = ("_layer", "_task", "_filtered_task", "_blockwise_arg")

# (class qual, method) -> reason
R08B_EXCEPTIONS = {
    ("_shuffle.DiskShuffle", "_layer"): "fresh per-materialisation token names only the internal barrier / partd keys; output keys stay (self._name, i) (DESIGN 4 note c)",
    ("_core.Expr", "__hash__"): "hash of the deterministic name string, used only for in-process dict/set membership",
    ("_expr.Expr", "__hash__"): "hash of the deterministic name string, used only for in-process dict/set membership",
}


def _forbidden_in(model, mod, fn):
    hits = []
    for n in iter_body_nodes(fn):
        if not isinstance(n, ast.Call):
            continue
        f = n.func
        if isinstance(f, ast.Name) and f.id in FORBIDDEN_BUILTINS and model.resolve_name(mod, f.id) is None:
            hits.append((n, f"{f.id}()"))
            continue
        ext = external_name(model, mod, f)
        if ext is None:
            continue
        ext_n = ext.replace("np.random", "numpy.random")
        if ext_n.startswith("numpy.random.RandomState") or ext_n.startswith("numpy.random.default_rng"):
            if n.args or n.keywords:
                continue  # explicitly seeded
        if any(ext_n.startswith(p) for p in FORBIDDEN_EXTERNAL_PREFIXES):
            hits.append((n, ext_n))
    return hits


def _scoped_functions(model, methods, include_helpers=True):
    """(class, fn, role) for every own definition of the given method names in Expr classes, plus
    module-level helpers and same-class methods they call (one level)."""
    out = []
    seen = set()
    for c in model.classes:
        for name in methods:
            m = c.members.get(name)
            if m is None or m.kind == "attr":
                continue
            if id(m.node) in seen:
                continue
            seen.add(id(m.node))
            out.append((c, c.module, m.node, name))
            if not include_helpers:
                continue
            for call in (n for n in iter_body_nodes(m.node) if isinstance(n, ast.Call)):
                tgt = None
                if is_self_attr(call.func):
                    mm = c.provider(call.func.attr)
                    if mm is not None and mm.kind != "attr" and mm.name not in methods:
                        tgt = (mm.cls, mm.cls.module, mm.node)
                elif isinstance(call.func, ast.Name):
                    r = model.resolve_name(c.module, call.func.id)
                    if r is not None and r[0] == "func":
                        tgt = (None, r[1], r[2])
                if tgt is not None and id(tgt[2]) not in seen:
                    seen.add(id(tgt[2]))
                    out.append((tgt[0], tgt[1], tgt[2], f"helper of {c.name}.{name}"))
    return out


def _r08b(ctx, methods, floor):
    model = ctx.model
    fns = _scoped_functions(model, methods)
    ctx.floor("functions in scope", len(fns), floor)
    for c, mod, fn, role in fns:
        cid = qual(c, fn) if c is not None else f"{mod.name.split('.', 1)[-1]}.{fn.name}"
        hits = _forbidden_in(model, mod, fn)
        if not hits:
            ctx.ok(cid, mod.loc(fn), role)
            continue
        key = (c.qual if c is not None else mod.name, fn.name)
        for call, what in hits:
            if key in R08B_EXCEPTIONS:
                ctx.exempt(f"{cid}:{what}", mod.loc(call), R08B_EXCEPTIONS[key])
            else:
                ctx.bad(
                    f"{cid}:{what}",
                    mod.loc(call),
                    f"{role}: consults per-process / per-call source `{unparse(call)}`; names, plans and keys built from it differ between runs",
                )


@rule(
    "R08b",
    ["C08", "C19", "C16"],
    """NO NON-DETERMINISTIC SOURCE in naming code (_name, _funcname, token, _token, __dask_tokenize__, checksum), in
    plan construction (_simplify_*, _tune_*, _lower, _divisions, _meta, npartitions) or in task builders (_layer,
    _task, _filtered_task), including same-class / module helpers they call: uuid, time, random, unseeded
    numpy.random, id(), builtin hash(), os.urandom, getpid. Exception table keyed by (class, method).""",
)
def r08b(ctx):
    _r08b(ctx, NAMING_METHODS + PLAN_METHODS + TASK_METHODS, 300)


@rule(
    "R19b",
    ["C19"],
    """NO NON-DETERMINISTIC SOURCE in plan construction: same scan as R08b restricted to _simplify_*, _tune_*, _lower,
    _divisions, _meta, npartitions and the helpers they call.""",
)
def r19b(ctx):
    _r08b(ctx, PLAN_METHODS, 200)


# ---------------------------------------------------------------------------------------
# R08c set-order dependence
# ---------------------------------------------------------------------------------------

SET_METHODS = {"union", "intersection", "difference", "symmetric_difference", "copy"}
# _sort_mixed (dask_expr._expr) is a total sort (ints < strings < tuples < nulls), read and confirmed
ORDER_FREE_CONSUMERS = {"sorted", "set", "frozenset", "len", "sum", "min", "max", "any", "all", "bool", "Counter", "_sort_mixed"}


class SetKinds:
    """Which expressions in a function denote unordered collections (set / frozenset)."""

    def __init__(self, model, mod, cls, fn):
        self.model, self.mod, self.cls, self.fn = model, mod, cls, fn
        self.defs = flow.Defs(fn)
        self.self_is_set = cls is not None and any(b in ("frozenset", "set") for c in cls.mro for b in c.external_bases)
        self._memo = {}

    def is_set(self, node, depth=0):
        k = id(node)
        if k in self._memo:
            return self._memo[k]
        self._memo[k] = False
        r = self._is_set(node, depth)
        self._memo[k] = r
        return r

    def _is_set(self, node, depth):
        if depth > 6:
            return False
        if isinstance(node, (ast.Set, ast.SetComp)):
            return True
        if isinstance(node, ast.Call):
            f = node.func
            if isinstance(f, ast.Name) and f.id in ("set", "frozenset"):
                return True
            if isinstance(f, ast.Attribute) and f.attr in SET_METHODS and self.is_set(f.value, depth + 1):
                return True
            if isinstance(f, ast.Attribute) and f.attr == "keys":
                return False
            # constructor of a frozenset subclass defined in the repo (e.g. _DNF._Or)
            return self._ctor_of_set(f)
        if isinstance(node, ast.BinOp) and isinstance(node.op, (ast.BitOr, ast.BitAnd, ast.Sub, ast.BitXor)):
            return self.is_set(node.left, depth + 1) or self.is_set(node.right, depth + 1)
        if isinstance(node, ast.IfExp):
            return self.is_set(node.body, depth + 1) or self.is_set(node.orelse, depth + 1)
        if isinstance(node, ast.Subscript) and isinstance(node.value, ast.Name) and node.value.id in self._dict_of_sets():
            return True
        if isinstance(node, ast.Name):
            if node.id == "self":
                return self.self_is_set
            ds = self.defs.reaching(node.id, node)
            vals = [d for d in ds if d.kind in ("assign", "walrus", "aug")]
            if not vals or any(d.kind == "param" for d in ds):
                return False
            return all(d.value is not None and d.value is not node and self.is_set(d.value, depth + 1) for d in vals)
        return False

    def _dict_of_sets(self):
        """local names bound to a mapping whose values are sets: defaultdict(set) or D[k] = set()"""
        if hasattr(self, "_dos"):
            return self._dos
        out = set()
        for n in iter_body_nodes(self.fn):
            if isinstance(n, ast.Assign):
                v = n.value
                for t in n.targets:
                    if isinstance(t, ast.Name) and isinstance(v, ast.Call) and dotted(v.func) in ("defaultdict", "collections.defaultdict") and v.args and dotted(v.args[0]) in ("set", "frozenset"):
                        out.add(t.id)
                    if isinstance(t, ast.Subscript) and isinstance(t.value, ast.Name) and (isinstance(v, (ast.Set, ast.SetComp)) or (isinstance(v, ast.Call) and dotted(v.func) in ("set", "frozenset"))):
                        out.add(t.value.id)
        self._dos = out
        return out

    def _ctor_of_set(self, f):
        if isinstance(f, ast.Name) and f.id in ("set", "frozenset"):
            return True
        name = None
        if isinstance(f, ast.Attribute) and isinstance(f.value, ast.Name) and f.value.id in ("cls", "self", "_DNF"):
            name = f.attr
        elif isinstance(f, ast.Name):
            name = f.id
        if name is None:
            return False
        for c in self.model.classes:
            if c.name.split(".")[-1] == name and c.module is self.mod:
                return any(b in ("frozenset", "set") for k in c.mro for b in k.external_bases)
        return False


def _order_free_use(node, fn):
    """Is the ordered materialisation ``node`` consumed only by an order-insensitive operation?"""
    p = getattr(node, "_parent", None)
    if isinstance(p, ast.Call) and node in p.args:
        f = p.func
        if isinstance(f, ast.Name) and f.id in ORDER_FREE_CONSUMERS:
            return True
        if len(p.args) == 1 and not p.keywords and dotted(f) in ("pd.Index", "np.array", "np.asarray", "list", "tuple"):
            return _order_free_use(p, fn)  # a plain container conversion: look at its consumer
        if isinstance(f, ast.Attribute) and f.attr in ("issubset", "issuperset", "isdisjoint", "update", "union", "intersection", "difference"):
            return True
    if isinstance(p, ast.Compare):
        # membership / equality against it
        if any(isinstance(o, (ast.In, ast.NotIn)) for o in p.ops) and node in p.comparators:
            return True
    if isinstance(p, ast.Starred):
        return _order_free_use(p, fn)
    return False


def set_order_sites(model, mod, cls, fn):
    """Yield (node, description) where an unordered collection is turned into an ordered value."""
    sk = SetKinds(model, mod, cls, fn)
    if not sk.self_is_set and not sk._dict_of_sets() and not any(
        isinstance(n, (ast.Set, ast.SetComp))
        or (isinstance(n, ast.Call) and isinstance(n.func, (ast.Name, ast.Attribute)) and sk._ctor_of_set(n.func))
        for n in iter_body_nodes(fn)
    ):
        return
    for n in iter_body_nodes(fn):
        if isinstance(n, ast.Call):
            f = n.func
            if isinstance(f, ast.Name) and f.id in ("list", "tuple") and len(n.args) == 1 and sk.is_set(n.args[0]):
                if not _order_free_use(n, fn):
                    yield n, f"{f.id}(<set>)"
            elif isinstance(f, ast.Attribute) and f.attr == "pop" and not n.args and sk.is_set(f.value):
                yield n, "<set>.pop()"
            elif isinstance(f, ast.Attribute) and f.attr == "join" and len(n.args) == 1 and sk.is_set(n.args[0]):
                yield n, "str.join(<set>)"
            elif isinstance(f, ast.Name) and f.id in ("next", "iter", "enumerate", "zip", "map") and n.args and any(sk.is_set(a) for a in n.args):
                if not _order_free_use(n, fn):
                    yield n, f"{f.id}(<set>)"
            else:
                for a in n.args:
                    if isinstance(a, ast.Starred) and sk.is_set(a.value):
                        if not (isinstance(f, ast.Name) and f.id in ORDER_FREE_CONSUMERS):
                            yield a, "*<set> splatted into a call"
        elif isinstance(n, (ast.ListComp, ast.GeneratorExp, ast.DictComp)):
            for g in n.generators:
                if sk.is_set(g.iter):
                    if isinstance(n, ast.GeneratorExp) and _order_free_use(n, fn):
                        continue
                    if isinstance(n, ast.ListComp) and _order_free_use(n, fn):
                        continue
                    yield n, f"{type(n).__name__} iterating <set>"
        elif isinstance(n, (ast.List, ast.Tuple)):
            for e in n.elts:
                if isinstance(e, ast.Starred) and sk.is_set(e.value) and not _order_free_use(n, fn):
                    yield n, "*<set> splatted into a sequence"
        elif isinstance(n, (ast.For, ast.AsyncFor)) and sk.is_set(n.iter):
            # order matters only if the body builds an ordered value / returns early
            ordered = False
            for b in ast.walk(n):
                if isinstance(b, ast.Call) and isinstance(b.func, ast.Attribute) and b.func.attr in ("append", "extend", "insert"):
                    ordered = True
                if isinstance(b, (ast.Return, ast.Break, ast.Yield, ast.YieldFrom)):
                    ordered = True
                if isinstance(b, ast.AugAssign):
                    ordered = True
            if ordered:
                yield n, "for-loop over <set> building an ordered value"


# (function qual, shape of the site) -> reason; confirmed by reading each site on the reference tree
R08C_EXCEPTIONS = {
    ("_collection.DataFrame.__dir__", "list(<set>)"): "attribute listing for dir(); builtin dir() sorts it, never reaches an operand",
    ("_collection.Series.__dir__", "list(<set>)"): "attribute listing for dir(); builtin dir() sorts it, never reaches an operand",
    ("_collection.Index.__dir__", "list(<set>)"): "attribute listing for dir(); builtin dir() sorts it, never reaches an operand",
    ("_concat.Concat._lower", "list(<set>)"): "only iterated to fill the AsType dtype mapping: astype(mapping) is order-insensitive and dask tokenizes dicts with sorted items",
    ("io.parquet._aggregate_statistics_to_file", "<set>.pop()"): "path_in_schema of statistics already grouped per column: singleton by construction",
    ("io.parquet._combine_stats", "<set>.pop()"): "path_in_schema of statistics already grouped per column: singleton by construction",
}


def _r08c(ctx, scope_pred, floor):
    model = ctx.model
    n_fn = 0
    for mod, cls, fn in model.all_functions():
        if not scope_pred(mod, cls, fn):
            continue
        n_fn += 1
        fq = qual(cls, fn) if cls is not None else f"{mod.name.split('.', 1)[-1]}.{fn.name}"
        sites = list(set_order_sites(model, mod, cls, fn))
        if not sites:
            ctx.ok(fq, mod.loc(fn))
            continue
        for node, what in sites:
            cid = f"{fq}:{what}:{shape(node)[:80]}"
            key = (fq, what)
            if key in R08C_EXCEPTIONS:
                ctx.exempt(cid, mod.loc(node), R08C_EXCEPTIONS[key])
            else:
                ctx.bad(
                    cid,
                    mod.loc(node),
                    f"unordered collection iterated into an ordered value `{unparse(node)}`: element order follows the "
                    "per-process string hash seed, so operands / names / plans built from it differ between processes",
                )
    ctx.floor("functions scanned", n_fn, floor)


def _in_pkg_nontest(mod, cls, fn):
    return not mod.name.startswith("dask_expr.diagnostics")


@rule(
    "R08c",
    ["C08", "C18"],
    """NO SET-ORDER-DEPENDENT CONSTRUCTION: in every function of the package, a value of set kind (set()/frozenset(),
    set literals/comprehensions, set algebra, frozenset subclasses iterating self, locals bound only to such values)
    may not be materialised in iteration order (list/tuple/comprehension/for-append/pop/join/splat) unless the
    consumer is order-insensitive (sorted, set, len, membership ...). String hashes are randomised per process.""",
)
def r08c(ctx):
    _r08c(ctx, _in_pkg_nontest, 1500)


@rule(
    "R19c",
    ["C19"],
    """Same as R08c (set-order-dependent construction) - a plan that depends on set iteration order is not the same
    plan every time.""",
)
def r19c(ctx):
    _r08c(ctx, _in_pkg_nontest, 1500)


@rule(
    "R08f",
    ["C07", "C08"],
    """zip() PAIRS SEQUENCES THAT ARE IN THE SAME ORDER: `zip(sorted(xs), f(xs))` pairs the i-th SMALLEST x with the i-th value of f in the
    ORIGINAL order of xs. When one argument of a zip is `sorted(...)` / `reversed(...)` of a name and another argument is built from the
    same name without that reordering, the pairs are wrong for every xs that is not already sorted (PivotTable's hand-written meta gave
    each value column the dtype of another column).""",
)
def r08f(ctx):
    model = ctx.model
    n = 0
    for mod, cls, fn in model.all_functions():
        for z in (x for x in ast.walk(fn) if isinstance(x, ast.Call) and dotted(x.func) == "zip" and len(x.args) >= 2):
            n += 1
            reordered = [a for a in z.args if isinstance(a, ast.Call) and dotted(a.func) in ("sorted", "reversed") and a.args]
            if not reordered:
                continue
            fq = qual(cls, fn) if cls is not None else f"{mod.name.split('.', 1)[-1]}.{fn.name}"
            for r in reordered:
                base = {y.id for y in ast.walk(r.args[0]) if isinstance(y, ast.Name)}
                for other in z.args:
                    if other is r or (isinstance(other, ast.Call) and dotted(other.func) == dotted(r.func)):
                        continue
                    if base & {y.id for y in ast.walk(other) if isinstance(y, ast.Name)}:
                        ctx.bad(f"{fq}:zip-order:{ast.unparse(z)[:60]}", mod.loc(z), f"`{ast.unparse(z)[:100]}` pairs `{ast.unparse(r)}` with `{ast.unparse(other)[:50]}`, which is built from the same sequence in its ORIGINAL order: unless that sequence happens to be sorted, every element is paired with the value of another one")
    ctx.ok("zips-scanned", "", f"{n} zip() calls scanned for mixed orders")
    ctx.floor("zip calls", n, 15)
