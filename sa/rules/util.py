"""Helpers shared by the rules."""
from __future__ import annotations

import ast
import copy

from sa import flow
from sa.model import AnalysisError, ClassInfo, Model, dotted, enclosing_class, unparse

REWRITE_METHODS = ("_simplify_up", "_simplify_down", "_tune_up", "_tune_down", "_lower")


def qual(cls: ClassInfo | None, fn) -> str:
    name = fn if isinstance(fn, str) else fn.name
    return f"{cls.qual}.{name}" if cls is not None else name


def own_methods(model: Model, name: str, expr_only=True):
    """(class, Member) for every class that itself defines ``name``."""
    out = []
    for c in model.classes:
        if expr_only and not model.is_expr(c):
            continue
        m = c.members.get(name)
        if m is not None and m.kind != "attr":
            out.append((c, m))
    return out


def is_self_attr(node, attr=None, selfname="self"):
    return (
        isinstance(node, ast.Attribute)
        and isinstance(node.value, ast.Name)
        and node.value.id == selfname
        and (attr is None or node.attr == attr)
    )


def is_self_operands(node):
    return is_self_attr(node, "operands")


def resolves_to(model: Model, mod, node, dotted_target: str) -> bool:
    """Does Name/Attribute ``node`` in module ``mod`` resolve to the given package function/class
    (e.g. 'dask_expr._util._tokenize_deterministic')?"""
    r = model.resolve_expr(mod, node)
    if r is None:
        return False
    if r[0] == "func":
        return f"{r[1].name}.{r[2].name}" == dotted_target
    if r[0] == "class":
        return f"{r[1].module.name}.{r[1].name}" == dotted_target
    if r[0] == "external":
        return r[1] == dotted_target
    return False


def external_name(model: Model, mod, node) -> str | None:
    """Fully qualified external name of a Name/Attribute (e.g. 'uuid.uuid1', 'numpy.random.randint')."""
    r = model.resolve_expr(mod, node)
    if r is not None and r[0] == "external":
        return r[1]
    return None


def clone(node):
    """Copy of an expression / statement without the _parent back links (deepcopy would follow them)."""
    if isinstance(node, ast.expr):
        return ast.parse(ast.unparse(node), mode="eval").body
    return ast.parse(ast.unparse(node)).body[0]


def shape(node, keep=()) -> str:
    """Structure of an expression with local names abstracted: robust to renaming and formatting."""
    node = clone(node)
    for n in ast.walk(node):
        if isinstance(n, ast.Name) and n.id not in keep and n.id != "self":
            n.id = "_"
    return ast.unparse(node)


def self_calls(fn, selfname="self"):
    """names m such that ``self.m(...)`` is called in fn."""
    out = set()
    for n in ast.walk(fn):
        if isinstance(n, ast.Call) and is_self_attr(n.func, None, selfname):
            out.add(n.func.attr)
    return out


def iter_body_nodes(fn):
    """ast.walk over a function body without descending into nested defs / classes."""
    stack = [s for s in fn.body if not isinstance(s, (ast.FunctionDef, ast.AsyncFunctionDef, ast.ClassDef))]
    while stack:
        n = stack.pop()
        yield n
        for c in ast.iter_child_nodes(n):
            if isinstance(c, (ast.FunctionDef, ast.AsyncFunctionDef, ast.ClassDef)):
                continue
            stack.append(c)


def const_str(node):
    return node.value if isinstance(node, ast.Constant) and isinstance(node.value, str) else None


def isinstance_tests(expr):
    """Yield (subject expr, [class name nodes]) for each isinstance(...) call in expr."""
    for n in ast.walk(expr):
        if isinstance(n, ast.Call) and isinstance(n.func, ast.Name) and n.func.id == "isinstance" and len(n.args) == 2:
            t = n.args[1]
            elts = t.elts if isinstance(t, ast.Tuple) else [t]
            yield n, n.args[0], elts


def fact_isinstance(point_or_facts, subject_name: str):
    """Class-name expressions C such that isinstance(<subject_name>, C) is known true at the point.
    Returns list of (names list, polarity)."""
    out = []
    fs = flow.facts(point_or_facts) if isinstance(point_or_facts, flow.Point) else point_or_facts
    for term, pol in fs:
        if isinstance(term, ast.Call) and isinstance(term.func, ast.Name) and term.func.id == "isinstance" and len(term.args) == 2:
            subj = term.args[0]
            if isinstance(subj, ast.Name) and subj.id == subject_name:
                t = term.args[1]
                elts = t.elts if isinstance(t, ast.Tuple) else [t]
                out.append(([dotted(e) or unparse(e) for e in elts], pol))
    return out


# ----------------------------------------------------------------------------
# F5: Expr constructor calls
# ----------------------------------------------------------------------------


class Bound:
    """Binding of a constructor call's arguments to the target class's _parameters."""

    def __init__(self, cls, params, call):
        self.cls = cls
        self.params = params
        self.call = call
        self.args = {}  # param -> node
        self.open_from = None  # index from which a *splat fills positionals (unknown length)
        self.splat_node = None
        self.open_kwargs = None  # node of **kwargs if present
        self.extra_positional = []  # positionals beyond the declared parameters
        self.unknown_keywords = []

    def passed(self, p):
        return p in self.args

    def maybe_passed(self, p):
        if p in self.args:
            return True
        if self.open_kwargs is not None:
            return True
        if self.open_from is not None and p in self.params and self.params.index(p) >= self.open_from:
            return True
        return False


def bind_call(model, cls, call) -> Bound:
    params = model.parameters(cls)
    b = Bound(cls, params, call)
    i = 0
    for a in call.args:
        if isinstance(a, ast.Starred):
            b.open_from = i
            b.splat_node = a.value
            break
        if i < len(params):
            b.args[params[i]] = a
        else:
            b.extra_positional.append(a)
        i += 1
    for kw in call.keywords:
        if kw.arg is None:
            b.open_kwargs = kw.value
        elif kw.arg in params:
            b.args[kw.arg] = kw.value
        else:
            b.unknown_keywords.append(kw.arg)
    return b


def ctor_target(model, mod, owner_cls, call, selfname="self"):
    """Which Expr class does this call construct?  Returns (ClassInfo, how) or None.
    how: 'name' (ClassName(...)), 'type(self)', 'type(x)' (dynamic: class of another expression)."""
    f = call.func
    if isinstance(f, ast.Call) and isinstance(f.func, ast.Name) and f.func.id == "type" and len(f.args) == 1:
        a = f.args[0]
        if isinstance(a, ast.Name) and a.id == selfname and owner_cls is not None:
            return owner_cls, "type(self)"
        return None
    r = model.resolve_expr(mod, f) if isinstance(f, (ast.Name, ast.Attribute)) else None
    if r is not None and r[0] == "class" and model.is_expr(r[1]):
        return r[1], "name"
    # function-local imports
    if isinstance(f, ast.Name):
        fn = f
        while fn is not None and not isinstance(fn, (ast.FunctionDef, ast.AsyncFunctionDef)):
            fn = getattr(fn, "_parent", None)
        while fn is not None:
            for n in ast.walk(fn):
                if isinstance(n, ast.ImportFrom):
                    for al in n.names:
                        if (al.asname or al.name) == f.id:
                            m = model.modules.get(n.module or "")
                            if m is not None:
                                rr = model.resolve_name(m, al.name)
                                if rr is not None and rr[0] == "class" and model.is_expr(rr[1]):
                                    return rr[1], "name"
            fn = getattr(fn, "_parent", None)
            while fn is not None and not isinstance(fn, (ast.FunctionDef, ast.AsyncFunctionDef)):
                fn = getattr(fn, "_parent", None)
    return None


def reads_of_self(model, cls, node, selfname="self", depth=2, _seen=None):
    """Parameters of ``cls`` that evaluating ``node`` may read: self.p / self.operand('p') directly,
    or through properties / methods of the class (to the given depth)."""
    out = set()
    params = set(model.parameters(cls))
    _seen = _seen if _seen is not None else set()
    for n in ast.walk(node):
        if is_self_attr(n, None, selfname):
            a = n.attr
            kind, mem = model.attr_kind(cls, a)
            if kind == "operand":
                out.add(a)
            elif mem is not None and mem.kind != "attr" and depth > 0 and id(mem.node) not in _seen:
                _seen.add(id(mem.node))
                out |= reads_of_self(model, cls, mem.node, "self", depth - 1, _seen)
            if a == "operands":
                out |= {"*operands"}
        if isinstance(n, ast.Call) and is_self_attr(n.func, "operand", selfname) and n.args:
            s = const_str(n.args[0])
            if s is not None and s in params:
                out.add(s)
    return out


# ----------------------------------------------------------------------------
# one level of helper inlining for anchor checks
# ----------------------------------------------------------------------------


def callee(model, mod, cls, call):
    """FunctionDef (and its module, class) of `self.m(...)` / `cls.m(...)` / `func(...)` / `Class.m(...)` if defined in the repo."""
    f = call.func
    if isinstance(f, ast.Attribute) and isinstance(f.value, ast.Name) and f.value.id in ("self", "cls") and cls is not None:
        m = cls.provider(f.attr)
        if m is not None and m.kind != "attr":
            return m.cls.module, m.cls, m.node
    if isinstance(f, ast.Name):
        r = model.resolve_name(mod, f.id)
        if r is not None and r[0] == "func":
            return r[1], None, r[2]
    if isinstance(f, ast.Attribute) and isinstance(f.value, ast.Name):
        r = model.resolve_name(mod, f.value.id)
        if r is not None and r[0] == "class":
            m = r[1].provider(f.attr)
            if m is not None and m.kind != "attr":
                return m.cls.module, m.cls, m.node
    return None


def closure_text(model, mod, cls, node, depth=1, _seen=None):
    """source text of node plus the bodies of repo functions it calls (to the given depth): anchor checks phrased as
    'the code mentions X' stay true when a few lines are extracted into a private helper."""
    _seen = _seen if _seen is not None else set()
    out = [ast.unparse(node)]
    if depth <= 0:
        return out[0]
    for c in ast.walk(node):
        if isinstance(c, ast.Call):
            t = callee(model, mod, cls, c)
            if t is not None and id(t[2]) not in _seen:
                _seen.add(id(t[2]))
                out.append(closure_text(model, t[0], t[1], t[2], depth - 1, _seen))
    return "\n".join(out)


# ---------------------------------------------------------------------------------------------
# structural templates with metavariables (rename-insensitive anchors)
# ---------------------------------------------------------------------------------------------
_TEMPLATE_CACHE: dict = {}


def _template(src):
    t = _TEMPLATE_CACHE.get(src)
    if t is None:
        mod = ast.parse(src)
        body = mod.body[0]
        t = body.value if isinstance(body, ast.Expr) else body
        _TEMPLATE_CACHE[src] = t
    return t


def pmatch(template, node, binds=None):
    """Match ``node`` against a template given as source text.  Names of the form ``V_x`` are metavariables: they match
    any expression (or assignment target) and must match the same text at every occurrence.  ``V__`` matches anything
    without binding.  Everything else must agree structurally (contexts and positions ignored).
    Returns the bindings {metavariable: source text} or None."""
    t = _template(template) if isinstance(template, str) else template
    b = dict(binds or {})
    return b if _pm(t, node, b) else None


def _pm(t, n, b):
    if isinstance(t, ast.Name) and t.id.startswith("V_"):
        if not isinstance(n, ast.AST):
            return False
        if t.id == "V__":
            return True
        txt = ast.unparse(n)
        if t.id in b:
            return b[t.id] == txt
        b[t.id] = txt
        return True
    if isinstance(t, ast.AST):
        if type(t) is not type(n):
            return False
        for f in t._fields:
            if f == "ctx":
                continue
            if not _pm(getattr(t, f, None), getattr(n, f, None), b):
                return False
        return True
    if isinstance(t, list):
        if not isinstance(n, list) or len(t) != len(n):
            return False
        return all(_pm(x, y, b) for x, y in zip(t, n))
    if isinstance(t, str) and isinstance(n, str) and t.startswith("V_"):
        # metavariable in an identifier slot (attribute name, keyword, arg): bind to the identifier
        if t in b:
            return b[t] == n
        b[t] = n
        return True
    return t == n


def pfind(template, root, binds=None):
    """all (node, bindings) under root that match the template"""
    t = _template(template)
    out = []
    for n in ast.walk(root):
        if type(n) is type(t):
            b = pmatch(t, n, binds)
            if b is not None:
                out.append((n, b))
    return out


def locals_defined_by(fn, template, binds=None):
    """names of the locals of ``fn`` that are assigned (somewhere) a value matching the template - the way rules identify a
    local by what it holds rather than by what it is called"""
    out = []
    for n in ast.walk(fn):
        if isinstance(n, ast.Assign) and len(n.targets) == 1 and isinstance(n.targets[0], ast.Name):
            if pmatch(template, n.value, binds) is not None and n.targets[0].id not in out:
                out.append(n.targets[0].id)
        elif isinstance(n, ast.AnnAssign) and isinstance(n.target, ast.Name) and n.value is not None:
            if pmatch(template, n.value, binds) is not None and n.target.id not in out:
                out.append(n.target.id)
    return out


def one_local(fn, template, what, binds=None):
    """the single local defined by the template, or AnalysisError (anchor vanished)"""
    from sa.model import AnalysisError

    names = locals_defined_by(fn, template, binds)
    if len(names) != 1:
        raise AnalysisError(f"anchor vanished: {what} (a local assigned `{template}`; found {names})")
    return names[0]


def closure_functions(model, mod, cls, fn, depth=1):
    """[(mod, cls, FunctionDef)] : fn, the functions nested in it, and the package functions it calls (to the given depth) -
    where an anchor may live after part of ``fn`` was extracted into a helper"""
    out = [(mod, cls, fn)]
    seen = {id(fn)}
    frontier = [(mod, cls, fn, depth)]
    while frontier:
        m, c, f, d = frontier.pop()
        if d <= 0:
            continue
        for call in (x for x in ast.walk(f) if isinstance(x, ast.Call)):
            t = callee(model, m, c, call)
            if t is None and isinstance(call.func, ast.Name):
                # a function nested in f or defined at module level of m is resolved by callee(); nested defs by name:
                for n in ast.walk(f):
                    if isinstance(n, ast.FunctionDef) and n.name == call.func.id and n is not f:
                        t = (m, c, n)
            if t is not None and id(t[2]) not in seen:
                seen.add(id(t[2]))
                out.append(t)
                frontier.append((t[0], t[1], t[2], d - 1))
    return out
