"""Helpers shared by the rules."""
from __future__ import annotations

import ast
import copy

from sa import flow
from sa.model import AnalysisError, ClassInfo, Model, dotted, enclosing_class, unparse

REWRITE_METHODS = ("_simplify_up", "_simplify_down", "_tune_up", "_tune_down", "_lower")


def qual(cls: ClassInfo | None, fn) -> str:
    name = fn if isinstance(fn, str) else fn.name
    return f"{cls.qual}.{name}" if cls is not None else name


def own_methods(model: Model, name: str, expr_only=True):
    """(class, Member) for every class that itself defines ``name``."""
    out = []
    for c in model.classes:
        if expr_only and not model.is_expr(c):
            continue
        m = c.members.get(name)
        if m is not None and m.kind != "attr":
            out.append((c, m))
    return out


def is_self_attr(node, attr=None, selfname="self"):
    return (
        isinstance(node, ast.Attribute)
        and isinstance(node.value, ast.Name)
        and node.value.id == selfname
        and (attr is None or node.attr == attr)
    )


def is_self_operands(node):
    return is_self_attr(node, "operands")


def resolves_to(model: Model, mod, node, dotted_target: str) -> bool:
    """Does Name/Attribute ``node`` in module ``mod`` resolve to the given package function/class
    (e.g. 'dask_expr._util._tokenize_deterministic')?"""
    r = model.resolve_expr(mod, node)
    if r is None:
        return False
    if r[0] == "func":
        return f"{r[1].name}.{r[2].name}" == dotted_target
    if r[0] == "class":
        return f"{r[1].module.name}.{r[1].name}" == dotted_target
    if r[0] == "external":
        return r[1] == dotted_target
    return False


def external_name(model: Model, mod, node) -> str | None:
    """Fully qualified external name of a Name/Attribute (e.g. 'uuid.uuid1', 'numpy.random.randint')."""
    r = model.resolve_expr(mod, node)
    if r is not None and r[0] == "external":
        return r[1]
    return None


def clone(node):
    """Copy of an expression / statement without the _parent back links (deepcopy would follow them)."""
    if isinstance(node, ast.expr):
        return ast.parse(ast.unparse(node), mode="eval").body
    return ast.parse(ast.unparse(node)).body[0]


def shape(node, keep=()) -> str:
    """Structure of an expression with local names abstracted: robust to renaming and formatting."""
    node = clone(node)
    for n in ast.walk(node):
        if isinstance(n, ast.Name) and n.id not in keep and n.id != "self":
            n.id = "_"
    return ast.unparse(node)


def self_calls(fn, selfname="self"):
    """names m such that ``self.m(...)`` is called in fn."""
    out = set()
    for n in ast.walk(fn):
        if isinstance(n, ast.Call) and is_self_attr(n.func, None, selfname):
            out.add(n.func.attr)
    return out


def iter_body_nodes(fn):
    """ast.walk over a function body without descending into nested defs / classes."""
    stack = list(fn.body)
    while stack:
        n = stack.pop()
        yield n
        for c in ast.iter_child_nodes(n):
            if isinstance(c, (ast.FunctionDef, ast.AsyncFunctionDef, ast.ClassDef)):
                continue
            stack.append(c)


def const_str(node):
    return node.value if isinstance(node, ast.Constant) and isinstance(node.value, str) else None


def isinstance_tests(expr):
    """Yield (subject expr, [class name nodes]) for each isinstance(...) call in expr."""
    for n in ast.walk(expr):
        if isinstance(n, ast.Call) and isinstance(n.func, ast.Name) and n.func.id == "isinstance" and len(n.args) == 2:
            t = n.args[1]
            elts = t.elts if isinstance(t, ast.Tuple) else [t]
            yield n, n.args[0], elts


def fact_isinstance(point_or_facts, subject_name: str):
    """Class-name expressions C such that isinstance(<subject_name>, C) is known true at the point.
    Returns list of (names list, polarity)."""
    out = []
    fs = flow.facts(point_or_facts) if isinstance(point_or_facts, flow.Point) else point_or_facts
    for term, pol in fs:
        if isinstance(term, ast.Call) and isinstance(term.func, ast.Name) and term.func.id == "isinstance" and len(term.args) == 2:
            subj = term.args[0]
            if isinstance(subj, ast.Name) and subj.id == subject_name:
                t = term.args[1]
                elts = t.elts if isinstance(t, ast.Tuple) else [t]
                out.append(([dotted(e) or unparse(e) for e in elts], pol))
    return out
