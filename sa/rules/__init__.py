"""Rule registry.  REGISTRY[prop] = [(rule_id, fn, doc), ...] in execution order."""
from __future__ import annotations

REGISTRY: dict = {}
LEVEL_TEXT: dict = {}


def rule(rule_id: str, props, doc: str):
    def deco(fn):
        for p in props:
            REGISTRY.setdefault(p, []).append((rule_id, fn, " ".join(doc.split())))
        return fn

    return deco


def _load():
    import importlib
    import pkgutil

    for m in sorted(pkgutil.iter_modules(__path__), key=lambda m: m.name):
        if m.name.startswith("r"):
            importlib.import_module(f"{__name__}.{m.name}")
    for p in REGISTRY:
        REGISTRY[p].sort(key=lambda t: t[0])


_load()
