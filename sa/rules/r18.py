"""C18 (parquet push-down equals reading everything) and C17 (materialization boundaries) - structural clauses."""
from __future__ import annotations

import ast
import re

from sa import flow
from sa.model import AnalysisError, dotted, unparse
from sa.rules import LEVEL_TEXT, rule
from sa.rules.util import callee, closure_text, is_self_attr, iter_body_nodes, pmatch

LEVEL_TEXT["C18"] = (
    "Decides structural necessary conditions of C18: reader filters only for null-safe operators and fully translated "
    "conjunctions (R03a); metadata lengths only for the selected partitions and without filters (R06d/R11d); fused "
    "reads report divisions, not partition numbers (R06a); absorbed column selections keep source order (R04g); the "
    "overwrite guard refuses every read at or below the written path and runs before the directory is removed; the plan "
    "cache is cleared on overwrite and file identity includes mtime (R15c); the fused parquet task destructures the "
    "reader task at the positions the reader builds. Undecided: written/read data equality, statistics vs data."
)
LEVEL_TEXT["C17"] = (
    "Decides only the key / metadata wiring at the cut points (necessary for any cut to be transparent): to_legacy_dataframe "
    "takes graph, name, meta and divisions from ONE (the optimized) expression; __dask_postpersist__ rebuilds from the "
    "lowered expression whose keys the persisted graph defines; FromGraph aliases (self._name, i) to the imported keys; "
    "_DelayedExpr stores its output under the very key its _name returns. The equivalence of cut and uncut queries "
    "itself (executing two graphs) is NOT decided."
)


@rule(
    "R18a",
    ["C18"],
    """OVERWRITE GUARD: in to_parquet the loop over find_operations(ReadParquet) refuses (raises) when the READ path starts
    with the WRITE path (reading the written directory or anything below it), the compared strings carry a trailing
    separator, and on every path the guard loop completes before fs.rm(path, recursive=True).""",
)
def r18a(ctx):
    model = ctx.model
    mod, fn = model.func("io.parquet", "to_parquet")
    host, guard_stmt_in_caller = fn, None
    loops = [n for n in ast.walk(fn) if isinstance(n, ast.For) and "find_operations(ReadParquet)" in ast.unparse(n.iter)]
    if not loops:
        # the guard may have been extracted into a private helper called from to_parquet
        for c in (x for x in ast.walk(fn) if isinstance(x, ast.Call)):
            t = callee(model, mod, None, c)
            if t is None:
                continue
            sub = [n for n in ast.walk(t[2]) if isinstance(n, ast.For) and "find_operations(ReadParquet)" in ast.unparse(n.iter)]
            if sub:
                host, loops = t[2], sub
                st = c
                while not isinstance(st, ast.stmt):
                    st = st._parent
                guard_stmt_in_caller = st
                break
    defs = flow.Defs(host)
    if not loops:
        ctx.bad("io.parquet.to_parquet:overwrite-guard", mod.loc(fn), "to_parquet no longer scans the query for ReadParquet operations before overwriting")
        return
    loop = loops[0]
    op_var = loop.target.id if isinstance(loop.target, ast.Name) else None
    raises = [n for n in ast.walk(loop) if isinstance(n, ast.Raise)]
    tests = [n for n in ast.walk(loop) if isinstance(n, ast.If) and any(isinstance(x, ast.Raise) for x in ast.walk(n))]
    ok = False
    detail = "no raising test in the guard loop"
    for t in tests:
        for c in ast.walk(t.test):
            if isinstance(c, ast.Call) and isinstance(c.func, ast.Attribute) and c.func.attr == "startswith" and c.args:
                recv = defs.expand(c.func.value, at=t)
                arg = defs.expand(c.args[0], at=t)
                recv_t, arg_t = ast.unparse(recv), ast.unparse(arg)
                recv_is_read = op_var is not None and f"{op_var}.path" in recv_t
                arg_is_write = f"{op_var}.path" not in arg_t and "path" in arg_t
                slash = "'/'" in recv_t and "'/'" in arg_t
                if recv_is_read and arg_is_write and slash:
                    ok = True
                elif not recv_is_read:
                    detail = f"`{ast.unparse(c)}` tests whether the WRITE path starts with the READ path: reading a file or sub-directory below the overwritten directory is no longer refused"
                elif not slash:
                    detail = "paths are compared without a trailing separator: /data/x2 is treated as inside /data/x"
    (ctx.ok if ok else ctx.bad)("io.parquet.to_parquet:overwrite-guard", mod.loc(loop), "read_path.startswith(write_path) with trailing separators -> raise" if ok else detail)
    # ordering: rm after the loop
    rms = [n for n in ast.walk(fn) if isinstance(n, ast.Call) and isinstance(n.func, ast.Attribute) and n.func.attr == "rm"]
    if not rms:
        ctx.unclassified("io.parquet.to_parquet:rm-after-guard", mod.loc(fn), "no fs.rm call")
    for i, rm in enumerate(rms):
        p = flow.point_of(fn, rm)
        anchor = guard_stmt_in_caller if guard_stmt_in_caller is not None else loop
        good = p is not None and any(st is anchor for st in p.preceding)
        (ctx.ok if good else ctx.bad)(f"io.parquet.to_parquet:rm-after-guard#{i}", mod.loc(rm), "directory is removed only after the guard loop completed" if good else "fs.rm(path, recursive=True) is reachable without completing the read-operation guard loop")


@rule(
    "R18c",
    ["C18"],
    """READER / FUSED-READER TUPLE AGREEMENT: FusedParquetIO._task destructures expr._filtered_task(i) as
    (_, frag_to_table, *to_pandas_args) and reads positions 1..4 of frag_to_table (fragment, filter, columns, schema);
    ReadParquetPyarrowFS._filtered_task must build a tuple whose element 1 is a 5-tuple headed by _fragment_to_table
    with those roles, followed by exactly the arguments _table_to_pandas takes after `table`.""",
)
def r18c(ctx):
    model = ctx.model
    rp = model.cls("ReadParquetPyarrowFS")
    ft = model.method(rp, "_filtered_task", own=True).node
    rets = [r.value for r in ast.walk(ft) if isinstance(r, ast.Return) and isinstance(r.value, ast.Tuple)]
    if not rets:
        raise AnalysisError("anchor changed: ReadParquetPyarrowFS._filtered_task does not return a tuple")
    t = rets[0]
    inner = t.elts[1] if len(t.elts) > 1 else None
    head_ok = len(t.elts) >= 2 and ast.unparse(t.elts[0]).endswith("_table_to_pandas")
    inner_ok = isinstance(inner, ast.Tuple) and len(inner.elts) == 5 and ast.unparse(inner.elts[0]).endswith("_fragment_to_table")
    roles_ok = inner_ok and "filters" in ast.unparse(inner.elts[2]) and "columns" in ast.unparse(inner.elts[3]) and "schema" in ast.unparse(inner.elts[4]) and "fragments" in ast.unparse(inner.elts[1])
    t2p = model.method(rp, "_table_to_pandas", own=True).node
    n_after = len(t2p.args.args) - 1
    arity_ok = len(t.elts) - 2 == n_after
    good = head_ok and inner_ok and roles_ok and arity_ok
    (ctx.ok if good else ctx.bad)(
        "io.parquet.ReadParquetPyarrowFS._filtered_task:shape",
        rp.module.loc(t),
        "(_table_to_pandas, (_fragment_to_table, fragment, filters, columns, schema), *to_pandas_args)" if good else "reader task no longer has the shape the fused reader destructures: " + ("outer head" if not head_ok else "inner 5-tuple" if not inner_ok else "roles of fragment/filters/columns/schema" if not roles_ok else f"{len(t.elts) - 2} trailing args vs {n_after} parameters of _table_to_pandas"),
    )
    fp = model.cls("FusedParquetIO")
    task = model.method(fp, "_task", own=True).node
    from sa.rules.util import pfind

    good = False
    for a, b in pfind("(V__, V_ftt, *V_rest) = V_e._filtered_task(V_i)", task):
        ftt, rest = b["V_ftt"], b["V_rest"]
        pair = pfind(f"({ftt}[1], {ftt}[2])", task)
        cols = pfind(f"V_c = {ftt}[3]", task)
        sch = pfind(f"V_s = {ftt}[4]", task)
        for r in (x for x in ast.walk(task) if isinstance(x, ast.Return) and isinstance(x.value, ast.Tuple)):
            el = [ast.unparse(e) for e in r.value.elts]
            fwd = f"*{rest}" in el
            order = bool(cols and sch) and cols[0][1]["V_c"] in el and sch[0][1]["V_s"] in el and el.index(cols[0][1]["V_c"]) < el.index(sch[0][1]["V_s"])
            good = good or (bool(pair) and fwd and order)
    (ctx.ok if good else ctx.bad)("io.io.FusedParquetIO._task:destructure", fp.module.loc(task), "reads (fragment, filter) pairs, columns [3], schema [4] and forwards the pandas arguments" if good else "fused parquet task no longer reads fragment [1], filter [2], columns [3], schema [4] of the reader task")
    lm = model.method(fp, "_load_multiple_files", own=True).node
    params = [a.arg for a in lm.args.args]
    good = params[:3] == ["frag_filters", "columns", "schema"] and lm.args.vararg is not None
    (ctx.ok if good else ctx.bad)("io.io.FusedParquetIO._load_multiple_files:signature", fp.module.loc(lm), "(frag_filters, columns, schema, *to_pandas_args)" if good else f"_load_multiple_files takes {params}: the task built by _task passes (fragments_filters, columns, schema, *to_pandas_args)")


# ------------------------------------------------------------------------------------------
# C17
# ------------------------------------------------------------------------------------------


@rule(
    "R17a",
    ["C17", "C11", "C06"],
    """CUT-POINT WIRING: (a) to_legacy_dataframe hands new_dd_object the graph, name, meta and divisions of ONE expression
    variable (the optimized collection) - mixing the optimized graph with the un-optimized divisions breaks as soon
    as optimization changes the partition count; (b) __dask_postpersist__ derives meta, divisions, keys and name from the
    lowered expression (lower_completely), the one whose keys the persisted graph defines; (c) FromGraph._layer aliases
    (self._name, i) to the i-th imported key; (d) FromGraph._parameters match the argument order of
    __dask_postpersist__.""",
)
def r17a(ctx):
    model = ctx.model
    fb = model.cls("FrameBase")
    fn = model.method(fb, "to_legacy_dataframe", own=True).node
    calls = [n for n in ast.walk(fn) if isinstance(n, ast.Call) and dotted(n.func) == "new_dd_object"]
    if not calls:
        raise AnalysisError("anchor vanished: new_dd_object call in to_legacy_dataframe")
    tdefs = flow.Defs(fn)
    for i, c in enumerate(calls):
        roots = []
        xargs = []
        for a in c.args:
            # a temporary holding `df.dask` is looked through (one level), the expression variable itself is not
            if isinstance(a, ast.Name):
                v = tdefs.single_value(a.id, c)
                if isinstance(v, ast.Attribute):
                    a = v
            xargs.append(a)
            r = a
            while isinstance(r, ast.Attribute):
                r = r.value
            roots.append(r.id if isinstance(r, ast.Name) else ast.unparse(r))
        attrs = [a.attr if isinstance(a, ast.Attribute) else None for a in xargs]
        # ... and that expression must be the lowered / optimized one on every path: `.dask` always builds the graph of the
        # lowered expression, whatever the collection holds
        if len(set(roots)) == 1 and roots[0] != "self":
            ds = [d for d in tdefs.reaching(roots[0], c) if d.value is not None]
            def _arms(v):
                return _arms(v.body) + _arms(v.orelse) if isinstance(v, ast.IfExp) else [v]

            vals = [a_ for d in ds for a_ in _arms(d.value)]
            lowered_everywhere = bool(vals) and all(any(k in ast.unparse(v) for k in ("optimize(", "lower_completely(")) or any(k in closure_text(model, fb.module, fb, v, depth=1) for k in ("optimize(", "lower_completely(")) for v in vals)
        else:
            lowered_everywhere = False
        (ctx.ok if lowered_everywhere else ctx.bad)(f"_collection.FrameBase.to_legacy_dataframe:lowered#{i}", fb.module.loc(c), "name, meta and divisions come from the lowered / optimized expression on every path" if lowered_everywhere else f"on some path `{roots[0]}` is the collection as built: its graph (`.dask`) is generated from the lowered expression but name and divisions describe the un-lowered one - the legacy collection asks for keys its graph does not define")
        good = len(set(roots)) == 1 and attrs[:4] == ["dask", "_name", "_meta", "divisions"]
        (ctx.ok if good else ctx.bad)(f"_collection.FrameBase.to_legacy_dataframe:new_dd_object#{i}", fb.module.loc(c), f"all four from `{roots[0]}`" if good else f"new_dd_object({', '.join(ast.unparse(a) for a in c.args)}) mixes {sorted(set(roots))}: graph keys, name, meta and divisions must describe the same (optimized) expression")
    pp = model.method(fb, "__dask_postpersist__", own=True).node
    defs = flow.Defs(pp)
    rets = [r.value for r in ast.walk(pp) if isinstance(r, ast.Return) and isinstance(r.value, ast.Tuple)]
    if not rets:
        raise AnalysisError("anchor changed: __dask_postpersist__ return")
    t = rets[0]
    ret_stmt = next(r for r in ast.walk(pp) if isinstance(r, ast.Return) and r.value is t)
    args = t.elts[1] if len(t.elts) > 1 else None
    if isinstance(args, ast.Name):
        args = defs.single_value(args.id, ret_stmt)
    if not isinstance(args, ast.Tuple):
        raise AnalysisError("anchor changed: __dask_postpersist__ argument tuple")
    # every rebuild argument, with locals replaced by their definitions, must be computed from ONE lowered expression
    elts_x = []
    for a_ in args.elts:
        x = a_
        for _ in range(3):  # temporaries of temporaries
            x2 = defs.expand(x, at=ret_stmt, depth=1)
            if ast.unparse(x2) == ast.unparse(x):
                break
            x = x2
        elts_x.append(defs.expand(a_, at=ret_stmt))
    srcs = []
    for x in elts_x:
        low = {ast.unparse(c) for c in ast.walk(x) if isinstance(c, ast.Call) and isinstance(c.func, ast.Attribute) and c.func.attr == "lower_completely"}
        if not low:
            # one level of helper inlining (`self._lowered_collection()`)
            low = {"<helper>"} if "lower_completely()" in closure_text(model, fb.module, fb, x, depth=1) else set()
        srcs.append(low)
    lowered = all(srcs) and len({frozenset(x) for x in srcs}) == 1
    roots = sorted({n.id for x in args.elts for n in ast.walk(x) if isinstance(n, ast.Name) and n.id != "key_split"})
    good = lowered
    (ctx.ok if good else ctx.bad)("_collection.FrameBase.__dask_postpersist__", fb.module.loc(t), "meta, divisions, keys and name all come from the lowered expression" if good else f"the rebuild arguments come from {roots} which is not (one) lowered expression (lower_completely()): __dask_graph__/__dask_keys__ describe the lowered plan, so the FromGraph rebuilt after dask.persist() aliases keys the persisted graph does not contain")
    args = ast.Tuple(elts=elts_x, ctx=ast.Load())
    order = [ast.unparse(a) for a in args.elts]
    fg = model.cls("FromGraph")
    params = model.parameters(fg)
    role = {"_meta": "_meta", "divisions": "divisions", "keys": "__dask_keys__", "name_prefix": "key_split"}
    good = len(order) == len(params) - 1 and all(role.get(p, "") in o for p, o in zip(params[1:], order))
    (ctx.ok if good else ctx.bad)("_collection.FrameBase.__dask_postpersist__:argument-order", fb.module.loc(t), f"matches FromGraph._parameters[1:] = {params[1:]}" if good else f"arguments {order} do not line up with FromGraph._parameters[1:] = {params[1:]}")
    ly = model.method(fg, "_layer", own=True).node
    ldefs = flow.Defs(ly)
    good = False
    for loop in (n for n in ast.walk(ly) if isinstance(n, ast.For)):
        it = ldefs.expand(loop.iter, at=loop)
        if not (isinstance(it, ast.Call) and dotted(it.func) == "enumerate" and it.args and ast.unparse(it.args[0]) in ("self.operand('keys')", "self.keys")):
            continue
        if not (isinstance(loop.target, ast.Tuple) and len(loop.target.elts) == 2 and all(isinstance(e, ast.Name) for e in loop.target.elts)):
            continue
        pos, key = (e.id for e in loop.target.elts)
        for st in ast.walk(loop):
            if isinstance(st, ast.Assign) and isinstance(st.targets[0], ast.Subscript) and isinstance(st.targets[0].slice, ast.Tuple):
                k = st.targets[0].slice
                pref = ldefs.expand(k.elts[0], at=st)
                if ast.unparse(pref) == "self._name" and len(k.elts) == 2 and ast.unparse(k.elts[1]) == pos and ast.unparse(st.value) == key:
                    good = True
    (ctx.ok if good else ctx.bad)("io.io.FromGraph._layer:alias", fg.module.loc(ly), "(self._name, i) -> i-th imported key" if good else "FromGraph._layer no longer aliases (self._name, i) to the i-th key of the imported graph")


@rule(
    "R18d",
    ["C18"],
    """READER OPTION AGREEMENT: read_parquet hands the user's options to one of two sibling reader classes (fsspec / arrow
    filesystem). An option that is forwarded to a reader class must be read by name somewhere in that class (self.p /
    self.operand('p'), following properties) - otherwise it has to be refused in read_parquet like the other options that
    reader does not support. An option one reader honours and the other silently drops makes the two implementations
    return different frames for the same call.""",
)
def r18d(ctx):
    from sa.rules.util import bind_call, ctor_target, reads_of_self

    model = ctx.model
    mod, fn = model.func("_collection", "read_parquet")
    api_params = {a.arg for a in fn.args.args + fn.args.kwonlyargs}
    core = model.core_expr
    n = 0
    for c in (x for x in ast.walk(fn) if isinstance(x, ast.Call)):
        r = ctor_target(model, mod, None, c)
        if r is None:
            continue
        K = r[0]
        reads = set()
        for k in K.mro:
            if isinstance(k, str) or k is core:
                continue
            for name, mem in k.members.items():
                if isinstance(mem.node, ast.FunctionDef):
                    reads |= reads_of_self(model, K, mem.node, depth=0)
        b = bind_call(model, K, c)
        for p, v in sorted(b.args.items()):
            used = {x.id for x in ast.walk(v) if isinstance(x, ast.Name)} & api_params
            if not used:
                continue
            n += 1
            cid = f"_collection.read_parquet->{K.name}:{p}"
            if p in reads:
                ctx.ok(cid, mod.loc(c), "option read by the reader")
            else:
                ctx.bad(cid, mod.loc(c), f"read_parquet forwards the user's `{'/'.join(sorted(used))}` to {K.name}.{p}, which no method of {K.name} reads: the option is silently ignored by this reader while its sibling honours it")
    ctx.floor("reader options forwarded by read_parquet", n, 20)


@rule(
    "R18e",
    ["C18", "C03", "C11"],
    """A FILTER IS NOT ABSORBED INTO A READER WHOSE PARTITIONS ARE ALREADY SELECTED: reader filters prune the list of fragments (hive
    directories whose partition value contradicts the predicate), and `_partitions` numbers index that list. Absorbing a filter after
    the selection changes WHICH fragment a selected number names. ReadParquet._filter_passthrough_available must refuse when
    `self._filtered` (or `_partitions`) is set: df.partitions[0][df.g != 2] returned the rows of another directory.""",
)
def r18e(ctx):
    model = ctx.model
    c = model.cls("ReadParquet", "io.parquet")
    n = 0
    for k in [c] + [h for h in model.subclasses(c, strict=True)]:
        mem = k.members.get("_filter_passthrough_available")
        if mem is None or mem.kind == "attr":
            continue
        n += 1
        t = ast.unparse(mem.node)
        cid = f"{k.qual}._filter_passthrough_available:selected-partitions"
        if "self._filtered" in t or "self._partitions" in t or "operand('_partitions')" in t:
            ctx.ok(cid, k.module.loc(mem.node), "refuses to absorb filters once partitions are selected")
        else:
            ctx.bad(cid, k.module.loc(mem.node), f"{k.qual} absorbs a filter whatever `_partitions` holds: the filter prunes the fragment list the selected numbers index, so a partition selection followed by a filter on a hive-partition column reads another directory (or indexes past the pruned list)")
    ctx.floor("reader filter pass-through tests", n, 1)


@rule(
    "R18f",
    ["C18", "C03"],
    """THE OR-OF-ANDS SHAPE OF USER FILTERS REACHES THE READER INTACT: `filters=[[("a", ">", 1)], [("b", "<", 0)]]` means (a > 1) OR (b < 0); the
    flat form `[(..), (..)]` means AND. The API layer may LOOK at the individual predicates (`flatten(filters, container=list)` to
    validate operators) but must hand on the structure it was given: in `read_parquet` the parameter `filters` is never rebound to a
    value computed by `flatten(...)` / `chain(...)` / a comprehension over itself. Rebinding it to the flattened list turns every OR
    into an AND and the reader drops rows.""",
)
def r18f(ctx):
    model = ctx.model
    mod, fn = model.func("_collection", "read_parquet")
    if "filters" not in [a.arg for a in fn.args.args + fn.args.kwonlyargs]:
        raise AnalysisError("anchor vanished: the `filters` parameter of read_parquet")
    looks = [x for x in ast.walk(fn) if isinstance(x, ast.Call) and dotted(x.func) == "flatten" and x.args and ast.unparse(x.args[0]) == "filters"]
    rebinds = []
    for st in ast.walk(fn):
        tgts = []
        if isinstance(st, ast.Assign):
            tgts = [t for t in st.targets if isinstance(t, ast.Name)]
            val = st.value
        elif isinstance(st, ast.AugAssign) and isinstance(st.target, ast.Name):
            tgts, val = [st.target], st.value
        else:
            continue
        if any(t.id == "filters" for t in tgts) and any(isinstance(x, ast.Name) and x.id == "filters" for x in ast.walk(val)) and re.search(r"\bflatten\(|\bchain\(|\bsum\(| for ", ast.unparse(val)):
            rebinds.append(st)
    cid = "_collection.read_parquet:filters-structure"
    if rebinds:
        ctx.bad(cid, mod.loc(rebinds[0]), f"`{unparse(rebinds[0])}` replaces the user's filters by a flattened copy before they are handed to the reader: the nesting IS the meaning (outer list = OR, inner lists = AND), so [[A], [B]] (A or B) becomes [A, B] (A and B) and rows are dropped")
    else:
        ctx.ok(cid, mod.loc(fn), f"filters are inspected ({len(looks)} flatten look-ups) but handed on as given")


@rule(
    "R18g",
    ["C18", "C03"],
    """A FLAT FILTER LIST IS ONE CONJUNCTION: `_DNF.normalize` accepts the two documented spellings - `[[..], [..]]` (OR of ANDs) and the
    flat `[(..), (..)]`, which means AND. The flat form must be wrapped WHOLE into a single conjunction (`[filters]` on the branch where
    `filters[0]` is not a list); wrapping its elements one by one makes every predicate a disjunct of its own and the reader returns
    rows that fail all but one of them.""",
)
def r18g(ctx):
    model = ctx.model
    c = model.cls("_DNF", "io.parquet")
    fn = model.method(c, "normalize", own=True).node
    fparam = fn.args.args[1].arg
    cid = "io.parquet._DNF.normalize:flat-list-is-one-conjunction"
    tests = [x for x in ast.walk(fn) if isinstance(x, ast.Call) and pmatch(f"isinstance({fparam}[0], list)", x) is not None]
    if not tests:
        ctx.bad(cid, c.module.loc(fn), f"`isinstance({fparam}[0], list)` - the test that tells the nested OR-of-ANDs spelling from the flat AND spelling - is gone: both spellings now take one path, so one of them changes meaning")
        return
    whole = False
    for t in tests:
        par = getattr(t, "_parent", None)
        if isinstance(par, ast.IfExp) and par.test is t and pmatch(f"[{fparam}]", par.orelse) is not None:
            whole = True
        if isinstance(par, ast.UnaryOp) and isinstance(getattr(par, "_parent", None), ast.IfExp) and pmatch(f"[{fparam}]", par._parent.body) is not None:
            whole = True
    for st in flow.walk(fn):
        if isinstance(st.stmt, ast.Assign) and pmatch(f"[{fparam}]", st.stmt.value) is not None and any((not pol) and pmatch(f"isinstance({fparam}[0], list)", t_) is not None for t_, pol in flow.facts(st)):
            whole = True
    if whole:
        ctx.ok(cid, c.module.loc(fn), "the flat spelling becomes a single conjunction")
    else:
        ctx.bad(cid, c.module.loc(tests[0]), f"on the branch where `{fparam}[0]` is not a list the filters are not wrapped whole (`[{fparam}]`) into one conjunction: a flat list [(a, '>', 1), (b, '<', 0)] - documented as a AND b - is read as a OR b")


@rule(
    "R18h",
    ["C18", "C15"],
    """A FILE AND ITS FRAGMENT ARE SAMPLED BY THE SAME INDEX: the statistics sampler of the arrow reader picks files by size rank and hands
    two parallel lists to `load_statistics` - file infos and fragments - which caches the statistics of fragment k under the path of file
    info k. Both lists must be built from the SAME index expression into `finfos` / `frags` (today: `sort_ix`); if one is taken by rank
    and the other by position (`frags[::stepsize]`), statistics are cached under the wrong file and later reads trust row counts /
    min-max values of another file.""",
)
def r18h(ctx):
    model = ctx.model
    c = model.cls("ReadParquetPyarrowFS", "io.parquet")
    n = 0
    for name, mem in c.members.items():
        if mem.kind == "attr" or not isinstance(mem.node, ast.FunctionDef):
            continue
        fn = mem.node
        for call in (x for x in ast.walk(fn) if isinstance(x, ast.Call) and is_self_attr(x.func, "load_statistics") and len(x.args) == 2 and all(isinstance(a, ast.Name) for a in x.args)):
            n += 1
            cid = f"io.parquet.ReadParquetPyarrowFS.{name}:parallel-samples"
            idx = []
            for a in call.args:
                subs = set()
                for st in ast.walk(fn):
                    src = None
                    if isinstance(st, ast.Call) and isinstance(st.func, ast.Attribute) and st.func.attr == "append" and isinstance(st.func.value, ast.Name) and st.func.value.id == a.id and st.args:
                        src = st.args[0]
                    elif isinstance(st, ast.Assign) and any(isinstance(t, ast.Name) and t.id == a.id for t in st.targets):
                        src = st.value
                    if src is None:
                        continue
                    for sub in (y for y in ast.walk(src) if isinstance(y, ast.Subscript)):
                        subs.add(ast.unparse(sub.slice))
                idx.append(subs)
            if idx[0] and idx[0] == idx[1]:
                ctx.ok(cid, c.module.loc(call), f"both lists are selected by `{sorted(idx[0])[0]}`")
            else:
                ctx.bad(cid, c.module.loc(call), f"the file infos are selected by {sorted(idx[0])} and the fragments by {sorted(idx[1])}: `load_statistics` pairs them by position, so the statistics of one file are cached under the path of another and every later plan (lengths, divisions, row-group pruning) reads another file's numbers")
    ctx.floor("paired samples handed to load_statistics", n, 1)


@rule(
    "R18i",
    ["C18", "C06"],
    """A PART THAT SELECTS ROW GROUPS IS COUNTED BY ITS ROW GROUPS: with split_row_groups a partition ("part") is a file plus a list of row
    groups. Its row count and min / max statistics are those of the SELECTED row groups (`md.row_group(rg).num_rows`); the file-level
    total of the footer (`<file metadata>.num_rows`) counts every row group of the file and may only be used where the part takes the
    whole file (`row_groups is None`). Otherwise len(), lengths and the divisions derived from the statistics belong to the whole file
    for every part cut from it.""",
)
def r18i(ctx):
    model = ctx.model
    mod, fn = model.func("io.parquet", "_read_partition_stats_group")
    n = 0
    for f in [fn] + [x for x in ast.walk(fn) if isinstance(x, ast.FunctionDef) and x is not fn]:
        mds = {t.id for st in ast.walk(f) if isinstance(st, ast.Assign) and ast.unparse(st.value).endswith(".metadata") for t in st.targets if isinstance(t, ast.Name)}
        for a in (x for x in ast.walk(f) if isinstance(x, ast.Attribute) and x.attr == "num_rows" and isinstance(x.value, ast.Name)):
            if a.value.id not in mds:
                n += 1
                continue
            n += 1
            p = flow.point_of(f, a)
            whole = p is not None and any(pol and isinstance(t, ast.Compare) and isinstance(t.ops[0], ast.Is) and ast.unparse(t.comparators[0]) == "None" and "row_group" in ast.unparse(t.left) for t, pol in flow.facts(p))
            cid = f"io.parquet._read_partition_stats_group:file-total:{ast.unparse(a)}"
            if whole:
                ctx.ok(cid, mod.loc(a), "the file total is used only for parts that take the whole file")
            else:
                ctx.bad(cid, mod.loc(a), f"`{ast.unparse(a)}` is the row count of the WHOLE file; it is added for a part that may select only some row groups (no `row_groups is None` guard): every part cut from one file reports the file's total, so len() and the partition lengths of a split_row_groups read are multiplied")
    ctx.ok("row-counts-scanned", "", f"{n} row counts read from parquet metadata; file totals only for whole-file parts")
    ctx.floor("row counts read from parquet metadata", n, 1)
