"""C06: reported partition structure (npartitions, divisions, lengths) is truthful - structural clauses."""
from __future__ import annotations

import ast
import json
import os

from sa import flow
from sa.model import AnalysisError, dotted, names_in, unparse
from sa.rules import LEVEL_TEXT, rule
from sa.rules.util import callee, closure_functions, is_self_attr, iter_body_nodes, own_methods, qual

LEVEL_TEXT["C06"] = (
    "Decides structural necessary conditions of C06: unknown-division tuples have npartitions+1 entries; an npartitions "
    "override is coherent with the _divisions it is paired with; length short-cuts are taken only through operators "
    "confirmed row-count preserving and sources restrict metadata lengths to the selected partitions; range-separation "
    "tests that let the planner skip a shuffle / interleave are strict (the last division is inclusive); division "
    "sequences are not built from partition numbers. Undecided: that computed index values lie inside the reported "
    "divisions (data dependent)."
)

_REF = json.load(open(os.path.join(os.path.dirname(os.path.dirname(__file__)), "data", "classes_ref.json")))
REF_CLASSES = set(_REF["expr_classes"])


def _division_function(fn, cls):
    return "division" in fn.name.lower()


@rule(
    "R06b",
    ["C06"],
    """UNKNOWN-DIVISIONS LENGTH: every `(None,) * k` / `[None] * k` built in a function that computes divisions must have
    k of the form `count + 1` (constant exactly 1) or `len(<division / boundary / location sequence>)`: a divisions
    tuple has npartitions + 1 entries.""",
)
def r06b(ctx):
    model = ctx.model
    n = 0
    for mod, cls, fn in model.all_functions():
        if not _division_function(fn, cls):
            continue
        for node in iter_body_nodes(fn):
            if not (isinstance(node, ast.BinOp) and isinstance(node.op, ast.Mult)):
                continue
            seq, k = node.left, node.right
            if not _is_none_seq(seq):
                seq, k = node.right, node.left
                if not _is_none_seq(seq):
                    continue
            n += 1
            fq = qual(cls, fn) if cls is not None else f"{mod.name.split('.', 1)[-1]}.{fn.name}"
            cid = f"{fq}:none-times:{_ord(fn, node)}"
            verdict = _count_plus_one(k)
            if verdict is True:
                ctx.ok(cid, mod.loc(node), unparse(node))
            elif verdict is None:
                ctx.unclassified(cid, mod.loc(node), f"length `{unparse(k)}` not of a recognised form")
            else:
                ctx.bad(cid, mod.loc(node), f"`{unparse(node)}`: {verdict}; divisions must have npartitions + 1 entries, so npartitions and the number of output keys disagree")
    ctx.floor("unknown-division constructions", n, 30)


def _ord(fn, node):
    xs = [n for n in iter_body_nodes(fn) if isinstance(n, ast.BinOp) and isinstance(n.op, ast.Mult)]
    xs.sort(key=lambda n: (n.lineno, n.col_offset))
    return next(i for i, n in enumerate(xs) if n is node)


def _is_none_seq(n):
    return isinstance(n, (ast.Tuple, ast.List)) and len(n.elts) == 1 and isinstance(n.elts[0], ast.Constant) and n.elts[0].value is None


def _count_plus_one(k):
    if isinstance(k, ast.BinOp) and isinstance(k.op, ast.Add):
        consts = [x for x in (k.left, k.right) if isinstance(x, ast.Constant) and isinstance(x.value, int)]
        if len(consts) == 1:
            if consts[0].value == 1:
                return True
            return f"length is count + {consts[0].value}, not count + 1"
        return None
    if isinstance(k, ast.Call) and isinstance(k.func, ast.Name) and k.func.id == "len" and len(k.args) == 1:
        t = unparse(k.args[0]).lower()
        if any(w in t for w in ("division", "boundar", "location")):
            return True
        return None
    if isinstance(k, ast.BinOp) and isinstance(k.op, ast.Sub):
        return f"length `{unparse(k)}` subtracts from a count"
    if isinstance(k, (ast.Attribute, ast.Name, ast.Call)):
        t = unparse(k)
        if t.endswith("npartitions") or t.endswith("npartitions_out") or t.endswith("split_out"):
            return f"length is the partition count `{t}` itself, one entry short"
        return None
    return None


# (class qual) -> reason
R06C_EXCEPTIONS = {}


@rule(
    "R06c",
    ["C06"],
    """NPARTITIONS / DIVISIONS COHERENCE: when a class's MRO resolves `npartitions` to an override that is nearer than its
    provider of `_divisions` (and is not the partition-filter mixin, which overrides both views consistently), the
    override must be computed from the divisions (mention _divisions()/divisions) or from the parameter the
    _divisions of the same class is computed from; otherwise the reported partition count and len(divisions)-1 can
    disagree.""",
)
def r06c(ctx):
    model = ctx.model
    base = model.cls("Expr", "_expr")
    pf = model.cls("PartitionsFiltered")
    n = 0
    for c in model.expr_classes():
        np_, dv = c.provider("npartitions"), c.provider("_divisions")
        if np_ is None or dv is None or np_.cls is base or np_.cls is model.core_expr:
            continue
        if np_.cls is pf:
            continue
        n += 1
        cid = f"{c.qual}:npartitions-vs-divisions"
        i_np, i_dv = c.mro.index(np_.cls), c.mro.index(dv.cls)
        body_txt = unparse(np_.node) if np_.kind != "attr" else ""
        derived = "_divisions()" in body_txt or "self.divisions" in body_txt or "super().npartitions" in body_txt
        if i_np >= i_dv:
            ctx.ok(cid, c.loc, f"_divisions ({dv.cls.qual}) is at least as specific as npartitions ({np_.cls.qual})")
        elif derived:
            ctx.ok(cid, c.loc, "override derives from the divisions")
        elif c.qual in R06C_EXCEPTIONS:
            ctx.exempt(cid, c.loc, R06C_EXCEPTIONS[c.qual])
        else:
            ctx.bad(cid, np_.cls.module.loc(np_.node), f"{c.qual}.npartitions is overridden in {np_.cls.qual} without reference to the divisions, while _divisions is inherited from {dv.cls.qual}: len(divisions) - 1 != npartitions")
    ctx.floor("npartitions overrides", n, 8)
    # base definition
    fn = model.method(base, "npartitions", own=True).node
    good = any(isinstance(r, ast.Return) and unparse(r.value) == "len(self.divisions) - 1" for r in ast.walk(fn))
    (ctx.ok if good else ctx.bad)("_expr.Expr.npartitions", base.module.loc(fn), "len(self.divisions) - 1" if good else "base npartitions is no longer len(self.divisions) - 1")
    kd = model.method(base, "divisions", own=True).node
    good = any(isinstance(r, ast.Return) and unparse(r.value) == "tuple(self._divisions())" for r in ast.walk(kd))
    (ctx.ok if good else ctx.bad)("_expr.Expr.divisions", base.module.loc(kd), "tuple(self._divisions())" if good else "divisions is no longer the tuple of _divisions()")


# classes confirmed row-count preserving on the reference tree, by the class that declares the flag
LENGTH_PRESERVING_DECLARERS = {
    "_expr.Elemwise": "one output row per input row (89 element-wise classes reviewed; Binop family relies on co-aligned operands)",
    "_expr.VarColumns": "row-wise variance",
    "_repartition.Repartition": "re-chunking",
    "_shuffle.ShuffleBase": "row permutation",
    "_shuffle.BaseSetIndexSortValues": "row permutation",
    "_shuffle._SetPartitionsPreSetIndex": "one partition number per row",
    "_shuffle._SetIndexPost": "set_index per partition",
    "_shuffle.SortIndexBlockwise": "sort per partition",
    "_shuffle.SortValuesBlockwise": "sort per partition",
    "_shuffle.SetIndexBlockwise": "set_index per partition",
}


@rule(
    "R06d",
    ["C06", "C01"],
    """LENGTH SHORT-CUTS: `_is_length_preserving` may be True only through the declaring classes confirmed row-count
    preserving (a class of the reference tree that newly carries the flag is reported; brand-new classes are listed as
    unclassified); the base default stays False; Len._simplify_down only passes through frames carrying that flag;
    sources answer lengths only for the selected partitions and not when row filters are set.""",
)
def r06d(ctx):
    model = ctx.model
    base = model.cls("Expr", "_expr")
    if model.flag(base, "_is_length_preserving", default=None) is not False:
        ctx.bad("_expr.Expr._is_length_preserving", base.loc, "base default is no longer False: every operator is treated as row-count preserving by len()")
    else:
        ctx.ok("_expr.Expr._is_length_preserving", base.loc, "default False")
    n = 0
    for c in model.expr_classes():
        mem = c.provider("_is_length_preserving")
        if mem is None or mem.kind != "attr":
            if mem is not None:
                ctx.unclassified(f"{c.qual}._is_length_preserving", c.loc, "flag is computed")
            continue
        v = model.flag(c, "_is_length_preserving", default=None)
        if v is not True:
            continue
        n += 1
        cid = f"{c.qual}._is_length_preserving"
        if mem.cls.qual in LENGTH_PRESERVING_DECLARERS and (c.qual in REF_CLASSES):
            ctx.ok(cid, c.loc, f"via {mem.cls.qual}: {LENGTH_PRESERVING_DECLARERS[mem.cls.qual]}")
        elif c.qual not in REF_CLASSES:
            ctx.unclassified(cid, c.loc, f"class not in the reference tree; inherits the flag from {mem.cls.qual}")
        else:
            ctx.bad(cid, mem.cls.module.loc(mem.node), f"{c.qual} is declared row-count preserving (flag set in {mem.cls.qual}) but is not in the confirmed table: len()/shape/size of it is answered from its input's length without reading data")
    ctx.floor("length-preserving classes", n, 100)

    # Len / Lengths pass-through guards
    ln = model.cls("Len", "_reductions")
    fn = model.method(ln, "_simplify_down", own=True).node
    lndefs = flow.Defs(fn)
    for i, p in enumerate(flow.returns(fn)):
        v = p.stmt.value
        if v is None:
            continue
        txt = unparse(v)
        if not (isinstance(v, ast.Call) and dotted(v.func) == "Len"):
            continue
        arg = unparse(lndefs.expand(v.args[0], at=p.stmt)) if v.args else ""
        if "self.frame.dependencies()" in arg and not isinstance(v.args[0], ast.GeneratorExp):
            arg = "child"  # an input of the frame (held in a local)
        elif v.args and isinstance(lndefs.expand(v.args[0], at=p.stmt), ast.Call) and _picks_input(model, ln, lndefs.expand(v.args[0], at=p.stmt)):
            arg = "child"  # an input of the frame chosen by a package helper that receives self.frame
        if arg in ("child", "self.frame.frame"):
            facts = [unparse(t) for t, pol in flow.facts(p) if pol]
            need = "self.frame._is_length_preserving" if arg == "child" else "self.frame.frame._is_length_preserving"
            cid = f"_reductions.Len._simplify_down:pass-through:{arg}"
            if need in facts:
                ctx.ok(cid, ln.module.loc(p.stmt), f"guarded by {need}")
            else:
                ctx.bad(cid, ln.module.loc(p.stmt), f"`return {txt}` replaces the length of a frame by the length of its input without the guard `{need}`")
    # source lengths: filters => no metadata answer
    for c, m in own_methods(model, "_get_lengths"):
        params = set(model.parameters(c)) if model.subclasses(c) else set()
        has_filters = any("filters" in model.parameters(k) for k in model.subclasses(c) if _safe_params(model, k))
        if not has_filters:
            continue
        fn = m.node
        cid = f"{qual(c, fn)}:filters"
        rets = [p for p in flow.returns(fn) if p.stmt.value is not None and not (isinstance(p.stmt.value, ast.Constant) and p.stmt.value.value is None)]
        bad = [p for p in rets if not any((not pol) and unparse(t) in ("self.filters", "self.operand('filters')") for t, pol in flow.facts(p))]
        if bad:
            ctx.bad(cid, c.module.loc(bad[0].stmt), "lengths are answered from file metadata although row filters may be set: the reader drops rows the metadata still counts")
        else:
            ctx.ok(cid, c.module.loc(fn), "no metadata answer when filters are set")


def _picks_input(model, cls, call):
    """`helper(self.frame)` where the helper returns one of `<param>.dependencies()`"""
    if not any(unparse(a) == "self.frame" for a in call.args):
        return False
    t = callee(model, cls.module, cls, call)
    return t is not None and ".dependencies()" in ast.unparse(t[2])


# (function, kind of selection) -> reason
R06G_EXCEPTIONS = {
    ("_expr._length_determining_input", "not-blockwise"): "operators that are not partitionwise (shuffles, repartition, sort) have ONE frame input; further dependencies are key collections with the rows of that frame",
}


@rule(
    "R06g",
    ["C06", "C01"],
    """LENGTH PASS-THROUGH PICKS A ROW-EQUIVALENT INPUT: Len._simplify_down / Lengths._simplify_down (and the helpers they
    call) answer the length of a row-count preserving frame with the length of ONE of its inputs. An elementwise
    operation matches rows by label, so with several row-aligned inputs the result has the union of their labels:
    picking an input by position or size (`max(deps, key=...)`, `deps[0]`, `next(iter(deps))`) is only sound where the
    code has established that there is a single candidate or that all candidates have the same rows - the pick must be
    dominated by a `len(<...>) == 1` test (one candidate / one common root). len(df.a[df.a > 6] + df.b) returned 3
    instead of 10 without it.""",
)
def r06g(ctx):
    model = ctx.model
    n = 0
    for cname, modname in (("Len", "_reductions"), ("Lengths", "_expr")):
        c = model.cls(cname, modname)
        fn = model.method(c, "_simplify_down", own=True).node
        for mod, cls, f in closure_functions(model, c.module, c, fn, depth=3):
            defs = flow.Defs(f)
            fq = qual(cls, f) if cls is not None else f"{mod.name.split('.', 1)[-1]}.{f.name}"
            for node in ast.walk(f):
                pick = None
                if isinstance(node, ast.Call) and isinstance(node.func, ast.Name) and node.func.id in ("max", "min", "next") and node.args:
                    pick = node.args[0]
                elif isinstance(node, ast.Subscript) and isinstance(node.ctx, ast.Load) and isinstance(node.slice, (ast.Constant, ast.UnaryOp)):
                    pick = node.value
                if pick is None:
                    continue
                p = flow.point_of(f, node)
                if p is None:
                    continue
                src = ast.unparse(defs.expand(pick, at=p.stmt))
                if ".dependencies()" not in src:
                    continue
                n += 1
                cid = f"{fq}:pick:{unparse(node)[:50]}"
                fs = list(flow.facts(p))
                one = [unparse(t) for t, pol in fs if pol and isinstance(t, ast.Compare) and len(t.ops) == 1 and isinstance(t.ops[0], ast.Eq) and "len(" in unparse(t.left) and isinstance(t.comparators[0], ast.Constant) and t.comparators[0].value == 1]
                notbw = [unparse(t) for t, pol in fs if not pol and isinstance(t, ast.Call) and unparse(t.func) == "isinstance" and "Blockwise" in unparse(t.args[1])]
                if one:
                    ctx.ok(cid, mod.loc(node), f"single candidate / single common root established by `{one[0]}`")
                elif notbw and (fq, "not-blockwise") in R06G_EXCEPTIONS:
                    ctx.exempt(cid, mod.loc(node), R06G_EXCEPTIONS[(fq, "not-blockwise")])
                else:
                    ctx.bad(cid, mod.loc(node), f"`{unparse(node)}` picks one of several inputs of a row-count preserving frame by position/size without establishing that they have the same rows: an elementwise result has the UNION of its inputs' labels (len(df.a[df.a > 6] + df.b) is 10, the first input has 3 rows)")
    ctx.floor("length pass-through input picks", n, 2)


def _safe_params(model, k):
    try:
        model.parameters(k)
        return True
    except AnalysisError:
        return False


# function -> expectation for comparisons between a partition's upper end and the next partition's lower end
R06F_SITES = {
    "_shuffle._calculate_divisions": "separation",
    "_concat.Concat._monotonic_divisions": "separation",
    "_collection.FrameBase.compute_current_divisions": "overlap",
    "_expr.ResolveOverlappingDivisions._layer": "overlap",
    # divisions of a parquet dataset from per-file (min, max) statistics: a file whose minimum lies below the previous file's
    # maximum overlaps it - the dataset is then not partitioned by the index and divisions must be reported unknown
    "io.parquet._divisions_from_statistics": "overlap-reject",
}


def _end_kind(txt):
    """which end of a partition's range does the expression denote (decided by the first marker in it)"""
    pos = {}
    for kind, markers in (("max", ("maxes", "divisions[-1]", "_max", "['max']")), ("min", ("mins", "divisions[0]", "_min", "['min']"))):
        idx = [txt.find(m) for m in markers if m in txt]
        if idx:
            pos[kind] = min(idx)
    if not pos:
        return set()
    return {min(pos, key=pos.get)}


@rule(
    "R06f",
    ["C06", "C10", "C02"],
    """STRICT RANGE SEPARATION: a partition's last division / maximum is inclusive. Where the planner concludes from
    `max(i) <op> min(i+1)` that adjacent ranges are separated (so it may skip the shuffle or keep known divisions), the
    comparison must be strict (max < min); where it detects potential overlap the comparison must include equality
    (min >= max). Sites are found by kind (maxes / divisions[-1] against mins / divisions[0]) and their role is a
    confirmed table keyed by function.""",
)
def r06f(ctx):
    model = ctx.model
    found = {}
    for mod, cls, fn in model.all_functions():
        fq = qual(cls, fn) if cls is not None else f"{mod.name.split('.', 1)[-1]}.{fn.name}"
        defs = None
        for n in iter_body_nodes(fn):
            if not (isinstance(n, ast.Compare) and len(n.ops) == 1 and isinstance(n.ops[0], (ast.Lt, ast.LtE, ast.Gt, ast.GtE))):
                continue
            if defs is None:
                defs = flow.Defs(fn)
            l = unparse(defs.expand(n.left, at=n), 400)
            r = unparse(defs.expand(n.comparators[0], at=n), 400)
            kl, kr = _end_kind(l), _end_kind(r)
            if kl == {"max"} and kr == {"min"}:
                orient = "max-min"
            elif kl == {"min"} and kr == {"max"}:
                orient = "min-max"
            else:
                continue
            found.setdefault(fq, []).append((mod, n, orient))
    for fq, role in R06F_SITES.items():
        if fq not in found:
            if role == "overlap-reject":
                mod_, fn_ = model.func(fq.rsplit(".", 1)[0], fq.rsplit(".", 1)[1])
                ctx.bad(f"{fq}:range-compare#0", mod_.loc(fn_), f"{fq} never compares a file's minimum with the previous file's maximum: (min, max) pairs that merely sort lexicographically ([0, 10], [5, 15]) are reported as known divisions although the ranges overlap - loc / repartition then miss rows")
                continue
            raise AnalysisError(f"R06f: anchor vanished: no upper-end / lower-end comparison found in {fq}")
    for fq, sites in sorted(found.items()):
        role = R06F_SITES.get(fq)
        for i, (mod, n, orient) in enumerate(sites):
            cid = f"{fq}:range-compare#{i}"
            op = type(n.ops[0]).__name__
            # normalise to max ? min
            rel = {"Lt": "<", "LtE": "<=", "Gt": ">", "GtE": ">="}[op]
            if orient == "min-max":
                rel = {"<": ">", "<=": ">=", ">": "<", ">=": "<="}[rel]
            if role is None:
                ctx.unclassified(cid, mod.loc(n), f"max {rel} min comparison in a function without a confirmed role")
            elif role == "overlap-reject":
                p_ = flow.point_of(model.func(fq.rsplit(".", 1)[0], fq.rsplit(".", 1)[1])[1], n)
                if rel in (">", ">="):
                    ctx.ok(cid, mod.loc(n), f"overlap (max {rel} min) is detected")
                else:
                    ctx.bad(cid, mod.loc(n), f"`{unparse(n)}` (max {rel} min) no longer detects overlapping file ranges")
            elif role == "separation":
                if rel == "<":
                    ctx.ok(cid, mod.loc(n), "separation test is strict")
                else:
                    ctx.bad(cid, mod.loc(n), f"`{unparse(n)}` accepts max {rel} min as 'ranges separated': a value equal to the previous partition's inclusive upper end may sit in both partitions, so the shuffle is skipped / divisions are kept although a key straddles the border")
            else:
                if rel == "<=":
                    ctx.ok(cid, mod.loc(n), "overlap test includes touching ranges")
                else:
                    ctx.bad(cid, mod.loc(n), f"`{unparse(n)}` (max {rel} min) no longer treats touching ranges as overlapping: a key equal to the previous maximum stays split across two partitions")


IDX_ATOMS = ("npartitions", "_fusion_buckets", "_partitions")
R06A_EXCEPTIONS = {
    "io.io.FromArray._divisions": "RangeIndex labels of an array ARE positions",
}


@rule(
    "R06a",
    ["C06", "C18"],
    """DIVISION KIND: in every _divisions, an element appended to / placed in the returned sequence may not be a partition
    number or count (an element of _fusion_buckets / _partitions, .npartitions, len(...), a range/enumerate position);
    such values may only subscript division sequences.""",
)
def r06a(ctx):
    model = ctx.model
    defs_ = own_methods(model, "_divisions")
    ctx.floor("_divisions implementations", len(defs_), 85)
    for c, m in defs_:
        fn = m.node
        cid = qual(c, fn)
        bad = []
        pos_vars = set()
        for n in iter_body_nodes(fn):
            if isinstance(n, ast.For) and isinstance(n.iter, ast.Call) and dotted(n.iter.func) in ("range", "enumerate"):
                t = n.target
                if isinstance(t, ast.Name):
                    pos_vars.add(t.id)
                elif isinstance(t, ast.Tuple) and dotted(n.iter.func) == "enumerate" and isinstance(t.elts[0], ast.Name):
                    pos_vars.add(t.elts[0].id)
        elems = []
        for n in iter_body_nodes(fn):
            if isinstance(n, ast.Call) and isinstance(n.func, ast.Attribute) and n.func.attr == "append" and len(n.args) == 1:
                elems.append(n.args[0])
            if isinstance(n, ast.Return) and isinstance(n.value, (ast.Tuple, ast.List)):
                elems.extend(n.value.elts)
        for e in elems:
            if isinstance(e, ast.Starred):
                continue
            t = unparse(e)
            if isinstance(e, ast.Name) and e.id in pos_vars:
                bad.append((e, f"loop position `{t}`"))
            elif isinstance(e, ast.Attribute) and e.attr in ("npartitions",):
                bad.append((e, f"partition count `{t}`"))
            elif isinstance(e, ast.Subscript) and any(is_self_attr(a) and a.attr in ("_fusion_buckets", "_partitions") for a in ast.walk(e.value)) and not _inside_index_of_division_seq(e):
                bad.append((e, f"partition number `{t}`"))
            elif isinstance(e, ast.Call) and dotted(e.func) == "len":
                bad.append((e, f"count `{t}`"))
        if not bad:
            ctx.ok(cid, c.module.loc(fn))
        elif cid in R06A_EXCEPTIONS:
            ctx.exempt(cid, c.module.loc(fn), R06A_EXCEPTIONS[cid])
        else:
            e, what = bad[0]
            ctx.bad(cid, c.module.loc(e), f"{what} is placed in the divisions as if it were an index value; partition numbers may only subscript a division sequence")


def _inside_index_of_division_seq(e):
    return False


@rule(
    "R06h",
    ["C06", "C13"],
    """A REQUESTED PARTITION COUNT IS NOT REPORTED WHERE THE PLAN CAN PRODUCE FEWER: a class that overrides `npartitions` to answer with a
    parameter (the count the user asked for) while its `_lower` builds divisions that are de-duplicated (`unique(...)`,
    `drop_duplicates()`) must answer from the divisions (`len(self.divisions) - 1`) on that path - otherwise npartitions and the graph
    disagree: from_pandas(10 rows, 2).repartition(npartitions=20) reported 20 partitions and had 9; tail() / partitions[-1] failed.""",
)
def r06h(ctx):
    model = ctx.model
    n = 0
    for c in model.expr_classes():
        mem = c.members.get("npartitions")
        if mem is None or mem.kind == "attr":
            continue
        fn = mem.node
        rets = [r for r in ast.walk(fn) if isinstance(r, ast.Return) and r.value is not None]
        defs = flow.Defs(fn)
        raw = [r for r in rets if "operand(" in ast.unparse(defs.expand(r.value, at=r)) or any(isinstance(x, ast.Name) and any("operand(" in ast.unparse(d.value) for d in defs.reaching(x.id, r) if d.value is not None) for x in ast.walk(r.value))]
        if not raw:
            continue
        lw = c.members.get("_lower")
        dedup = lw is not None and lw.kind != "attr" and any(k in ast.unparse(lw.node) for k in ("unique(", "drop_duplicates("))
        n += 1
        cid = f"{c.qual}.npartitions:requested-count"
        from_div = any(pfind_text in ast.unparse(r.value).replace(" ", "") for r in rets for pfind_text in ("len(self.divisions)-1", "len(self._divisions())-1"))
        if not dedup:
            ctx.ok(cid, c.module.loc(fn), "the plan never de-duplicates the divisions it builds for the requested count")
        elif from_div:
            ctx.ok(cid, c.module.loc(fn), "answers from the divisions where they can be de-duplicated")
        else:
            ctx.bad(cid, c.module.loc(fn), f"{c.qual}.npartitions answers with the requested count (`{unparse(raw[0].value)}`) although {c.name}._lower de-duplicates the divisions it interpolates: fewer partitions than reported come out (repartition(npartitions=20) of 10 integer-indexed rows has 9), so tail(), partitions[-1] and Partitions push-down index past the end")
    ctx.floor("npartitions overrides answering with a requested count", n, 1)


# `_divisions` implementations allowed to map division values without a validity check, with the reason
R06I_EXCEPTIONS = {
    "_expr.Map": "guarded by the user-asserted `is_monotonic` flag (user-asserted divisions are outside the property)",
}


@rule(
    "R06i",
    ["C06"],
    """MAPPED DIVISIONS ARE VALIDATED - sibling agreement: a `_divisions` that computes the new divisions by pushing the old division
    VALUES through the operation itself (self.operation / self.func / a per-division comprehension / .map / .rename) only yields
    truthful divisions if the operation is strictly increasing on the labels. UFuncElemwise checks `valid_divisions(...)` and falls back
    to unknown, RenameSeries raises on a non-monotonic outcome; every sibling must do one of the two (or sit under a user assertion).
    Binop did neither: (df.index // 4), (df.index % 3), (100 - df.index) reported unsorted / overlapping divisions and loc lost rows;
    Series.add_prefix turned (0, 10, 20) into ('p0', 'p10', 'p20').""",
)
def r06i(ctx):
    model = ctx.model
    n = 0
    for c in model.expr_classes():
        mem = c.members.get("_divisions")
        if mem is None or mem.kind == "attr":
            continue
        fn = mem.node
        t = ast.unparse(fn)
        if ".divisions" not in t:
            continue
        maps = []
        for x in ast.walk(fn):
            if isinstance(x, ast.Call) and isinstance(x.func, ast.Attribute) and isinstance(x.func.value, ast.Name) and x.func.value.id == "self" and x.func.attr in ("operation", "func", "op"):
                maps.append(x)
            elif isinstance(x, ast.Call) and isinstance(x.func, ast.Attribute) and x.func.attr in ("map", "rename") and ".divisions" in ast.unparse(x.func.value):
                maps.append(x)
            elif isinstance(x, (ast.GeneratorExp, ast.ListComp)) and ".divisions" in ast.unparse(x.generators[0].iter) and not (isinstance(x.elt, ast.Name) or isinstance(x.elt, ast.Subscript) or isinstance(x.elt, ast.Constant)):
                maps.append(x)
        if not maps:
            continue
        n += 1
        cid = f"{c.qual}._divisions:mapped"
        checked = "valid_divisions(" in t or ".is_monotonic_increasing" in t
        if checked:
            ctx.ok(cid, c.module.loc(fn), "the mapped divisions are validated (valid_divisions / monotonic check)")
        elif c.qual in R06I_EXCEPTIONS:
            ctx.exempt(cid, c.module.loc(fn), R06I_EXCEPTIONS[c.qual])
        else:
            ctx.bad(cid, c.module.loc(maps[0]), f"{c.qual}._divisions pushes the division values through `{unparse(maps[0])[:80]}` and reports the outcome unchecked: unless the operation is strictly increasing on the labels the divisions are unsorted or equal labels straddle a boundary (index // 4, index % 3, 100 - index, str() of numbers), and loc / repartition / align drop rows")
    ctx.floor("divisions computed by mapping division values", n, 3)


# layers that concatenate several pieces into one output partition AND report known divisions: confirmed order preserving
R06J_ORDERED_CONCAT = {
    "_concat.StackPartition": "axis=0 concat: divisions known only when the inputs' ranges follow each other",
    "_concat.StackPartitionInterleaved": "pieces of one output partition come from inputs repartitioned to common divisions, concatenated then sorted by pandas' concat on aligned ranges",
    "_expr.ResolveOverlappingDivisions": "moves boundary rows between neighbours, keeps order",
    "_merge_asof.MergeAsofIndexed": "per left partition: the right pieces are concatenated in partition order before merge_asof, the result keeps the left index",
    "_repartition.RepartitionToFewer": "consecutive input partitions, in order",
    "_repartition.RepartitionDivisions": "consecutive boundary slices, in order",
    "_repartition.RepartitionSize": "consecutive input partitions, in order",
}


@rule(
    "R06j",
    ["C06", "C10"],
    """A PARTITION ASSEMBLED FROM UNORDERED PIECES HAS NO KNOWN DIVISIONS: known divisions promise index values inside
    [divisions[i], divisions[i+1]) AND (what loc / repartition / align rely on) sorted rows inside each partition. A hand-written
    layer that concatenates several partial results into one output partition may report known divisions only if it is in the
    confirmed table of order-preserving concatenations. BroadcastJoin concatenated the merges with every partition of the broadcast
    side and copied the divisions of the large input: repartition() of the result returned 0 of 128 rows.""",
)
def r06j(ctx):
    import re as _re

    model = ctx.model
    n = 0
    for c in model.expr_classes():
        lay = c.members.get("_layer")
        if lay is None or lay.kind == "attr":
            continue
        if not _re.search(r"\b_?concat\w*\b", ast.unparse(lay.node)):
            continue
        dv = c.provider("_divisions")
        if dv is None or dv.kind == "attr":
            continue
        rets = [r.value for r in ast.walk(dv.node) if isinstance(r, ast.Return) and r.value is not None]
        known = [r for r in rets if not _re.match(r"^[\(\[]None,?[\)\]] \* ", ast.unparse(r))]
        n += 1
        cid = f"{c.qual}:concatenating-layer-divisions"
        if not known:
            ctx.ok(cid, c.loc, "reports unknown divisions")
        elif c.qual in R06J_ORDERED_CONCAT:
            ctx.ok(cid, c.loc, R06J_ORDERED_CONCAT[c.qual])
        else:
            ctx.bad(cid, dv.cls.module.loc(known[0]), f"{c.qual}._layer concatenates several partial results into one output partition, and {dv.cls.qual}._divisions reports `{unparse(known[0])}`: the class is not in the confirmed table of order-preserving concatenations, so rows inside a partition are not sorted (and for a join on columns not even labelled by that index) - loc, repartition and alignment on the result lose rows")
    ctx.floor("concatenating layers", n, 8)
    # the logical node agrees with its physical twin: no known divisions on the broadcast-join path of Merge._divisions
    merge = model.cls("Merge", "_merge")
    fn = model.method(merge, "_divisions", own=True).node
    seen_branch = any("is_broadcast_join" in ast.unparse(i_.test) for i_ in ast.walk(fn) if isinstance(i_, ast.If))
    if not seen_branch:
        raise AnalysisError("anchor vanished: broadcast-join branch of Merge._divisions")
    badret = None
    for p in flow.returns(fn):
        if p.stmt.value is None:
            continue
        if any(pol and ast.unparse(t) == "self.is_broadcast_join" for t, pol in flow.facts(p)) and not _re.match(r"^[\(\[]None,?[\)\]] \* ", ast.unparse(p.stmt.value)):
            badret = p
    cid = "_merge.Merge._divisions:broadcast-join"
    if badret is None:
        ctx.ok(cid, merge.module.loc(fn), "unknown divisions on the broadcast-join path")
    else:
        ctx.bad(cid, merge.module.loc(badret.stmt), f"on the broadcast-join path Merge._divisions returns `{unparse(badret.stmt.value)}`: a broadcast join concatenates the merges with every partition of the broadcast side, the rows of a partition are not sorted and for a join on columns the index is a fresh RangeIndex - the copied divisions make repartition / loc / align drop rows")


# operators that REPLACE the index of their frame: parameter that carries the new index
R06K_INDEX_REPLACING = {
    "_expr.AssignIndex": "value",
}


@rule(
    "R06k",
    ["C06"],
    """AN OPERATOR THAT REPLACES THE INDEX NEVER REPORTS THE OLD INDEX'S DIVISIONS: after `df.index = new_index` the rows are labelled
    by `new_index`; the divisions of the frame describe labels that are gone. `_divisions` of an index-replacing operator (confirmed
    table) may only be derived from the operand that carries the new index - if that operand has unknown divisions, so has the result.
    Falling back to `self.frame.divisions` claims ranges the new labels need not lie in.""",
)
def r06k(ctx):
    model = ctx.model
    n = 0
    for q, param in sorted(R06K_INDEX_REPLACING.items()):
        c = next((k for k in model.expr_classes() if k.qual == q), None)
        if c is None:
            raise AnalysisError(f"anchor vanished: index-replacing operator {q}")
        dv = c.provider("_divisions")
        n += 1
        cid = f"{q}._divisions:from-new-index"
        rets = [r.value for r in ast.walk(dv.node) if isinstance(r, ast.Return) and r.value is not None]
        old = [r for r in rets if "self.frame" in ast.unparse(r)]
        if dv.cls is not c and not dv.cls.is_sub(c):
            ctx.bad(cid, c.loc, f"{q} no longer defines its own _divisions: it inherits {dv.cls.qual}._divisions, which answers for the frame's old index")
        elif old:
            ctx.bad(cid, dv.cls.module.loc(old[0]), f"{q}._divisions returns `{unparse(old[0])}`: the divisions of the frame belong to the index that is being replaced; with a new index of unknown divisions the result must be unknown too, otherwise loc / align / repartition trust ranges the new labels do not lie in")
        else:
            ctx.ok(cid, dv.cls.module.loc(dv.node), f"divisions come from self.{param} only")
    ctx.floor("index-replacing operators", n, 1)


@rule(
    "R06l",
    ["C06", "C17", "C11"],
    """DIVISIONS OF A FUSED READ ARE ADDRESSED THROUGH ITS BUCKETS ONLY: FusedIO groups the partitions of a source into buckets of absolute
    partition numbers; a partition selection leaves buckets that need not start at 0 nor end at the last partition. Every boundary of the
    fused node is `divisions[<bucket entry>]` / `divisions[<last bucket's last entry> + 1]` - an index taken from `_fusion_buckets`.
    A constant index (`divisions[-1]`, `divisions[0]`) is the boundary of the WHOLE source: for a selected range the last division then
    claims rows up to the end of the file set, and a persisted / re-imported cut keeps that wrong range.""",
)
def r06l(ctx):
    model = ctx.model
    c = model.cls("FusedIO", "io.io")
    fn = model.method(c, "_divisions", own=True).node
    defs = flow.Defs(fn)
    src = [d for d in ast.walk(fn) if isinstance(d, ast.Assign) and "_divisions()" in ast.unparse(d.value)]
    if not src or not isinstance(src[0].targets[0], ast.Name):
        raise AnalysisError("anchor vanished: the source divisions local of FusedIO._divisions")
    dv = src[0].targets[0].id
    n = 0
    for sub in (x for x in ast.walk(fn) if isinstance(x, ast.Subscript) and isinstance(x.ctx, ast.Load) and isinstance(x.value, ast.Name) and x.value.id == dv):
        n += 1
        idx = ast.unparse(defs.expand(sub.slice, at=sub))
        loopvar_ok = any(isinstance(y, ast.Name) and any("_fusion_buckets" in ast.unparse(g.iter) for comp in ast.walk(fn) if isinstance(comp, (ast.ListComp, ast.GeneratorExp)) for g in comp.generators if ast.unparse(g.target) == y.id) for y in ast.walk(sub.slice))
        cid = f"io.io.FusedIO._divisions:index:{ast.unparse(sub)[:50]}"
        if "_fusion_buckets" in idx or loopvar_ok:
            ctx.ok(cid, c.module.loc(sub), "indexed through the fusion buckets")
        else:
            ctx.bad(cid, c.module.loc(sub), f"`{ast.unparse(sub)}` addresses the source's divisions with an index that does not come from `_fusion_buckets`: for a fused read of SELECTED partitions that is a boundary of the whole source, so the fused node claims a range beyond its last partition (loc / repartition / a persisted cut trust it)")
    ctx.floor("division look-ups of FusedIO._divisions", n, 2)
