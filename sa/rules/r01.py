"""C01 / C04 / C07: rewrite rules preserve the meaning of (parent, self) - structural clauses."""
from __future__ import annotations

import ast

from sa import flow
from sa.model import AnalysisError, dotted, names_in, unparse
from sa.rules import LEVEL_TEXT, rule
from sa.rules.util import (
    REWRITE_METHODS,
    bind_call,
    callee,
    const_str,
    ctor_target,
    fact_isinstance,
    is_self_attr,
    iter_body_nodes,
    own_methods,
    qual,
    reads_of_self,
)

LEVEL_TEXT["C01"] = (
    "Decides structural necessary conditions of 'a rewrite is meaning-preserving and never makes a computable query "
    "fail': a child rule returns a replacement FOR ITS PARENT, so every non-None return of _simplify_up/_tune_up "
    "either re-applies the parent, is produced by a helper that does, or sits under an equality test that makes the "
    "parent redundant; rules that rebuild an expression pass every parameter (no silent reset to a default, no "
    "shadowing property in place of the operand); a rule that skips a node consults all of that node's parameters; "
    "rules that distribute a row/partition selection over operands respect the child's broadcast rule; filters "
    "move only under the legality test (R03d). Undecided: result equality itself (runtime values, rule interactions)."
)
LEVEL_TEXT["C04"] = (
    "Decides structural necessary conditions of C04: projection rules keep the parent's selection (list-ness and order) "
    "unless an equality test makes it redundant; rebuilt expressions keep all parameters; key / by / subset columns "
    "are protected through additional_columns; column lists handed to a projection are duplicate free and in source "
    "order where a source absorbs them; prefix / suffix stripping slices by length. Undecided: value equality."
)
LEVEL_TEXT["C07"] = (
    "Decides: optimization never changes the declared schema through a projection rule (R01a: list-ness and order of the "
    "parent's selection are preserved), user-function outputs are enforced against the declared meta when "
    "enforce_metadata is set, and the collection type is chosen from the meta by a registered dispatch. Thin, stated "
    "as such; agreement of _meta emulation with real data is NOT decided."
)

PROJECTION_HELPERS = {"plain_column_projection", "groupby_projection"}

# (class qual, parent class) -> reason a return may lose `parent` (confirmed by reading each rule)
R01A_TABLE = {
    ("_expr.Head", "Repartition"): "Head already yields one partition: Repartition(1) on top is the identity",
    ("_expr.Tail", "Repartition"): "Tail already yields one partition: Repartition(1) on top is the identity",
    ("io.io.FromPandas", "Lengths"): "ANSWER: lengths are known from the in-memory source",
    ("io.io.FromPandas", "Len"): "ANSWER: length is known from the in-memory source",
    ("io.parquet.ReadParquet", "Lengths"): "ANSWER: lengths from file metadata (no filters, selected partitions only: R06d/R11d)",
    ("io.parquet.ReadParquet", "Len"): "ANSWER: length from file metadata",
    ("io.parquet.ReadParquet", "Index"): "Index(...) is re-applied explicitly around the pruned reader",
    ("_expr.Filter", "Index"): "Index is pushed below the filter: frame.index[predicate] is Index(Filter) by construction",
    ("_merge.Merge", "Filter"): "the filter is moved into the join input(s) under R03b/R03c; dropping it on top is the point",
    ("_expr.ResetIndex", "Projection"): "scalar selection of a data column of reset_index(series): the former index is dropped instead (drop=True) - the rule checked all dependents select that column",
    ("_expr.Unaryop", "Projection"): "operand is not an expression (literal): nothing to project",
}


def _derives_from_parent_columns(defs, node, par, depth=0):
    """Does the value of node (following reaching defs) come from parent.operand('columns') / parent.operands[1:] / parent.columns?"""
    if depth > 4:
        return False
    t = ast.unparse(node)
    if f"{par}.operand('columns')" in t or f"{par}.operands[1:]" in t or f"{par}.columns" in t or f"{par}.operands[1]" in t:
        return True
    for n in ast.walk(node):
        if isinstance(n, ast.Name) and isinstance(n.ctx, ast.Load) and n.id not in (par, "self"):
            for d in defs.reaching(n.id, n):
                if d.value is not None and d.value is not node and _derives_from_parent_columns(defs, d.value, par, depth + 1):
                    return True
    return False


def _classify_projection_return(model, c, fn, defs, p, par):
    v = p.stmt.value
    t = ast.unparse(v)
    # A: re-wrap
    if f"type({par})(" in t:
        return "A", "re-applies type(parent)(...)"
    if isinstance(v, ast.Call) and isinstance(v.func, ast.Attribute) and v.func.attr == "substitute" and isinstance(v.func.value, ast.Name) and v.func.value.id == par and v.args and isinstance(v.args[0], ast.Name) and v.args[0].id == "self":
        return "A", "keeps the parent and replaces self inside it (parent.substitute(self, ...))"
    if isinstance(v, ast.Subscript) and _derives_from_parent_columns(defs, v.slice, par):
        return "A", "re-applies the parent's selection by getitem"
    if isinstance(v, ast.Call) and dotted(v.func) in ("Projection",) and len(v.args) >= 2 and _derives_from_parent_columns(defs, v.args[1], par):
        return "A", "re-applies Projection(..., parent columns)"
    # B: helper
    def helper_call(e):
        if isinstance(e, ast.Call):
            d = dotted(e.func)
            if d in PROJECTION_HELPERS or (d or "").endswith("._simplify_up") or d == "self._filter_simplification":
                return True
            if isinstance(e.func, ast.Attribute) and e.func.attr == "_simplify_up" and isinstance(e.func.value, ast.Call) and dotted(e.func.value.func) == "super":
                return True
            if isinstance(e.func, ast.Attribute) and e.func.attr == "substitute_parameters":
                return helper_call(e.func.value) or helper_name(e.func.value)
        return False

    def helper_name(e, depth=0):
        if isinstance(e, ast.Name) and depth < 4:
            ds = [d for d in defs.reaching(e.id, e) if d.value is not None]
            return bool(ds) and all(helper_call(d.value) or helper_name(d.value, depth + 1) for d in ds)
        return False

    if helper_call(v) or helper_name(v):
        return "B", "produced by a helper that re-applies the parent"
    # C: equality guard with the parent's columns
    for term, pol in flow.facts(p):
        if isinstance(term, ast.Compare) and len(term.ops) == 1:
            is_eq = isinstance(term.ops[0], ast.Eq) and pol or isinstance(term.ops[0], ast.NotEq) and not pol
            if is_eq and (_derives_from_parent_columns(defs, term.left, par) or _derives_from_parent_columns(defs, term.comparators[0], par)):
                return "C", f"under equality guard `{ast.unparse(term)}`"
        # scalar lemma: a non-list result of determine_column_projection equals the parent's scalar column
        if isinstance(term, ast.Call) and dotted(term.func) == "isinstance" and not pol and len(term.args) == 2 and dotted(term.args[1]) == "list":
            if isinstance(term.args[0], ast.Name):
                ds = defs.reaching(term.args[0].id, term)
                if any(d.value is not None and "determine_column_projection(" in ast.unparse(d.value) for d in ds):
                    return "C", "scalar lemma: a non-list projection result is the parent's own scalar column"
        if isinstance(term, ast.Call) and dotted(term.func) == "isinstance" and not pol and f"{par}.operand('columns')" in ast.unparse(term.args[0]) and dotted(term.args[1]) == "list":
            return "C", "parent selects a scalar column (and the rule established it is the only required one)"
    # conditional re-wrap idiom: `if X != parent_columns: result = result[parent_columns]` before `return result`
    if isinstance(v, ast.Name):
        for st in p.preceding:
            if isinstance(st, ast.If) and isinstance(st.test, ast.Compare) and isinstance(st.test.ops[0], ast.NotEq) and not st.orelse:
                if _derives_from_parent_columns(defs, st.test, par):
                    for a in st.body:
                        if isinstance(a, ast.Assign) and any(isinstance(tg, ast.Name) and tg.id == v.id for tg in a.targets) and isinstance(a.value, ast.Subscript) and _derives_from_parent_columns(defs, a.value.slice, par):
                            return "C", "conditional re-wrap: re-projected unless the columns already equal the parent's"
    return None, None


@rule(
    "R01a",
    ["C01", "C04", "C07"],
    """PARENT-PRESERVED: every non-None return of a _simplify_up / _tune_up (which receives `parent` and returns the
    replacement FOR parent) is classified. Under a Projection parent it must (A) re-apply the parent
    (type(parent)(new, *parent.operands[1:]), new[parent columns]), (B) come from a helper that does
    (plain_column_projection, groupby_projection, super()._simplify_up, _filter_simplification), or (C) sit under an
    equality test between the new columns and the parent's (incl. the scalar lemma and the conditional re-wrap idiom).
    Under any other parent the returned expression must be built from `parent`. Anything else loses the parent and is
    a violation unless (class, parent class) is in the confirmed table.""",
)
def r01a(ctx):
    model = ctx.model
    n = 0
    for mname in ("_simplify_up", "_tune_up"):
        for c, m in own_methods(model, mname):
            fn = m.node
            if len(fn.args.args) < 2:
                continue
            par = fn.args.args[1].arg
            defs = flow.Defs(fn)
            for i, p in enumerate(flow.returns(fn)):
                v = p.stmt.value
                if v is None or (isinstance(v, ast.Constant) and v.value is None):
                    continue
                n += 1
                cid = f"{qual(c, fn)}#return{i}"
                loc = c.module.loc(p.stmt)
                pcs = [names for names, pol in fact_isinstance(p, par) if pol]
                pcs = sorted({x for names in pcs for x in names})
                under_proj = "Projection" in pcs
                if under_proj:
                    kind, why = _classify_projection_return(model, c, fn, defs, p, par)
                    if kind:
                        ctx.ok(cid, loc, f"{kind}: {why}")
                        continue
                else:
                    if _mentions(defs, v, par):
                        ctx.ok(cid, loc, "built from parent")
                        continue
                key = next(((c.qual, pc) for pc in pcs if (c.qual, pc) in R01A_TABLE), None)
                if key is None:
                    for k in c.mro:
                        key = next(((k.qual, pc) for pc in pcs if (k.qual, pc) in R01A_TABLE), None)
                        if key:
                            break
                if key is None and "_parameters" not in c.members:
                    # the rule was hoisted into an abstract base (no parameters of its own): the table must cover every
                    # concrete class that inherits THIS definition
                    heirs = [k for k in model.subclasses(c, strict=True) if k.provider(fn.name) is not None and k.provider(fn.name).node is fn and "_parameters" in k.members]
                    for pc in pcs:
                        if heirs and all((k.qual, pc) in R01A_TABLE or any((b.qual, pc) in R01A_TABLE for b in k.mro if b is not c and b in heirs) for k in heirs):
                            key = (heirs[0].qual, pc)
                            break
                if key:
                    ctx.exempt(cid, loc, R01A_TABLE[key])
                else:
                    ctx.bad(
                        cid,
                        loc,
                        f"`return {unparse(v)}` (parent is {pcs or 'any'}) replaces the parent without re-applying it and without an equality test that makes it redundant: "
                        + ("the requested column list / order / list-ness is lost, so schema and result change under optimization" if under_proj else "the parent's operation is silently dropped"),
                    )
    ctx.floor("non-None return paths of up-rules", n, 60)
    # the helpers themselves
    mod, fn = model.func("_expr", "plain_column_projection")
    defs = flow.Defs(fn)
    par = fn.args.args[1].arg
    for i, p in enumerate(flow.returns(fn)):
        v = p.stmt.value
        if v is None or (isinstance(v, ast.Constant) and v.value is None):
            continue
        kind, why = _classify_projection_return(model, None, fn, defs, p, par)
        cid = f"_expr.plain_column_projection#return{i}"
        (ctx.ok if kind else ctx.bad)(cid, mod.loc(p.stmt), f"{kind}: {why}" if kind else f"`return {unparse(v)}` in the generic projection push-down neither re-applies the parent nor is guarded by column equality")
    gmod, gfn = model.func("_groupby", "groupby_projection")
    defs = flow.Defs(gfn)
    par = gfn.args.args[1].arg
    for i, p in enumerate(flow.returns(gfn)):
        v = p.stmt.value
        if v is None or (isinstance(v, ast.Constant) and v.value is None):
            continue
        kind, why = _classify_projection_return(model, None, gfn, defs, p, par)
        cid = f"_groupby.groupby_projection#return{i}"
        (ctx.ok if kind else ctx.bad)(cid, gmod.loc(p.stmt), f"{kind}: {why}" if kind else f"`return {unparse(v)}` neither re-applies the parent nor is guarded by column equality")


def _mentions(defs, node, par, depth=0):
    if depth > 4:
        return False
    for n in ast.walk(node):
        if isinstance(n, ast.Name) and isinstance(n.ctx, ast.Load):
            if n.id == par:
                return True
            if n.id != "self":
                for d in defs.reaching(n.id, n):
                    if d.value is not None and d.value is not node and _mentions(defs, d.value, par, depth + 1):
                        return True
    return False


# ---------------------------------------------------------------------------------------------
# R01c
# ---------------------------------------------------------------------------------------------


@rule(
    "R01c",
    ["C01", "C11"],
    """SELECTION-DISTRIBUTION SIBLINGS: Head, Tail and Partitions._simplify_down distribute a row / partition selection
    over the operands of a partitionwise child. All three must decide per operand with the CHILD's own broadcast
    rule - `self.frame._broadcast_dep(op)` (MapPartitions and Fused override it), directly or through a package helper
    that receives the child and the operand - and wrap an operand only where that rule says "not broadcast" (or the
    helper adds a further reason); an inlined copy of the base-class test disagrees with those overrides.
    ROW selections (Head, Tail) additionally cannot decide from the broadcast rule alone: in a frame with ONE partition
    it answers "broadcast" for every lower-dimensional single-partition operand, row-aligned or reduced, so the
    decision has to read something more of the operand than its ndim / npartitions (today: its divisions) - otherwise
    df.add(df.x, axis=0).head(3) keeps all rows of df.x.""",
)
def r01c(ctx):
    model = ctx.model
    for cname in ("Head", "Tail", "Partitions"):
        c = model.cls(cname, "_expr")
        fn = model.method(c, "_simplify_down", own=True).node
        comps = [n for n in ast.walk(fn) if isinstance(n, ast.ListComp) and "self.frame.operands" in ast.unparse(n.generators[0].iter)]
        if not comps:
            raise AnalysisError(f"anchor vanished: operand distribution in {cname}._simplify_down")
        for i, comp in enumerate(comps):
            cid = f"_expr.{cname}._simplify_down:distribute#{i}"
            v = comp.generators[0].target.id if isinstance(comp.generators[0].target, ast.Name) else None
            elt = comp.elt
            if not isinstance(elt, ast.IfExp) or v is None:
                ctx.unclassified(cid, c.module.loc(comp), "distribution is not a conditional expression")
                continue
            test = ast.unparse(elt.test)

            def _wraps(arm):
                return any(isinstance(x, ast.Call) and x.args and isinstance(x.args[0], ast.Name) and x.args[0].id == v for x in ast.walk(arm))

            wrap_pol = True if _wraps(elt.body) else (False if _wraps(elt.orelse) else None)
            if wrap_pol is None:
                ctx.unclassified(cid, c.module.loc(comp), "neither arm wraps the operand")
                continue
            direct = f"self.frame._broadcast_dep({v})"
            asked = False
            op_reads = set()
            for t, pol in flow.conj_terms(elt.test, wrap_pol):
                for a in ast.walk(t):
                    if isinstance(a, ast.Attribute) and isinstance(a.value, ast.Name) and a.value.id == v:
                        op_reads.add(a.attr)
                if isinstance(t, ast.Call) and ast.unparse(t) == direct:
                    asked = asked or not pol
                elif isinstance(t, ast.Call) and pol:
                    tgt = callee(model, c.module, c, t)
                    if tgt is None:
                        continue
                    hfn = tgt[2]
                    params = [a.arg for a in hfn.args.args]
                    if params and params[0] in ("self", "cls") and isinstance(t.func, ast.Attribute):
                        params = params[1:]
                    bound = {params[k]: ast.unparse(a) for k, a in enumerate(t.args) if k < len(params)}
                    bound.update({kw.arg: ast.unparse(kw.value) for kw in t.keywords if kw.arg})
                    pf = next((p for p, a in bound.items() if a == "self.frame"), None)
                    po = next((p for p, a in bound.items() if a == v), None)
                    if pf is None or po is None:
                        continue
                    calls = [x for x in ast.walk(hfn) if isinstance(x, ast.Call) and ast.unparse(x) == f"{pf}._broadcast_dep({po})"]
                    parents = {id(ch): par for par in ast.walk(hfn) for ch in ast.iter_child_nodes(par)}
                    if calls and all(isinstance(parents.get(id(x)), ast.UnaryOp) and isinstance(parents[id(x)].op, ast.Not) for x in calls):
                        asked = True
                    for a in ast.walk(hfn):
                        if isinstance(a, ast.Attribute) and isinstance(a.value, ast.Name) and a.value.id == po:
                            op_reads.add(a.attr)
            if not asked:
                ctx.bad(cid, c.module.loc(comp), f"operands are wrapped under `{test}` without asking the child's own rule self.frame._broadcast_dep({v}): a single-partition operand that the child broadcasts (reduction result, one-partition frame in map_partitions / a fused group) gets sliced, so the optimized query fails or differs")
                continue
            more = op_reads - {"ndim", "npartitions", "_broadcast_dep"}
            if cname in ("Head", "Tail") and not more:
                ctx.bad(f"{cid}:single-partition", c.module.loc(comp), f"the row selection decides per operand from the broadcast rule alone (`{test}`): in a one-partition frame that rule calls every lower-dimensional one-partition operand broadcast, so a row-aligned Series operand (df.add(df.x, axis=0), df.assign(z=df.x)) keeps all its rows while the frame is cut - head()/tail() return extra NaN rows")
                continue
            ctx.ok(cid, c.module.loc(comp), "operands are wrapped unless the child broadcasts them" + (f"; row-aligned one-partition operands are told apart by {sorted(more)}" if cname != "Partitions" else ""))


# ---------------------------------------------------------------------------------------------
# R01d
# ---------------------------------------------------------------------------------------------

# (function qual, target class, parameter) -> reason
_SI = "SetIndex of the n first/last rows (one partition): "
R01D_OMIT_TABLE = {
    ("_shuffle.SetIndex._simplify_up", "SetIndex", "user_divisions"): _SI + "the user's divisions describe the full result, not its head/tail",
    ("_shuffle.SetIndex._simplify_up", "SetIndex", "partition_size"): _SI + "partitioning knob",
    ("_shuffle.SetIndex._simplify_up", "SetIndex", "npartitions"): _SI + "partitioning knob",
    ("_shuffle.SetIndex._simplify_up", "SetIndex", "upsample"): _SI + "sampling knob",
    ("_shuffle.SetIndex._simplify_up", "SetIndex", "shuffle_method"): _SI + "shuffle knob",
    ("_shuffle.SetIndex._simplify_up", "SetIndex", "options"): _SI + "shuffle knob",
    ("_shuffle.SetIndex._simplify_up", "SetIndex", "ascending"): _SI + "set_index never sets ascending (NFirst/NLast already use ascending=True)",
    ("_shuffle.SetIndex._simplify_up", "SetIndex", "append"): _SI + "append is only honoured on the presorted path anyway (known finding KF02)",
}
# (class, parameter): passing the attribute instead of the operand is equivalent (normalising property)
R01D_SHADOW_OK = {
    ("Projection", "columns"): "Projection.columns is the operand as a list; rebuilding with it is only done for list selections",
    ("Concat", "interleave_partitions"): "normalising property: returns the operand itself whenever the class declares the parameter",
    ("ResetIndex", "name"): "only used in the rebuild with drop=True, where pandas ignores `name`",
}


def _rewrite_functions(model):
    out = []
    for mname in REWRITE_METHODS:
        for c, m in own_methods(model, mname):
            out.append((c, c.module, m.node))
    for modname, fname in (("_expr", "plain_column_projection"), ("_groupby", "groupby_projection"), ("_expr", "maybe_align_partitions")):
        try:
            mod, fn = model.func(modname, fname)
            out.append((None, mod, fn))
        except AnalysisError:
            pass
    base = model.cls("Expr", "_expr")
    fs = base.members.get("_filter_simplification")
    if fs is not None:
        out.append((base, base.module, fs.node))
    return out


@rule(
    "R01d",
    ["C01", "C04", "C11"],
    """RECONSTRUCTION: in every rewrite rule (and the projection helpers) each Expr constructor call is bound against the
    target's _parameters: keywords must be parameters (Expr.__new__ asserts otherwise, at optimization time); when a
    rule rebuilds an instance of ITS OWN class (type(self)(...), or the class by name) every parameter that has a
    default must be passed - positionally, by keyword, via *self.operands[k:] or **kwargs - otherwise the user's
    value silently falls back to the default; and a parameter shadowed by a property of the same name must be passed
    as self.operand(p), not as the attribute.""",
)
def r01d(ctx):
    model = ctx.model
    n = 0
    shadow = {(c.qual, p): mem for c, p, mem in model.shadowed_parameters()}
    for c, mod, fn in _rewrite_functions(model):
        fq = qual(c, fn) if c is not None else f"{mod.name.split('.', 1)[-1]}.{fn.name}"
        for call in (x for x in iter_body_nodes(fn) if isinstance(x, ast.Call)):
            t = ctor_target(model, mod, c, call)
            if t is None:
                continue
            K, how = t
            try:
                b = bind_call(model, K, call)
                dfl = model.defaults(K)
            except AnalysisError:
                continue
            n += 1
            base = f"{fq}->{K.name}@{_call_ord(fn, call)}"
            problems = []
            for kw in b.unknown_keywords:
                problems.append((f"{fq}->{K.name}:{kw}", f"keyword `{kw}` is not a parameter of {K.qual}: the rewrite raises an AssertionError when it fires"))
            own = c is not None and (how == "type(self)" or K is c)
            if own:
                for q in b.params:
                    if q in dfl and not b.maybe_passed(q):
                        key = (fq, K.name, q)
                        if key in R01D_OMIT_TABLE:
                            continue
                        problems.append((f"{fq}->{K.name}:{q}", f"{c.name} is rebuilt without `{q}`: the rebuilt node gets the default {dfl[q]!r} instead of this node's value, so the rewritten query computes something else whenever `{q}` was set"))
                for q, arg in b.args.items():
                    if is_self_attr(arg) and arg.attr == q and (c.qual, q) in shadow:
                        mem = shadow[(c.qual, q)]
                        if (c.name, q) in R01D_SHADOW_OK or mem.kind == "attr":
                            continue
                        problems.append((f"{fq}->{K.name}:{q}:shadowed", f"`self.{q}` is passed for parameter `{q}`, but {c.name}.{q} resolves to the {mem.kind} defined in {mem.cls.qual}, not to the operand: the rebuilt node gets the derived value (use self.operand('{q}'))"))
            if problems:
                for cid, what in problems:
                    ctx.bad(cid, mod.loc(call), what)
            else:
                ctx.ok(base, mod.loc(call), how)
    ctx.floor("constructor calls in rewrite rules", n, 180)


def _call_ord(fn, call):
    calls = [x for x in iter_body_nodes(fn) if isinstance(x, ast.Call)]
    calls.sort(key=lambda x: (x.lineno, x.col_offset))
    return next(i for i, x in enumerate(calls) if x is call)


# ---------------------------------------------------------------------------------------------
# R01e
# ---------------------------------------------------------------------------------------------

R01E_TABLE = {
    ("_expr.Projection", "Projection", "columns"): "outer selection is a subset of the inner one: the inner column list is redundant (the rule checks that the inner frame has the columns)",
}


@rule(
    "R01e",
    ["C01", "C11"],
    """SKIPPED-NODE COVERAGE: when a rule returns an expression built on self.frame.frame (the child self.frame is skipped)
    under `isinstance(self.frame, K)`, every parameter of K other than its frame must be read (self.frame.<p> or
    self.frame.operand('<p>')) in the returned expression or in the guards on that path: a parameter of the skipped node
    that is never consulted cannot influence the result any more.""",
)
def r01e(ctx):
    model = ctx.model
    n = 0
    for mname in REWRITE_METHODS:
        for c, m in own_methods(model, mname):
            fn = m.node
            defs = flow.Defs(fn)
            for i, p in enumerate(flow.returns(fn)):
                v = p.stmt.value
                if v is None:
                    continue
                x = defs.expand(v, at=p.stmt)
                txt = ast.unparse(x)
                if "self.frame.frame" not in txt:
                    continue
                ks = []
                for t, pol in flow.facts(p):
                    if pol and isinstance(t, ast.Call) and dotted(t.func) == "isinstance" and ast.unparse(t.args[0]) == "self.frame":
                        ks += [e for e in (t.args[1].elts if isinstance(t.args[1], ast.Tuple) else [t.args[1]])]
                reads = set()
                for tree in [x] + [t for t, pol in flow.facts(p)]:
                    for a in ast.walk(tree):
                        if isinstance(a, ast.Attribute) and ast.unparse(a.value) == "self.frame":
                            reads.add(a.attr)
                        if isinstance(a, ast.Call) and ast.unparse(a.func) == "self.frame.operand" and a.args and const_str(a.args[0]):
                            reads.add(const_str(a.args[0]))
                for ke in ks:
                    r = model.resolve_expr(c.module, ke)
                    if r is None or r[0] != "class":
                        continue
                    K = r[1]
                    n += 1
                    params = [q for q in model.parameters(K) if q not in ("frame",)]
                    for q in params:
                        cid = f"{qual(c, fn)}#return{i}:skips-{K.name}.{q}"
                        if q in reads:
                            ctx.ok(cid, c.module.loc(p.stmt), f"self.frame.{q} consulted")
                        elif (c.qual, K.name, q) in R01E_TABLE:
                            ctx.exempt(cid, c.module.loc(p.stmt), R01E_TABLE[(c.qual, K.name, q)])
                        else:
                            ctx.bad(cid, c.module.loc(p.stmt), f"`return {unparse(v)}` skips the inner {K.name} but never reads its parameter `{q}`: the collapsed expression ignores what the inner {K.name} was asked to do with `{q}`")
    ctx.floor("rules that skip a node", n, 3)


# ---------------------------------------------------------------------------------------------
# R01g
# ---------------------------------------------------------------------------------------------

# parent classes whose only expression operand that can be `self` is the first one
UNARY_IN_FRAME = {
    "Projection", "Index", "Repartition", "Head", "Tail", "Len", "Lengths",
    "Unique", "DropDuplicates", "Sum", "Prod", "Max", "Any", "All", "Min", "Size", "NBytes", "Mean", "Count", "Mode",
    "NLargest", "NSmallest", "ValueCounts", "MemoryUsage",
}


@rule(
    "R01g",
    ["C01", "C03", "C04"],
    """PARENT REBUILD POSITION: `type(parent)(new, *parent.operands[1:])` puts the rewritten expression in the parent's FIRST
    operand slot. That is only the slot `self` came from when the parent is known (isinstance guard) to be of a class
    whose first operand is its single input frame (Projection, Index, Repartition, Head, Tail, the frame reductions
    ...). Under an unknown parent - a merge or binary operation of which self is the RIGHT input - the rewrite replaces
    the other input; such rules must use parent.substitute(self, new).""",
)
def r01g(ctx):
    model = ctx.model
    n = 0
    for mname in ("_simplify_up", "_tune_up"):
        for c, m in own_methods(model, mname):
            fn = m.node
            if len(fn.args.args) < 2:
                continue
            par = fn.args.args[1].arg
            for st in (x for x in ast.walk(fn) if isinstance(x, ast.Starred) and ast.unparse(x.value) == f"{par}.operands[1:]"):
                n += 1
                p = flow.point_of(fn, st)
                pcs = sorted({x for names, pol in fact_isinstance(p, par) if pol for x in names})
                cid = f"{qual(c, fn)}:parent-rebuild@{_call_ord(fn, st._parent) if isinstance(st._parent, ast.Call) else st.lineno}"
                if pcs and all(pc.split(".")[-1] in UNARY_IN_FRAME for pc in pcs):
                    ctx.ok(cid, c.module.loc(st), f"parent is {pcs}")
                elif not pcs:
                    ctx.bad(cid, c.module.loc(st), f"`type({par})(..., *{par}.operands[1:])` without any isinstance test on `{par}`: when this expression is the right input of a merge / binary operation the rewrite overwrites the parent's left input (use {par}.substitute(self, new))")
                else:
                    ctx.bad(cid, c.module.loc(st), f"the parent is rebuilt with *{par}.operands[1:] under isinstance({par}, {pcs}); {[pc for pc in pcs if pc.split('.')[-1] not in UNARY_IN_FRAME]} are not confirmed single-input classes")
    ctx.floor("parent rebuilds", n, 15)


# ---------------------------------------------------------------------------------------------
# R01h wiring of constructor arguments
# ---------------------------------------------------------------------------------------------
# (function, target class, slot, argument name) confirmed by reading
R01H_EXCEPTIONS = {
    ("_collection.from_array", "FromArray", "original_columns", "columns"): "the user's `columns` are the labels of the array (original_columns); the `columns` slot is the projection absorbed later",
}
R01H_EXCEPTIONS[("_dummies.get_dummies", "GetDummies", "dtype", "drop_first")] = (
    "all 8 operands are handed positionally to pandas.get_dummies in pandas' own order (prefix, prefix_sep, dummy_na, columns, "
    "sparse, drop_first, dtype) and the class never reads them by name - `_parameters` lacks `sparse`, a harmless inconsistency"
)
R01H_EXCEPTIONS[("_collection.DataFrame.join", "merge", "left_on", "on")] = "join(on=) names the key of the LEFT frame only; the right side joins on its index"
# Not checked: more positionals than declared parameters. The *Align classes, Assign, MapPartitions, DescribeNonNumeric,
# Repartition (a trailing None) are positional containers whose operands are forwarded with *self.operands; 12 such calls
# were read and none is a defect.


def _ident(v):
    if isinstance(v, ast.Name):
        return v.id
    if isinstance(v, ast.Attribute) and isinstance(v.value, ast.Name) and v.value.id in ("self", "parent", "expr"):
        return v.attr
    return None


@rule(
    "R01h",
    ["C01", "C02", "C10"],
    """ARGUMENT WIRING: in every construction of an expression class anywhere in the package (API layer, rewrite rules,
    lowering) the arguments are bound to the target's _parameters; an argument that is a plain name (x / self.x /
    parent.x) equal to the name of ANOTHER parameter of the target lands in the wrong slot (ascending=na_position,
    a positional list that skipped or swapped a parameter).""",
)
def r01h(ctx):
    model = ctx.model
    n = nf = 0
    for mod, cls, fn in model.all_functions():
        fq = qual(cls, fn) if cls is not None else f"{mod.name.split('.', 1)[-1]}.{fn.name}"
        k = 0
        for c in iter_body_nodes(fn):
            if not isinstance(c, ast.Call):
                continue
            r = ctor_target(model, mod, cls, c)
            if r is None:
                continue
            targets = [r[0]]
            if r[1] == "type(self)" and cls is not None:
                # the call is executed for every class that inherits this method: bind it against each of their
                # (possibly different) parameter lists
                seen_params = {tuple(model.parameters(r[0]))}
                for h in model.subclasses(cls, strict=True):
                    pm = h.provider(fn.name)
                    if pm is None or pm.node is not fn:
                        continue
                    try:
                        hp = tuple(model.parameters(h))
                    except AnalysisError:
                        continue
                    if hp not in seen_params:
                        seen_params.add(hp)
                        targets.append(h)
            for K in targets:
                b = bind_call(model, K, c)
                params = set(model.parameters(K))
                for p, v in sorted(b.args.items()):
                    name = _ident(v)
                    if name is None:
                        continue
                    n += 1
                    if name not in params and "_" + name in params:
                        name = "_" + name  # a planner property handed to the private parameter of the same name
                    if name != p and name in params:
                        cid = f"{fq}->{K.name}:{p}<-{name}"
                        if (fq, K.name, p, name) in R01H_EXCEPTIONS:
                            ctx.exempt(cid, mod.loc(c), R01H_EXCEPTIONS[(fq, K.name, p, name)])
                        else:
                            ctx.bad(cid, mod.loc(c), f"`{ast.unparse(v)}` is passed as `{p}` of {K.name}" + (f" (the method is inherited by {K.name}, whose parameters are {model.parameters(K)})" if K is not r[0] else "") + f", which has a parameter `{name}` of its own: the value ends up in the wrong slot")
            k += 1
        # calls of functions / methods defined in the package
        for c in iter_body_nodes(fn):
            if not isinstance(c, ast.Call) or not isinstance(c.func, (ast.Name, ast.Attribute)):
                continue
            target = None
            r = model.resolve_expr(mod, c.func)
            if r is not None and r[0] == "func":
                target = r[2]
            elif isinstance(c.func, ast.Attribute) and isinstance(c.func.value, ast.Name) and c.func.value.id == "self" and cls is not None:
                mm = cls.provider(c.func.attr)
                if mm is not None and isinstance(getattr(mm, "node", None), ast.FunctionDef):
                    target = mm.node
            if not isinstance(target, ast.FunctionDef):
                continue
            a = target.args
            names = [x.arg for x in a.posonlyargs + a.args]
            if names and names[0] in ("self", "cls"):
                names = names[1:]
            allp = set(names) | {x.arg for x in a.kwonlyargs}
            bound = {}
            for i, v in enumerate(c.args):
                if isinstance(v, ast.Starred):
                    break
                if i < len(names):
                    bound[names[i]] = v
            for kw in c.keywords:
                if kw.arg:
                    bound[kw.arg] = kw.value
            for p, v in sorted(bound.items()):
                name = _ident(v)
                if name is None:
                    continue
                nf += 1
                if name != p and name in allp:
                    cid = f"{fq}->{target.name}:{p}<-{name}"
                    if (fq, target.name, p, name) in R01H_EXCEPTIONS:
                        ctx.exempt(cid, mod.loc(c), R01H_EXCEPTIONS[(fq, target.name, p, name)])
                    else:
                        ctx.bad(cid, mod.loc(c), f"`{ast.unparse(v)}` is passed as `{p}` of {target.name}(), which has a parameter `{name}` of its own: the option ends up in the wrong slot")
    ctx.ok("constructor arguments by name", "", f"{n} named arguments bound to their own slot")
    ctx.ok("function arguments by name", "", f"{nf} named arguments of package functions / methods bound to their own slot")
    ctx.floor("named constructor arguments", n, 900)
    ctx.floor("named function arguments", nf, 700)


R01I_METHODS = ("_simplify_up", "_simplify_down", "_lower", "_divisions", "_meta", "_layer", "_task", "_filtered_task", "_tune_up", "_tune_down", "npartitions", "_filter_passthrough_available", "_npartitions", "_kwargs", "kwargs")


@rule(
    "R01i",
    ["C01", "C03", "C04"],
    """INHERITED RULES ONLY READ WHAT THE HEIR HAS: a rewrite / lowering / metadata method inherited from an ancestor A reads
    `self.p` for parameters p of A. A subclass that declares a different parameter list (MergeAsof vs Merge, StackPartition vs
    Concat) must still answer every such read - p is one of its own parameters or a class attribute / property - unless the
    read sits behind a `type(self) == A` test. Otherwise the optimizer raises AttributeError for that class as soon as the
    inherited rule fires (a filter or projection above it), i.e. the optimized query fails where the plain one works.""",
)
def r01i(ctx):
    model = ctx.model
    core = model.core_expr
    n = 0
    seen = set()
    for K in model.expr_classes():
        try:
            kp = set(model.parameters(K))
        except AnalysisError:
            continue
        for name in R01I_METHODS:
            mem = K.provider(name)
            if mem is None or mem.cls is K or mem.cls is core or not isinstance(mem.node, (ast.FunctionDef, ast.AsyncFunctionDef)):
                continue
            A = mem.cls
            try:
                ap = set(model.parameters(A))
            except AnalysisError:
                continue
            if ap <= kp:
                continue
            for node in iter_body_nodes(mem.node):
                if not (isinstance(node, ast.Attribute) and isinstance(node.value, ast.Name) and node.value.id == "self" and isinstance(node.ctx, ast.Load)):
                    continue
                a = node.attr
                if a not in ap:
                    continue
                n += 1
                if a in kp or K.provider(a) is not None:
                    continue
                key = (K.qual, A.qual, name, a)
                if key in seen:
                    continue
                seen.add(key)
                pt = flow.point_of(mem.node, node)
                own_only = pt is not None and any(
                    ((not pol) and unparse(t) in (f"type(self) != {A.name}", f"type(self) is not {A.name}")) or (pol and unparse(t) in (f"type(self) == {A.name}", f"type(self) is {A.name}"))
                    for t, pol in flow.facts(pt)
                )
                cid = f"{K.qual}<-{A.qual}.{name}:self.{a}"
                if own_only:
                    ctx.ok(cid, A.module.loc(node), f"only reached for {A.name} itself")
                else:
                    ctx.bad(cid, A.module.loc(node), f"{K.qual} inherits {A.qual}.{name}, which reads `self.{a}` - a parameter of {A.name} that {K.name} (parameters {sorted(kp)[:8]}...) neither declares nor defines: the rule raises AttributeError for this class when it fires")
    ctx.ok("reads of ancestor parameters in inherited methods", "", f"{n} reads examined")
    ctx.floor("reads of ancestor parameters in inherited methods", n, 20)


# (class, parameter) -> reason the parameter need not be consulted when the node is replaced by an operation on its input
R01J_EXCEPTIONS = {
    ("_shuffle.ShuffleBase", "partitioning_index"): "which key the rows were routed by is irrelevant for a reduction over all rows",
    ("_expr.AssignAlign", "value"): "the assigned column is not among the selected ones (the guard compares `column` with the selection): the assignment as a whole is dropped",
    ("_shuffle.ShuffleBase", "ignore_index"): "only the index labels differ; the reductions moved below the shuffle do not read them",
    ("_shuffle.ShuffleBase", "index_shuffle"): "which key the rows were routed by is irrelevant for a reduction over all rows",
    ("_shuffle.SortValues", "ignore_index"): "nsmallest / nlargest keep the original index labels, as sort_values(...).head() does",
    ("_shuffle.SortValues", "sort_function_kwargs"): "only read together with sort_function, which the guard requires to be None",
    ("_shuffle.SetIndex", "user_divisions"): "head / tail of the frame are taken before the index is set; divisions only steer the partitioning",
    ("_shuffle.SetIndex", "ascending"): "not settable through set_index",
    ("_shuffle.SetIndex", "append"): "KF02: `append` is dropped by two of three lowering paths anyway (recorded finding); the head / tail short-cut follows them",
}


@rule(
    "R01j",
    ["C01", "C02", "C11"],
    """A NODE IS ONLY REPLACED BY WHAT ALL ITS PARAMETERS ALLOW: a rule that answers `parent(self)` with an expression built on the
    INPUTS of self - self disappears from the plan (sort_values + head -> nsmallest, a reduction moved below a shuffle, a
    projection moved below astype) - must have looked at every result-affecting parameter of self, in the replacement or in the
    guards of that path (locals followed). A parameter it never reads (na_position, a custom sort function) is silently
    treated as its default.""",
)
def r01j(ctx):
    from sa.rules.r10 import KNOBS
    from sa.rules.r11 import _drops_self

    model = ctx.model
    n = 0
    for c, mem in own_methods(model, "_simplify_up"):
        fn = mem.node
        try:
            params = [p for p in model.parameters(c) if p not in KNOBS and p != "frame" and not p.startswith("_")]
        except AnalysisError:
            continue
        if not params:
            continue
        defs = flow.Defs(fn)
        for i, p in enumerate(flow.returns(fn)):
            v = p.stmt.value
            if v is None or (isinstance(v, ast.Constant) and v.value is None):
                continue
            if not _drops_self(v) or "type(self)" in ast.unparse(v):
                continue
            n += 1
            def via_defs(e, at, depth=0, seen=None):
                """parameters read by e, following the definitions of the locals it mentions (all that may reach)"""
                seen = seen if seen is not None else set()
                out = reads_of_self(model, c, e, depth=1)
                if depth < 4:
                    for nm in (x for x in ast.walk(e) if isinstance(x, ast.Name) and isinstance(x.ctx, ast.Load)):
                        for d in defs.reaching(nm.id, at):
                            if d.value is not None and id(d.value) not in seen:
                                seen.add(id(d.value))
                                out |= via_defs(d.value, d.stmt if isinstance(d.stmt, ast.stmt) else at, depth + 1, seen)
                return out

            reads = via_defs(v, p.stmt)
            for t, pol in flow.facts(p):
                reads |= via_defs(t, p.stmt)
            missing = [q for q in params if q not in reads]
            cid = f"{qual(c, fn)}#return{i}:replaced-node-parameters"
            open_ = [q for q in missing if (c.qual, q) not in R01J_EXCEPTIONS]
            for q in missing:
                if (c.qual, q) in R01J_EXCEPTIONS:
                    ctx.exempt(f"{cid}:{q}", c.module.loc(p.stmt), R01J_EXCEPTIONS[(c.qual, q)])
            if open_:
                ctx.bad(cid, c.module.loc(p.stmt), f"`return {unparse(v)[:80]}` removes this {c.name} node from the plan without ever reading its parameter(s) {open_}: whatever the user set there is ignored on this path")
            elif not missing:
                ctx.ok(cid, c.module.loc(p.stmt), "all result-affecting parameters consulted")
    ctx.floor("rules that replace their own node", n, 5)


# ---------------------------------------------------------------------------------------------
# R01k
# ---------------------------------------------------------------------------------------------


def _heirs_lacking(model, K, a):
    """subclasses of K that cannot answer `.a` / `.operand('a')`: the parameter is not theirs and the only provider is a property
    that reads self.operand('a') (or nothing at all)"""
    out = []
    for h in model.subclasses(K):
        try:
            ps = model.parameters(h)
        except Exception:  # noqa: BLE001
            continue
        pv = h.provider(a)
        if a not in ps and (pv is None or (pv.kind != "attr" and f"operand({a!r})" in ast.unparse(pv.node))):
            out.append(h.name)
    return out


@rule(
    "R01k",
    ["C01", "C13", "C11"],
    """A PARAMETER READ AFTER isinstance(x, K) EXISTS IN EVERY SUBCLASS OF K: subclasses re-declare `_parameters` (RepartitionFreq has
    [frame, freq], RepartitionDivisions [frame, new_divisions, force]). A rewrite rule that tests `isinstance(parent, Repartition)` and
    then reads `parent.new_partitions` / `parent.operand('new_partitions')` raises ValueError("'new_partitions' is not in list") when the
    parent is such a subclass - df.head(compute=False).repartition(freq='1D') failed in the optimizer. The read must be guarded by
    `'<p>' in x._parameters` (or by an isinstance test for a class all of whose subclasses have the parameter).""",
)
def r01k(ctx):
    model = ctx.model
    n = 0
    for c, mod, fn in _rewrite_functions(model):
        fq = qual(c, fn) if c is not None else f"{mod.name.split('.', 1)[-1]}.{fn.name}"
        for node in ast.walk(fn):
            subj = attr = None
            if isinstance(node, ast.Attribute) and isinstance(node.ctx, ast.Load) and dotted(node.value):
                subj, attr = dotted(node.value), node.attr
            elif isinstance(node, ast.Call) and isinstance(node.func, ast.Attribute) and node.func.attr == "operand" and dotted(node.func.value) and node.args and isinstance(node.args[0], ast.Constant):
                subj, attr = dotted(node.func.value), node.args[0].value
            if not subj or subj in ("self", "cls"):
                continue
            if isinstance(getattr(node, "_parent", None), ast.Attribute) and getattr(node, "_parent").attr == "operand":
                continue
            pt = flow.point_of(fn, node)
            if pt is None:
                continue
            facts = list(flow.facts(pt)) + list(flow.expr_facts(node, pt.stmt))
            guarded = any(pol and isinstance(t, ast.Compare) and isinstance(t.ops[0], ast.In) and isinstance(t.left, ast.Constant) and t.left.value == attr and ast.unparse(t.comparators[0]) == f"{subj}._parameters" for t, pol in facts)
            for t, pol in facts:
                if not (pol and isinstance(t, ast.Call) and isinstance(t.func, ast.Name) and t.func.id == "isinstance" and len(t.args) == 2 and ast.unparse(t.args[0]) == subj):
                    continue
                ks = t.args[1].elts if isinstance(t.args[1], ast.Tuple) else [t.args[1]]
                for kn in ks:
                    r = model.resolve_name(mod, ast.unparse(kn))
                    K = r[1] if r and r[0] == "class" else (model.find_cls(ast.unparse(kn)) or [None])[0]
                    if K is None or not model.is_expr(K):
                        continue
                    try:
                        Kp = model.parameters(K)
                    except Exception:  # noqa: BLE001
                        continue
                    if attr not in Kp:
                        continue
                    n += 1
                    lack = _heirs_lacking(model, K, attr)
                    cid = f"{fq}:reads:{subj}.{attr}:as:{K.name}"
                    if not lack or guarded:
                        ctx.ok(cid, mod.loc(node), "every subclass has the parameter" if not lack else f"guarded by '{attr}' in {subj}._parameters")
                    else:
                        ctx.bad(cid, mod.loc(node), f"`{unparse(node)}` is read after isinstance({subj}, {K.name}), but {lack} re-declare _parameters without `{attr}`: with such a {subj} the optimizer raises ValueError(\"'{attr}' is not in list\") on a query that computes fine un-optimized")
    ctx.floor("parameter reads under isinstance tests", n, 40)
    # (b) a guard `'<p>' in x._parameters` exists to protect a READ of x.<p>: if nothing under the guard reads the parameter, the test it
    # protected was removed and the guard now stands for it (a repartition "has the parameter new_partitions" is not "was asked for a
    # partition count": the parameter may hold None)
    g = 0
    for c, mod, fn in _rewrite_functions(model):
        fq = qual(c, fn) if c is not None else f"{mod.name.split('.', 1)[-1]}.{fn.name}"
        for cmp_ in (x for x in ast.walk(fn) if isinstance(x, ast.Compare) and len(x.ops) == 1 and isinstance(x.ops[0], ast.In) and isinstance(x.left, ast.Constant) and isinstance(x.left.value, str) and isinstance(x.comparators[0], ast.Attribute) and x.comparators[0].attr == "_parameters"):
            subj = dotted(cmp_.comparators[0].value)
            if not subj or subj == "self":
                continue
            pname = cmp_.left.value
            g += 1
            reads = [x for x in ast.walk(fn) if (isinstance(x, ast.Attribute) and x.attr == pname and dotted(x.value) == subj) or (isinstance(x, ast.Call) and isinstance(x.func, ast.Attribute) and x.func.attr == "operand" and dotted(x.func.value) == subj and x.args and isinstance(x.args[0], ast.Constant) and x.args[0].value == pname)]
            cid = f"{fq}:guard-without-read:{subj}.{pname}"
            if reads:
                ctx.ok(cid, mod.loc(cmp_), f"the guard protects a read of {subj}.{pname}")
            else:
                ctx.bad(cid, mod.loc(cmp_), f"`{unparse(cmp_)}` is tested but {subj}.{pname} is never read: the condition on the parameter's VALUE that the guard protected is gone, so the rule now fires for every {subj} whose class merely declares `{pname}` (e.g. a Repartition given divisions, whose new_partitions is None)")


# ---------------------------------------------------------------------------------------------
# R01l
# ---------------------------------------------------------------------------------------------


@rule(
    "R01l",
    ["C01", "C10"],
    """EVERY CONSTRUCTION BY CLASS NAME SUPPLIES THE PARAMETERS THAT HAVE NO DEFAULT: Expr.__new__ stores the operands it is given and
    fills the rest from `_defaults`; a parameter that is neither passed nor defaulted is simply missing, and the first `self.<p>` /
    `self.operand('<p>')` raises - at optimization time, on a query that pandas computes. Every `K(...)` in the package (no *args /
    **kwargs splat) is bound against K._parameters / K._defaults. ShuffleReduce._lower built SortValues without `options`:
    groupby(sort=True).agg({'x': 'median'}) raised KeyError('options').""",
)
def r01l(ctx):
    model = ctx.model
    n = 0
    for mod, cls, fn in model.all_functions():
        for call in (x for x in ast.walk(fn) if isinstance(x, ast.Call)):
            try:
                t = ctor_target(model, mod, cls, call)
            except Exception:  # noqa: BLE001
                t = None
            if t is None or t[1] != "name":
                continue
            K = t[0]
            try:
                params, dfl = model.parameters(K), model.defaults(K)
            except Exception:  # noqa: BLE001
                continue
            b = bind_call(model, K, call)
            if b.open_from is not None or b.open_kwargs is not None:
                continue
            n += 1
            missing = [p for p in params if p not in b.args and p not in dfl]
            if missing:
                fq = qual(cls, fn) if cls is not None else f"{mod.name.split('.', 1)[-1]}.{fn.name}"
                ctx.bad(f"{fq}->{K.name}:missing:{','.join(missing)}", mod.loc(call), f"`{unparse(call)[:90]}` builds {K.qual} without {missing}, which have no entry in {K.name}._defaults: the node is created, and the first read of the parameter raises (KeyError / IndexError) inside the optimizer or the graph construction")
    ctx.ok("constructions-by-name", "", f"{n} constructions bound against their class's _parameters / _defaults")
    ctx.floor("constructions by class name", n, 300)


# ---------------------------------------------------------------------------------------------
# R01m
# ---------------------------------------------------------------------------------------------


@rule(
    "R01m",
    ["C01", "C13", "C19"],
    """A PARENT IS DROPPED ONLY AFTER READING WHAT IT WAS ASKED TO DO: `return self` in a `_simplify_up` replaces parent(self) by self -
    the parent operation disappears from the plan. That is only sound when the guard has established, from the PARENT'S OWN PARAMETERS
    (`parent.<p>` / `parent.operand('<p>')` with p declared by the class named in the isinstance test), that the parent asks for nothing
    self does not already deliver. A derived quantity (`parent.npartitions == 1`) also holds for parents that were asked for something
    else (a repartition to given divisions or by frequency that happens to have one partition), needs the parent's divisions -
    i.e. an optimization inside the optimizer - to evaluate, and drops their effect.""",
)
def r01m(ctx):
    model = ctx.model
    n = 0
    for c, m in own_methods(model, "_simplify_up"):
        fn = m.node
        if len(fn.args.args) < 2:
            continue
        par = fn.args.args[1].arg
        for p in flow.returns(fn):
            v = p.stmt.value
            if not (isinstance(v, ast.Name) and v.id == "self"):
                continue
            n += 1
            cid = f"{qual(c, fn)}:drops-parent"
            facts = [(t, pol) for t, pol in flow.facts(p)]
            classes = []
            for t, pol in facts:
                if pol and isinstance(t, ast.Call) and dotted(t.func) == "isinstance" and len(t.args) == 2 and ast.unparse(t.args[0]) == par:
                    for kn in t.args[1].elts if isinstance(t.args[1], ast.Tuple) else [t.args[1]]:
                        r = model.resolve_name(c.module, ast.unparse(kn))
                        K = r[1] if r and r[0] == "class" else (model.find_cls(ast.unparse(kn)) or [None])[0]
                        if K is not None:
                            classes.append(K)
            if not classes:
                ctx.bad(cid, c.module.loc(p.stmt), f"`return self` drops the parent without an isinstance test that says what kind of operation is dropped")
                continue
            params = set()
            for K in classes:
                for h in model.subclasses(K):
                    try:
                        params |= set(model.parameters(h)[1:])
                    except Exception:  # noqa: BLE001
                        pass
            read = set()
            for t, pol in facts:
                if not pol:
                    continue
                for x in ast.walk(t):
                    if isinstance(x, ast.Attribute) and ast.unparse(x.value) == par and isinstance(x.ctx, ast.Load) and not (isinstance(getattr(x, "_parent", None), ast.Call) and x.attr == "operand") and x.attr != "_parameters":
                        read.add(x.attr)
                    if isinstance(x, ast.Call) and isinstance(x.func, ast.Attribute) and x.func.attr == "operand" and ast.unparse(x.func.value) == par and x.args and isinstance(x.args[0], ast.Constant):
                        read.add(x.args[0].value)
            derived = sorted(read - params)
            if read & params and not derived:
                ctx.ok(cid, c.module.loc(p.stmt), f"the parent is dropped after reading its parameter(s) {sorted(read & params)}")
            else:
                ctx.bad(cid, c.module.loc(p.stmt), f"`return self` drops the parent {[K.name for K in classes]} on the strength of {derived or 'no parent attribute at all'}, which is not one of its declared parameters {sorted(params)[:6]}...: a parent that was asked for something else (divisions, a frequency, a partition size) and merely happens to satisfy the test loses its effect, and evaluating a derived attribute of the parent runs the optimizer from inside a rewrite rule")
    ctx.floor("rules that drop their parent", n, 1)
