"""Cross-cutting structural rules: class taxonomy, reduction stage triples, selection order, absorbing rewrites."""
from __future__ import annotations

import ast
import json
import os

from sa import flow
from sa.model import AnalysisError, dotted, unparse
from sa.rules import rule
from sa.rules.util import REWRITE_METHODS, closure_text, is_self_attr, iter_body_nodes, own_methods, qual

_REF = json.load(open(os.path.join(os.path.dirname(os.path.dirname(__file__)), "data", "classes_ref.json")))


@rule(
    "R20a",
    ["C01", "C11", "C14", "C06", "C04", "C10", "C02"],
    """CLASS TAXONOMY: which optimizer rewrites apply to an operator is decided by its base classes - Elemwise (Head / Tail /
    Lengths are pushed below it, filters may pass), Blockwise (partition selections are pushed below it, it is fused),
    PartitionsFiltered - and by inherited flags. A class of the reference tree that was NOT in one of these families
    and now is (e.g. its base changed from Blockwise to Elemwise) acquires rewrites that were never confirmed for it:
    reported. Leaving a family only loses optimizations and is not reported; new classes are listed as unclassified.""",
)
def r20a(ctx):
    model = ctx.model
    ref_all = set(_REF["expr_classes"])
    fams = {
        "elemwise": (model.cls("Elemwise"), "Head/Tail/Lengths push-down and length short-cuts treat it as one output row per input row"),
        "blockwise": (model.cls("Blockwise"), "partition selections are pushed below it and it is fused with its neighbours"),
        "partitions_filtered": (model.cls("PartitionsFiltered"), "partition selections are absorbed into its _partitions operand"),
    }
    n = 0
    for fam, (base, why) in fams.items():
        ref = set(_REF[fam])
        now = {c.qual: c for c in model.subclasses(base)}
        n += len(now)
        for q, c in sorted(now.items()):
            cid = f"{q}:family:{fam}"
            if q in ref:
                ctx.ok(cid, c.loc)
            elif q not in ref_all:
                ctx.unclassified(cid, c.loc, f"class not in the reference tree; it is {fam}")
            else:
                ctx.bad(cid, c.loc, f"{q} was not {fam} on the reference tree and now is (bases: {[ast.unparse(b) for b in c.node.bases]}): {why} - none of which was confirmed for this operator")
    # classes across which no parent was ever rewritten (no _simplify_up rule): one that starts to rewrite its parents
    # (an override removed, a `return` replaced by a call of the inherited rule) acquires projection / filter /
    # selection push-downs that were never confirmed for it
    from sa.families import inert_simplify_up

    ref_inert = set(_REF.get("inert_simplify_up", []))
    now_inert = inert_simplify_up(model)
    ni = 0
    for q in sorted(ref_inert):
        c = next((k for k in model.expr_classes() if k.qual == q), None)
        if c is None:
            continue
        ni += 1
        cid = f"{q}:family:inert_simplify_up"
        if q in now_inert:
            ctx.ok(cid, c.loc)
        else:
            mem = c.provider("_simplify_up")
            ctx.bad(cid, mem.cls.module.loc(mem.node) if mem is not None else c.loc, f"{q} did not rewrite its parents on the reference tree (no _simplify_up rule, or one that only returns None) and now resolves _simplify_up to {mem.cls.qual if mem else '?'}._simplify_up, which does: projections / filters / selections are now pushed across an operator for which that was never confirmed")
    ctx.floor("classes without a parent-rewriting rule", ni, 45)
    # reductions that are never planned as a tree (should_shuffle is the constant True)
    from sa.families import always_shuffle

    ref_as = set(_REF.get("always_shuffle", []))
    now_as = always_shuffle(model)
    for q in sorted(ref_as):
        c = next((k for k in model.expr_classes() if k.qual == q), None)
        if c is None:
            continue
        cid = f"{q}:family:always_shuffle"
        if q in now_as:
            ctx.ok(cid, c.loc)
        else:
            mem = c.provider("should_shuffle")
            ctx.bad(cid, mem.cls.module.loc(mem.node) if mem is not None else c.loc, f"{q} always collected whole groups through a shuffle on the reference tree; its should_shuffle is no longer the constant True, so it can be planned as a tree reduction whose combine stage aggregates partial groups (a median of medians)")
    ctx.floor("always-shuffle reductions", len(ref_as), 1)
    ctx.floor("family memberships", n, 250)


@rule(
    "R20b",
    ["C02", "C10", "C11"],
    """REDUCTION STAGE TRIPLES: a tree reduction runs chunk -> combine* -> aggregate; the combine stage only exists when there are
    more partitions than split_every. A reduction class that overrides reduction_chunk and reduction_aggregate but
    INHERITS a reduction_combine written for its parent's functions (a non-None combine defined in an ancestor other
    than the generic base) gets an intermediate stage that does something else than its first and last stage.""",
)
def r20b(ctx):
    model = ctx.model
    base = model.cls("Reduction", "_reductions")
    n = 0
    for c in model.subclasses(base, strict=True):
        own_chunk = "reduction_chunk" in c.members
        own_agg = "reduction_aggregate" in c.members
        comb = c.provider("reduction_combine")
        if comb is None:
            continue
        n += 1
        cid = f"{c.qual}:reduction-triple"
        comb_is_none = comb.kind == "attr" and isinstance(comb.node, ast.Constant) and comb.node.value is None
        if comb.cls is c or comb_is_none or comb.cls is base:
            ctx.ok(cid, c.loc)
        elif own_chunk and own_agg:
            ctx.bad(cid, c.loc, f"{c.qual} overrides reduction_chunk and reduction_aggregate but inherits reduction_combine = {ast.unparse(comb.node)[:60]} from {comb.cls.qual}: with more partitions than split_every the intermediate stage applies the parent's operation, so the result depends on the tree depth")
        else:
            ctx.ok(cid, c.loc, f"combine inherited together with chunk/aggregate from {comb.cls.qual}")
    ctx.floor("reduction classes", n, 40)


@rule(
    "R20c",
    ["C11", "C18"],
    """SELECTION ORDER IS PRESERVED: a partition selection may be reordered or repeat partitions (partitions[[3, 1]]); the
    selected-partition list (`_partitions`) may therefore not be passed through sorted() or list(set()) on its way into
    buckets, keys or divisions.""",
)
def r20c(ctx):
    model = ctx.model
    n = 0
    for mod, cls, fn in model.all_functions():
        defs = None
        for call in (x for x in iter_body_nodes(fn) if isinstance(x, ast.Call)):
            d = dotted(call.func)
            if d not in ("sorted", "set", "frozenset") or not call.args:
                continue
            if defs is None:
                defs = flow.Defs(fn)
            arg = defs.expand(call.args[0], at=call)
            import re

            if not re.search(r"(?<![A-Za-z0-9_])_partitions\b", ast.unparse(arg)):
                continue
            n += 1
            fq = qual(cls, fn) if cls is not None else f"{mod.name.split('.', 1)[-1]}.{fn.name}"
            cid = f"{fq}:{d}(_partitions)"
            par = getattr(call, "_parent", None)
            membership_only = d != "sorted" and not (isinstance(par, ast.Call) and dotted(par.func) in ("list", "tuple", "sorted"))
            if membership_only:
                ctx.ok(cid, mod.loc(call), "used as a membership set only")
            else:
                ctx.bad(cid, mod.loc(call), f"`{ast.unparse(call)[:80]}` reorders / de-duplicates the selected partitions: partitions[[3, 1]] or a repeated selection then comes back in another order than requested")
    # this rule's expected count of violations is zero and sites are rare: anchor on the structures that consume _partitions
    fio = model.cls("FusedIO")
    fb = model.method(fio, "_fusion_buckets", own=True).node
    good = "._partitions" in ast.unparse(fb) and "sorted(" not in ast.unparse(fb)
    (ctx.ok if good else ctx.bad)("io.io.FusedIO._fusion_buckets:order", fio.module.loc(fb), "buckets follow the requested order of the source's _partitions" if good else "FusedIO buckets are no longer built from the source's _partitions in the requested order")


@rule(
    "R20d",
    ["C03", "C18", "C01"],
    """ABSORBING REWRITES KEEP WHAT WAS ALREADY ABSORBED: when a rule replaces an operand of an expression through
    substitute_parameters({p: v}) with a non-constant v, then v - or a guard on that path - must read the operand's
    current value (self.p / self.operand(p) / the target's p): filters pushed into a reader are combined with the
    filters it already carries, pruned columns are a subset of the current columns, composed partition selections go
    through the current _partitions.""",
)
def r20d(ctx):
    model = ctx.model
    n = 0
    for mname in REWRITE_METHODS:
        for c, m in own_methods(model, mname):
            fn = m.node
            defs = flow.Defs(fn)
            for call in (x for x in iter_body_nodes(fn) if isinstance(x, ast.Call)):
                if not (isinstance(call.func, ast.Attribute) and call.func.attr == "substitute_parameters" and call.args):
                    continue
                target = ast.unparse(call.func.value)
                arg = call.args[0]
                if isinstance(arg, ast.Name):
                    arg = defs.single_value(arg.id, call) or arg
                if not isinstance(arg, ast.Dict):
                    continue
                p = flow.point_of(fn, call)
                guard_txt = " ".join(ast.unparse(t) for t, pol in flow.facts(p)) if p else ""
                for k, v in zip(arg.keys, arg.values):
                    if not (isinstance(k, ast.Constant) and isinstance(k.value, str)):
                        continue
                    key = k.value
                    n += 1
                    cid = f"{qual(c, fn)}:substitute:{key}"
                    if isinstance(v, ast.Constant):
                        ctx.ok(cid, c.module.loc(call), "constant")
                        continue
                    vx = defs.expand(v, at=call)
                    txt = ast.unparse(vx) + " " + closure_text(model, c.module, c, vx, depth=0)
                    # follow multi-definition locals one level
                    for nm in [x.id for x in ast.walk(v) if isinstance(x, ast.Name)]:
                        for d in defs.reaching(nm, call):
                            if d.value is not None:
                                txt += " " + ast.unparse(defs.expand(d.value, at=d.stmt))
                    reads_current = any(
                        pat in txt or pat in guard_txt
                        for pat in (f"{target}.operand('{key}')", f"{target}.{key}", f"self.operand('{key}')", f"self.{key}", f"self.frame.{key}")
                    )
                    if reads_current:
                        ctx.ok(cid, c.module.loc(call), "new value derives from / is guarded by the current one")
                    else:
                        ctx.bad(cid, c.module.loc(call), f"operand `{key}` of {target} is replaced by `{ast.unparse(v)[:80]}` without looking at its current value: what an earlier rewrite (or the user) had already put there - e.g. filters already pushed into the reader - is silently dropped")
    ctx.floor("substitute_parameters sites", n, 6)
