"""C03: a filter keeps exactly the rows satisfying the user's predicate (structural clauses)."""
from __future__ import annotations

import ast

from sa import flow
from sa.model import AnalysisError, dotted, names_in, unparse
from sa.rules import LEVEL_TEXT, rule
from sa.rules.util import callee, closure_functions, is_self_attr, iter_body_nodes, locals_defined_by, one_local, own_methods, pfind, pmatch, qual

LEVEL_TEXT["C03"] = (
    "Decides structural necessary conditions of C03: which comparison operators may be handed to the file reader "
    "(null semantics table), the join kinds under which a filter may move to one join input, the suffix-rename guard, "
    "that every relocation of a Filter below an operator is dominated by the pushdown legality test, the internal "
    "guards of that test, and the allow-list of operators declaring _filter_passthrough. Undecided: truth preservation "
    "of OR-factoring / DNF normalisation over all valuations, null handling inside pandas."
)

# pandas: a comparison with a missing value is False (row dropped) - same as arrow dataset filters (null => dropped).
NULL_SAFE_LEAVES = {"LE", "GE", "LT", "GT", "EQ"}
# pandas `!=` with a missing value is True (row kept); arrow drops it.  ~x, isin, xor have the same problem.
COMBINERS = {"And", "Or"}


def _isinstance_tuples(fn, subject_pred):
    out = []
    for n in ast.walk(fn):
        if isinstance(n, ast.Call) and isinstance(n.func, ast.Name) and n.func.id == "isinstance" and len(n.args) == 2:
            if subject_pred(n.args[0]):
                t = n.args[1]
                elts = t.elts if isinstance(t, ast.Tuple) else [t]
                out.append((n, [dotted(e) or unparse(e) for e in elts]))
    return out


@rule(
    "R03a",
    ["C03", "C18", "C01"],
    """READER NULL-SEMANTICS: the operator classes that ReadParquet._filter_passthrough_available and
    _DNF.extract_pq_filters accept for translation into reader filters must be null-safe comparison leaves
    {LE,GE,LT,GT,EQ} or the combiners {And,Or}: pandas keeps a row for `x != v` when x is missing, the arrow reader
    drops it. A leaf is translated only when its value side is a literal and its column side is a projection of this
    very reader; an And/Or only when both sides were translated.""",
)
def r03a(ctx):
    model = ctx.model
    rp = model.cls("ReadParquet")
    fpa = model.method(rp, "_filter_passthrough_available", own=True).node
    tuples = _isinstance_tuples(fpa, lambda s: unparse(s) == "parent.predicate")
    dnf = model.cls("_DNF")
    ex = model.method(dnf, "extract_pq_filters", own=True).node
    pred_param = ex.args.args[2].arg if len(ex.args.args) >= 3 else None
    if pred_param is None:
        raise AnalysisError("anchor changed: _DNF.extract_pq_filters(cls, pq_expr, predicate_expr)")
    tuples2 = _isinstance_tuples(ex, lambda s: isinstance(s, ast.Name) and s.id == pred_param)
    if not tuples or len(tuples2) < 2:
        raise AnalysisError("anchor vanished: operator isinstance tuples of the parquet filter push-down")
    seen_leaf, seen_comb = set(), set()
    for where, fn, tl in (("io.parquet.ReadParquet._filter_passthrough_available", fpa, tuples), ("io.parquet._DNF.extract_pq_filters", ex, tuples2)):
        for call, names in tl:
            for nm in names:
                cid = f"{where}:operator:{nm}"
                loc = rp.module.loc(call)
                if nm in NULL_SAFE_LEAVES:
                    seen_leaf.add(nm)
                    ctx.ok(cid, loc, "null-safe comparison leaf")
                elif nm in COMBINERS:
                    seen_comb.add(nm)
                    ctx.ok(cid, loc, "combiner (Kleene and/or agree with dropping null leaves)")
                else:
                    ctx.bad(
                        cid,
                        loc,
                        f"operator class {nm} is accepted for reader push-down but is not null-safe: pandas and the arrow reader disagree on rows "
                        "where the column is missing (e.g. `x != v` keeps a missing x in pandas, the reader drops it)",
                    )
    # agreement between the two sites: everything the gate lets through must be handled by the extractor
    gate = {n for _, names in tuples for n in names}
    handled = {n for _, names in tuples2 for n in names}
    for nm in sorted(gate - handled):
        ctx.bad(f"io.parquet.ReadParquet._filter_passthrough_available:unhandled:{nm}", rp.module.loc(fpa), f"{nm} passes the gate but extract_pq_filters has no translation for it")
    # gate must also require a successful extraction and the generic legality test
    rets = flow.returns(fpa)
    for i, p in enumerate(rets):
        v = p.stmt.value
        terms = [t for t, pol in flow.conj_terms(v, True)] if v is not None else []
        txt = [unparse(t) for t in terms]
        has_super = any("super()._filter_passthrough_available(" in t or "is_filter_pushdown_available(" in t for t in txt)
        has_extract = any("extract_pq_filters(" in t and "is not None" in t for t in txt)
        cid = f"io.parquet.ReadParquet._filter_passthrough_available#return{i}"
        if has_super and has_extract:
            ctx.ok(cid, rp.module.loc(p.stmt), "legality test and successful extraction are conjuncts")
        else:
            ctx.bad(cid, rp.module.loc(p.stmt), f"gate `{unparse(v)}` lacks " + ("the generic pushdown legality test" if not has_super else "the `extract_pq_filters(...)._filters is not None` conjunct"))

    # leaf guards inside extract_pq_filters
    # the result variable: the local handed to the returned wrapper (`return _DNF(<local>)`)
    res_names = {r.value.args[0].id for r in ast.walk(ex) if isinstance(r, ast.Return) and isinstance(r.value, ast.Call) and len(r.value.args) == 1 and isinstance(r.value.args[0], ast.Name)}
    if len(res_names) != 1:
        raise AnalysisError("anchor changed: _DNF.extract_pq_filters returns _DNF(<one local>)")
    res_name = next(iter(res_names))
    pts = [p for p in flow.walk(ex) if isinstance(p.stmt, ast.Assign) and any(isinstance(t, ast.Name) and t.id == res_name for t in p.stmt.targets)]
    leaf_sites = [p for p in pts if isinstance(p.stmt.value, ast.Tuple) and len(p.stmt.value.elts) == 3]
    comb_sites = [p for p in pts if p not in leaf_sites and not (isinstance(p.stmt.value, ast.Constant) and p.stmt.value.value is None)]
    ctx.floor("leaf translation sites", len(leaf_sites), 1)
    ctx.floor("combiner translation sites", len(comb_sites), 2)
    lr = []  # names holding the translated sides
    for d in flow.Defs(ex).all:
        if d.value is not None and "extract_pq_filters(" in ast.unparse(d.value) and d.kind == "assign":
            lr.append(d.name)
    if len(set(lr)) < 2:
        raise AnalysisError("anchor changed: translated left/right sides in _DNF.extract_pq_filters")
    defs = flow.Defs(ex)
    for i, p in enumerate(leaf_sites):
        facts = [(unparse(t), pol) for t, pol in flow.facts(p)]
        cid = f"io.parquet._DNF.extract_pq_filters:leaf{i}"
        dead = _unsatisfiable(model, dnf.module, list(flow.facts(p)))
        if dead:
            ctx.exempt(cid, dnf.module.loc(p.stmt), f"dead branch: its guard requires {dead}, which no object satisfies; nothing is translated here")
            continue
        tup = defs.expand(p.stmt.value, at=p.stmt)
        value_side = unparse(tup.elts[2])  # predicate_expr.right / .left
        side = value_side.rsplit(".", 1)[-1]
        if side not in ("left", "right"):
            ctx.unclassified(cid, dnf.module.loc(p.stmt), f"value side `{value_side}` not recognised")
            continue
        other = "left" if side == "right" else "right"
        need = {
            "value is a literal": any(t == f"isinstance({pred_param}.{side}, Expr)" and not pol for t, pol in facts),
            "column side is a Projection": any(t == f"isinstance({pred_param}.{other}, Projection)" and pol for t, pol in facts),
            "projection of this reader": any(f"{pred_param}.{other}.frame._name" in t and "==" in t and "_name" in t.split("==")[-1] and pol for t, pol in facts),
            "column read from the column side": f"{pred_param}.{other}." in ast.unparse(tup.elts[0]),
        }
        missing = [k for k, v in need.items() if not v]
        if missing:
            ctx.bad(cid, dnf.module.loc(p.stmt), "leaf translated to a reader filter without guard(s): " + ", ".join(missing))
        else:
            ctx.ok(cid, dnf.module.loc(p.stmt), "guards: " + ", ".join(need))
    for i, p in enumerate(comb_sites):
        facts = [(unparse(t), pol) for t, pol in flow.facts(p)]
        both = all(any(t == nm and pol for t, pol in facts) for nm in set(lr))
        cid = f"io.parquet._DNF.extract_pq_filters:combine{i}"
        if both:
            ctx.ok(cid, dnf.module.loc(p.stmt), "both sides translated")
        else:
            ctx.bad(cid, dnf.module.loc(p.stmt), "And/Or translated although one side may be untranslatable: the in-memory filter is dropped, so rows failing the untranslated side survive")


def _unsatisfiable(model, mod, facts):
    """'not isinstance(X, A)' together with 'isinstance(X, B)' where B is a subclass of A."""
    neg, pos = [], []
    for t, pol in facts:
        if isinstance(t, ast.Call) and isinstance(t.func, ast.Name) and t.func.id == "isinstance" and len(t.args) == 2:
            subj = unparse(t.args[0])
            elts = t.args[1].elts if isinstance(t.args[1], ast.Tuple) else [t.args[1]]
            (pos if pol else neg).append((subj, elts))
    for subj, elts in pos:
        for nsubj, nelts in neg:
            if subj != nsubj:
                continue
            subs = [model.resolve_expr(mod, e) for e in elts]
            sups = [model.resolve_expr(mod, e) for e in nelts]
            if subs and all(r is not None and r[0] == "class" for r in subs) and all(
                any(q is not None and q[0] == "class" and q[1] in r[1].mro for q in sups) for r in subs
            ):
                return f"isinstance({subj}, {'/'.join(unparse(e) for e in elts)}) and not isinstance({subj}, {'/'.join(unparse(e) for e in nelts)})"
    return None


LEFT_OK = {"left", "inner", "leftsemi"}
RIGHT_OK = {"right", "inner"}


def _side_helper_info(model, merge, call):
    """`self.<helper>(cols)` whose body appends the literals 'left' / 'right' to its result: for each literal, is the append
    under `cols.issubset(self.<side>.columns)` and under the NEGATED suffix-rename test that mentions the other side's columns"""
    t = callee(model, merge.module, merge, call)
    if t is None:
        return {}
    hfn = t[2]
    info = {}
    for n in ast.walk(hfn):
        if isinstance(n, ast.Call) and isinstance(n.func, ast.Attribute) and n.func.attr in ("append", "add") and n.args and isinstance(n.args[0], ast.Constant) and n.args[0].value in ("left", "right"):
            side = n.args[0].value
            other = "right" if side == "left" else "left"
            p = flow.point_of(hfn, n)
            facts = list(flow.facts(p))
            sub = any(pol and f".issubset(self.{side}.columns)" in unparse(t_) for t_, pol in facts)
            guard = False
            for g, pol in p.guards:
                txt = ast.unparse(g)
                neg = (not pol) or (pol and isinstance(g, ast.UnaryOp) and isinstance(g.op, ast.Not))
                if neg and (f"{side}_suffix" in txt or "suffixes" in txt) and f"self.{other}.columns" in txt:
                    guard = True
            info[side] = {"subset": sub, "suffix_guard": guard, "fn": hfn.name}
    return info


def _side_of_fact(model, merge, fn, defs, t, at):
    """('left'|'right', info) if the positive fact ``t`` says 'the predicate goes to that input'"""
    s = unparse(t)
    for side in ("left", "right"):
        if f".issubset(self.{side}.columns)" in s:
            return side, None
    if isinstance(t, ast.Compare) and len(t.ops) == 1 and isinstance(t.ops[0], ast.In) and isinstance(t.left, ast.Constant) and t.left.value in ("left", "right"):
        src = defs.expand(t.comparators[0], at=at)
        for c in ast.walk(src):
            if isinstance(c, ast.Call):
                info = _side_helper_info(model, merge, c)
                if t.left.value in info:
                    return t.left.value, info[t.left.value]
    return None, None


@rule(
    "R03b",
    ["C03", "C01"],
    """JOIN-SIDE TABLE: in Merge._filter_passthrough_available the join kinds returned under 'predicate columns are a
    subset of the left input' must be within {left, inner, leftsemi} and under '... of the right input' within
    {right, inner}: any other kind can re-introduce (null-extended) rows of that side after the filter moved below
    the join. A predicate touching neither/both sides' columns must not be moved.""",
)
def r03b(ctx):
    model = ctx.model
    merge = model.cls("Merge", "_merge")
    fn = model.method(merge, "_filter_passthrough_available", own=True).node
    found = 0
    for p in flow.returns(fn):
        v = p.stmt.value
        if not (isinstance(v, ast.Compare) and len(v.ops) == 1 and isinstance(v.ops[0], ast.In) and is_self_attr(v.left, "how")):
            continue
        kinds = v.comparators[0]
        if not isinstance(kinds, (ast.Tuple, ast.List, ast.Set)) or not all(isinstance(e, ast.Constant) for e in kinds.elts):
            ctx.unclassified("_merge.Merge._filter_passthrough_available:how", merge.module.loc(p.stmt), "join kinds not literal")
            continue
        kinds = {e.value for e in kinds.elts}
        side = None
        bdefs = flow.Defs(fn)
        for t, pol in flow.facts(p):
            if not pol:
                continue
            sd, info = _side_of_fact(model, merge, fn, bdefs, t, p.stmt)
            if sd is not None and (info is None or info["subset"]):
                side = sd
        if side is None:
            ctx.bad("_merge.Merge._filter_passthrough_available:how:unguarded", merge.module.loc(p.stmt), f"`{unparse(v)}` is not under a 'predicate columns subset of one input' test")
            continue
        found += 1
        allowed = LEFT_OK if side == "left" else RIGHT_OK
        cid = f"_merge.Merge._filter_passthrough_available:how:{side}"
        extra = kinds - allowed
        if extra:
            ctx.bad(cid, merge.module.loc(p.stmt), f"filter on {side}-input columns is moved below a {sorted(extra)} join: that join kind re-introduces {side}-side rows (null-extended) that the filter had removed")
        else:
            ctx.ok(cid, merge.module.loc(p.stmt), f"{sorted(kinds)} within {sorted(allowed)}")
    ctx.floor("join-side how tables", found, 2)
    # predicate with columns from both / no side: must return False when columns non-empty and on neither side
    rets = flow.returns(fn)
    pc = one_local(fn, "self._predicate_columns(V__)", "predicate columns of Merge._filter_passthrough_available")
    ok_mixed = any(
        isinstance(p.stmt.value, ast.Constant) and p.stmt.value.value is False and any(f"len({pc}) > 0" in unparse(t) and pol for t, pol in flow.facts(p))
        for p in rets
    ) or any(
        isinstance(p.stmt.value, ast.Constant)
        and p.stmt.value.value is False
        and {"left", "right"} <= {_side_of_fact(model, merge, fn, flow.Defs(fn), t, p.stmt)[0] for t, pol in flow.facts(p) if not pol and isinstance(t, ast.Compare)}
        for p in rets
    )
    (ctx.ok if ok_mixed else ctx.unclassified)("_merge.Merge._filter_passthrough_available:mixed-sides", merge.module.loc(fn), "predicate spanning both inputs is refused" if ok_mixed else "refusal of mixed-side predicates not recognised")
    # predicate_columns None => refuse
    ok_none = any(
        isinstance(p.stmt.value, ast.Constant) and p.stmt.value.value is False and any(unparse(t) == f"{pc} is None" and pol for t, pol in flow.facts(p))
        for p in rets
    )
    (ctx.ok if ok_none else ctx.bad)("_merge.Merge._filter_passthrough_available:unsupported-predicate", merge.module.loc(fn), "unsupported predicate shapes are refused" if ok_none else "a predicate whose columns cannot be determined (None) is no longer refused")


@rule(
    "R03c",
    ["C03", "C01"],
    """SUFFIX GUARD: in Merge._simplify_up (Filter branch) each predicate.substitute(self, self.<side>) must sit
    (a) under 'predicate columns subset of that side' and (b) in the else-branch of a test that mentions the side's
    suffix and the other side's columns - a column renamed by suffixing must not be filtered on the wrong input.""",
)
def r03c(ctx):
    model = ctx.model
    merge = model.cls("Merge", "_merge")
    fn = model.method(merge, "_simplify_up", own=True).node
    n = 0
    for call in (c for c in iter_body_nodes(fn) if isinstance(c, ast.Call)):
        if not (isinstance(call.func, ast.Attribute) and call.func.attr == "substitute" and len(call.args) == 2):
            continue
        tgt = call.args[1]
        if not (is_self_attr(tgt, "left") or is_self_attr(tgt, "right")) or not (isinstance(call.args[0], ast.Name) and call.args[0].id == "self"):
            continue
        side = tgt.attr
        other = "right" if side == "left" else "left"
        p = flow.point_of(fn, call)
        facts = list(flow.facts(p))
        cdefs = flow.Defs(fn)
        via = [_side_of_fact(model, merge, fn, cdefs, t, p.stmt) for t, pol in facts if pol and isinstance(t, ast.Compare)]
        via = [(sd, info) for sd, info in via if sd == side and info is not None]
        if via:
            n += 1
            cid = f"_merge.Merge._simplify_up:filter-to-{side}"
            info = via[0][1]
            if info["subset"] and info["suffix_guard"]:
                ctx.ok(cid, merge.module.loc(call), f"under the side decision of {info['fn']} (subset test and suffix-rename guard)")
            else:
                ctx.bad(cid, merge.module.loc(call), f"predicate moved to the {side} input on the word of {info['fn']}, which appends '{side}' without " + ("the subset-of-side test" if not info["subset"] else f"the suffix guard (a {side} column renamed by suffixing collides with a {other} column of the predicate's name)"))
            continue
        sub = any(pol and f".issubset(self.{side}.columns)" in unparse(t) for t, pol in facts)
        suffix_names = {f"{side}_suffix", "suffixes"}
        guard = any(
            (not pol) and (names_in(t) & suffix_names or "self.suffixes" in unparse(t)) and f"self.{other}.columns" in unparse(t)
            for t, pol in facts
        )
        # guards may be spelled `if A and any(...)`: negative polarity of the whole BoolOp is one fact
        if not guard:
            for g, pol in p.guards:
                s = unparse(g)
                if not pol and (f"{side}_suffix" in s or "suffixes" in s) and f"self.{other}.columns" in s:
                    guard = True
        n += 1
        cid = f"_merge.Merge._simplify_up:filter-to-{side}"
        if sub and guard:
            ctx.ok(cid, merge.module.loc(call), "under subset test and suffix-rename guard")
        else:
            ctx.bad(cid, merge.module.loc(call), f"predicate moved to the {side} input without " + ("the subset-of-side test" if not sub else f"the suffix guard (a {side} column renamed by suffixing collides with a {other} column of the predicate's name)"))
    ctx.floor("side pushes", n, 2)


def _mentions_pushdown_test(term):
    s = unparse(term)
    return "_filter_passthrough_available(" in s or "is_filter_pushdown_available(" in s


@rule(
    "R03d",
    ["C03", "C01", "C19"],
    """PUSHDOWN MUST-CHECK: in every _simplify_up, a non-None return reached under isinstance(parent, Filter) must be
    dominated by a true _filter_passthrough_available(...) / is_filter_pushdown_available(...) test; every override
    of _filter_passthrough_available must reach is_filter_pushdown_available on every path that can return True;
    inside is_filter_pushdown_available the 'exactly one Filter dependent' refusal dominates every other return and
    the shared-dependents walk keeps both subset tests.""",
)
def r03d(ctx):
    model = ctx.model
    n_branch = 0
    for c, m in own_methods(model, "_simplify_up"):
        fn = m.node
        for i, p in enumerate(flow.returns(fn)):
            v = p.stmt.value
            if v is None or (isinstance(v, ast.Constant) and v.value is None):
                continue
            facts = list(flow.facts(p))
            under_filter = False
            for t, pol in facts:
                if pol and isinstance(t, ast.Call) and isinstance(t.func, ast.Name) and t.func.id == "isinstance" and len(t.args) == 2:
                    if isinstance(t.args[0], ast.Name) and t.args[0].id == "parent":
                        cls_names = [dotted(e) for e in (t.args[1].elts if isinstance(t.args[1], ast.Tuple) else [t.args[1]])]
                        if "Filter" in cls_names:
                            under_filter = True
            if not under_filter:
                continue
            n_branch += 1
            cid = f"{qual(c, fn)}:Filter-branch#return{i}"
            if any(pol and _mentions_pushdown_test(t) for t, pol in facts):
                ctx.ok(cid, c.module.loc(p.stmt), "dominated by the legality test")
            else:
                ctx.bad(cid, c.module.loc(p.stmt), f"`return {unparse(v)}` relocates/rewrites a Filter parent without a dominating _filter_passthrough_available / is_filter_pushdown_available test: other consumers of this node would see filtered rows, or rows are filtered on stale data")
    ctx.floor("Filter-parent return paths", n_branch, 10)

    # overrides of _filter_passthrough_available
    ov = own_methods(model, "_filter_passthrough_available")
    ctx.floor("_filter_passthrough_available definitions", len(ov), 4)
    for c, m in ov:
        fn = m.node
        for i, p in enumerate(flow.returns(fn)):
            v = p.stmt.value
            cid = f"{qual(c, fn)}#return{i}"
            if isinstance(v, ast.Constant) and v.value is False:
                ctx.ok(cid, c.module.loc(p.stmt), "refuses")
                continue
            in_guard = any(pol and _mentions_pushdown_test(t) for t, pol in flow.facts(p))
            conj = v is not None and any(_mentions_pushdown_test(t) for t, pol in flow.conj_terms(v, True) if pol)
            if in_guard or conj:
                ctx.ok(cid, c.module.loc(p.stmt), "reaches the generic legality test")
            elif c.name == "Merge" and any(pol and unparse(t) == "isinstance(parent.predicate, And)" for t, pol in flow.facts(p)):
                ctx.exempt(cid, c.module.loc(p.stmt), "And-splitting: Filter(Filter(self, left), right) only re-nests the filter above the join, nothing moves below it")
            else:
                ctx.bad(cid, c.module.loc(p.stmt), f"`return {unparse(v)}` can allow a filter to pass without the 'exactly one filter consumer' legality test")

    # internals of the legality test
    mod, fn = model.func("_expr", "is_filter_pushdown_available")
    rets = flow.returns(fn)
    a0 = fn.args.args[0].arg  # the expression whose dependents are inspected
    dep_param = fn.args.args[2].arg
    # locals are identified by what they hold: the live dependents of expr, and the Filter dependents among them
    parents = None
    for n in ast.walk(fn):
        if isinstance(n, ast.Assign) and len(n.targets) == 1 and isinstance(n.targets[0], ast.Name) and isinstance(n.value, (ast.ListComp, ast.SetComp)):
            g = n.value.generators[0]
            if unparse(g.iter) == f"{dep_param}[{a0}._name]" and pmatch("V_x()", n.value.elt) is not None:
                parents = n.targets[0].id
    if parents is None:
        raise AnalysisError("anchor vanished: is_filter_pushdown_available collects the live dependents of expr")
    filters = None
    for n in ast.walk(fn):
        if isinstance(n, ast.Assign) and len(n.targets) == 1 and isinstance(n.targets[0], ast.Name) and isinstance(n.value, (ast.ListComp, ast.SetComp)):
            g = n.value.generators[0]
            if unparse(g.iter) == parents and len(g.ifs) == 1 and pmatch("isinstance(V_e, Filter)", g.ifs[0]) is not None:
                filters = n.targets[0].id
    if filters is None:
        ctx.bad("_expr.is_filter_pushdown_available:filters", mod.loc(fn), "the Filter dependents of the expression are no longer collected (a comprehension over the live dependents with `isinstance(e, Filter)`)")
    else:
        ctx.ok("_expr.is_filter_pushdown_available:filters", mod.loc(fn), f"`{filters}` = Filter dependents of expr")
    one = f"len({filters}) != 1"
    first = None
    for p in rets:
        if isinstance(p.stmt.value, ast.Constant) and p.stmt.value.value is False and any(pol and one == unparse(t) for t, pol in flow.facts(p)):
            first = p
    if first is None:
        ctx.bad("_expr.is_filter_pushdown_available:one-filter", mod.loc(fn), "the refusal `if len(filters) != 1: return False` is gone: with several Filter consumers pushing one of them filters the data of the others")
    else:
        # (an earlier refusal - `return False` - is harmless; only answers that can allow the relocation must come after)
        late = [p for p in rets if p is not first and not (isinstance(p.stmt.value, ast.Constant) and p.stmt.value.value is False) and not any((not pol) and unparse(t) == one for t, pol in flow.facts(p))]
        if late:
            ctx.bad("_expr.is_filter_pushdown_available:one-filter", mod.loc(late[0].stmt), "a return is reachable before/without the 'exactly one Filter dependent' refusal")
        else:
            ctx.ok("_expr.is_filter_pushdown_available:one-filter", mod.loc(first.stmt), "dominates all other returns")
    # the expression must be the frame that is filtered - a rule also fires for a Filter parent of which the expression is only
    # (part of) the predicate
    par_param = fn.args.args[1].arg
    is_frame = False
    for p in rets:
        if isinstance(p.stmt.value, ast.Constant) and p.stmt.value.value is False:
            for t, pol in flow.facts(p):
                if pol and (pmatch(f"{par_param}.frame._name != {a0}._name", t) is not None or pmatch(f"{a0}._name != {par_param}.frame._name", t) is not None):
                    is_frame = True
                if (not pol) and (pmatch(f"{par_param}.frame._name == {a0}._name", t) is not None or pmatch(f"{par_param}.frame is {a0}", t) is not None):
                    is_frame = True
    # ... and that refusal must dominate every other return
    if is_frame:
        refusal = next(p for p in rets if isinstance(p.stmt.value, ast.Constant) and p.stmt.value.value is False and any(f"{par_param}.frame" in unparse(t) for t, pol in flow.facts(p)))
        is_frame = all(p is refusal or any(f"{par_param}.frame" in unparse(t) for t, pol in flow.facts(p)) for p in rets)
    (ctx.ok if is_frame else ctx.bad)("_expr.is_filter_pushdown_available:is-the-filtered-frame", mod.loc(fn), "refuses when the expression is not the parent's frame" if is_frame else "the legality test never checks that the expression is the FRAME of the filter: operators that let filters pass also fire when they are only the predicate (df[df.a.astype(bool)]) and the rewrite filters the wrong operand")
    # single-parent shortcut must test the number of parents == 1
    short = [p for p in rets if isinstance(p.stmt.value, ast.Constant) and p.stmt.value.value is True]
    for i, p in enumerate(short):
        fs = [unparse(t) for t, pol in flow.facts(p) if pol]
        good = f"len({parents}) == 1" in fs
        (ctx.ok if good else ctx.bad)(f"_expr.is_filter_pushdown_available:return-True{i}", mod.loc(p.stmt), "only when the filter is the single dependent" if good else "returns True without `len(parents) == 1`")

    mod2, fn2 = model.func("_expr", "_check_dependents_are_predicates")
    params = [a.arg for a in fn2.args.args]
    final = [p for p in flow.returns(fn2) if not p.loops and not isinstance(p.stmt.value, ast.Constant)]
    if not final:
        raise AnalysisError("anchor changed: _check_dependents_are_predicates has no final return")
    for p in final:
        terms = [unparse(t) for t, pol in flow.conj_terms(p.stmt.value, True) if pol]
        # the allowed set: the local that starts as {parent._name}
        allowed = one_local(fn2, "{V_p._name}", "allowed-expressions set of _check_dependents_are_predicates")
        subs = [t for t in terms if f".issubset({allowed})" in t]
        recv = {t.split(".issubset")[0] for t in subs}
        good = len(recv) >= 2 and params[1] in recv
        (ctx.ok if good else ctx.bad)(
            "_expr._check_dependents_are_predicates:final",
            mod2.loc(p.stmt),
            "both subset tests present" if good else f"final verdict `{unparse(p.stmt.value)}` no longer requires both: all dependents of predicate nodes inside the predicate AND the other consumers inside the predicate",
        )
    # reductions inside the predicate must be refused when allow_reduction is False
    red = [p for p in flow.returns(fn2) if isinstance(p.stmt.value, ast.Constant) and p.stmt.value.value is False]
    good = any(any((not pol) and unparse(t) == "allow_reduction" for t, pol in flow.facts(p)) for p in red)
    # ... and so must every node that is not computed row by row (Elemwise) from the lower filter: quantiles, cumulative /
    # shifted / rolling values change when the rows below them change
    node_var = one_local(fn2, "V_stack.pop()", "the node popped from the work list in _check_dependents_are_predicates")
    rowwise = any(any((not pol) and unparse(t) == "allow_reduction" for t, pol in flow.facts(p)) and any((not pol) and pmatch(f"isinstance({node_var}, Elemwise)", t) is not None for t, pol in flow.facts(p)) for p in red)
    (ctx.ok if rowwise else ctx.bad)("_expr._check_dependents_are_predicates:row-wise-only", mod2.loc(fn2), "non-Elemwise nodes between the two filters refuse the merge" if rowwise else "when two stacked filters are merged, only tree / shuffle reductions in the upper predicate are refused: a quantile, cumulative, shifted or rolling value of the filtered frame is re-computed over the unfiltered frame")
    (ctx.ok if good else ctx.bad)("_expr._check_dependents_are_predicates:reductions", mod2.loc(fn2), "reductions refused when allow_reduction=False" if good else "reduction nodes in the predicate are no longer refused when allow_reduction=False (squashing filters would change the reduction's input)")


# Classes confirmed row-local or row-permuting (reading each class's operation): the filter commutes with them.
R03E_ALLOWED = {
    "_expr._DeepCopy": "copy",
    "_expr.RenameSeries": "renames the series / index labels, rows untouched",
    "_expr.ArrowStringConversion": "dtype conversion per value",
    "_expr.ToTimestamp": "index conversion per row",
    "_expr.AsType": "dtype cast per value",
    "_expr.RenameAxis": "axis names only",
    "_expr.ToFrame": "series -> one-column frame",
    "_expr.ToFrameIndex": "index -> frame",
    "_expr.ToSeriesIndex": "index -> series",
    "_expr.Filter": "filters commute",
    "_expr.FilterAlign": "filters commute",
    "_expr.ResetIndex": "row-local (index predicate re-targeted explicitly)",
    "_expr.AddPrefixSeries": "index label prefix",
    "_expr.AddSuffixSeries": "index label suffix",
    "_repartition.Repartition": "row-preserving re-chunking",
    "_repartition.RepartitionToFewer": "row-preserving re-chunking",
    "_repartition.RepartitionToMore": "row-preserving re-chunking",
    "_repartition.RepartitionDivisions": "row-preserving re-chunking",
    "_repartition.RepartitionFreq": "row-preserving re-chunking",
    "_repartition.RepartitionSize": "row-preserving re-chunking",
    "_shuffle.ShuffleBase": "row permutation",
    "_shuffle.Shuffle": "row permutation",
    "_shuffle.RearrangeByColumn": "row permutation",
    "_shuffle.SimpleShuffle": "row permutation",
    "_shuffle.TaskShuffle": "row permutation",
    "_shuffle.DiskShuffle": "row permutation",
    "_shuffle.P2PShuffle": "row permutation",
    "_shuffle.SetIndex": "row permutation (index predicates refused by its own override)",
    "_shuffle.SetPartition": "row permutation",
    "_shuffle.SortValues": "row permutation",
    "io.parquet.ReadParquetPyarrowFS": "reader applies the translated filter itself (R03a)",
}


R03E_OVERRIDES = {
    "_expr.Expr": "base: flag and generic legality test",
    "_merge.Merge": "join-side table (R03b) and suffix guard (R03c)",
    "_shuffle.SetIndex": "refuses predicates on the index and a new index given as a separate collection (R03g)",
    "_shuffle.ShuffleBase": "refuses a key given as a separate collection (R03g), otherwise the generic test",
    "io.parquet.ReadParquet": "reader translation gate (R03a)",
    "_merge_asof.MergeAsof": "refuses every relocation (an asof join pairs each left row with its nearest right row; the rule inherited from Merge reads `how`, which this class does not have)",
}


@rule(
    "R03e",
    ["C03", "C01"],
    """PASSTHROUGH ALLOW-LIST: _filter_passthrough resolves (through the MRO) to True only on the classes confirmed
    row-local or row-permuting; the base Expr keeps it False; a class acquiring the flag outside the table
    (aggregations, windows, joins, head/tail, sampling ... change which rows exist) is reported.""",
)
def r03e(ctx):
    model = ctx.model
    base = model.cls("Expr", "_expr")
    if model.flag(base, "_filter_passthrough", default=None) is not False:
        ctx.bad("_expr.Expr._filter_passthrough", base.loc, "the base default is no longer False: every operator lets filters pass")
    else:
        ctx.ok("_expr.Expr._filter_passthrough", base.loc, "default False")
    n = 0
    for c in model.expr_classes():
        mem = c.provider("_filter_passthrough")
        if mem is None or mem.kind != "attr":
            continue
        v = model.flag(c, "_filter_passthrough", default=None)
        if v is True:
            n += 1
            if c.qual in R03E_ALLOWED:
                ctx.ok(f"{c.qual}._filter_passthrough", c.loc, R03E_ALLOWED[c.qual])
            else:
                ctx.bad(f"{c.qual}._filter_passthrough", mem.cls.module.loc(mem.node), f"{c.qual} lets filters pass below it (flag set in {mem.cls.qual}) but is not in the confirmed row-local / row-permuting table")
        elif v is None:
            ctx.unclassified(f"{c.qual}._filter_passthrough", c.loc, "flag value not a constant")
    ctx.floor("classes with _filter_passthrough=True", n, 25)
    # classes that decide for themselves (override of _filter_passthrough_available) are an allow-list too
    for c, m in own_methods(model, "_filter_passthrough_available"):
        cid = f"{c.qual}._filter_passthrough_available:override"
        if c.qual in R03E_OVERRIDES:
            ctx.ok(cid, c.module.loc(m.node), R03E_OVERRIDES[c.qual])
        else:
            ctx.bad(cid, c.module.loc(m.node), f"{c.qual} defines its own _filter_passthrough_available: a new way for filters to cross this operator that is not in the confirmed table (the operator changes values or rows, so the predicate would be evaluated on different data)")
    # SetIndex: index predicates must be refused (the index changes)
    si = model.cls("SetIndex")
    fn = model.method(si, "_filter_passthrough_available", own=True).node
    good = any(isinstance(r.value, ast.UnaryOp) and isinstance(r.value.op, ast.Not) and pfind("isinstance(V_x, Index)", r.value) for r in ast.walk(fn) if isinstance(r, ast.Return) and r.value is not None)
    (ctx.ok if good else ctx.bad)("_shuffle.SetIndex._filter_passthrough_available:index-predicate", si.module.loc(fn), "predicates on the index are refused" if good else "a predicate that reads the index is moved below set_index, where the index is a different one")


@rule(
    "R03f",
    ["C03", "C19"],
    """CONJUNCTION SPLITTING AGREEMENT: Merge._filter_passthrough_available judges a conjunction by descending into one side
    (`predicate = predicate.<side>` while it is an And) and Merge._simplify_up peels the SAME side off first
    (Filter(self, predicate.<side>), remaining side re-applied on top); the And-splitting shortcut in the legality
    test builds Filter(self, parent.predicate.<side>) as well. If the sides differ, the legality test approves a term
    that is not the one being moved (wrong rows), or the split and Filter squashing undo each other forever
    (the optimizer does not converge).""",
)
def r03f(ctx):
    model = ctx.model
    merge = model.cls("Merge", "_merge")
    fpa = model.method(merge, "_filter_passthrough_available", own=True).node
    su = model.method(merge, "_simplify_up", own=True).node
    sides = {}
    # while isinstance(predicate, And): predicate = predicate.<side>
    for w in ast.walk(fpa):
        if isinstance(w, ast.While) and "And" in ast.unparse(w.test):
            for a in ast.walk(w):
                if isinstance(a, ast.Assign) and isinstance(a.value, ast.Attribute) and a.value.attr in ("left", "right"):
                    sides["legality descent"] = (a.value.attr, a)
    for n in ast.walk(fpa):
        if isinstance(n, ast.Call) and dotted(n.func) == "Filter" and len(n.args) == 2 and isinstance(n.args[1], ast.Attribute) and n.args[1].attr in ("left", "right"):
            sides["legality And-split"] = (n.args[1].attr, n)
    for n in ast.walk(su):
        if isinstance(n, ast.Call) and dotted(n.func) == "Filter" and len(n.args) == 2 and isinstance(n.args[1], ast.Attribute) and n.args[1].attr in ("left", "right") and ast.unparse(n.args[0]) == "self":
            sides["rewrite peel"] = (n.args[1].attr, n)
        if isinstance(n, ast.Call) and isinstance(n.func, ast.Attribute) and n.func.attr == "substitute" and isinstance(n.func.value, ast.Attribute) and n.func.value.attr in ("left", "right") and ast.unparse(n.func.value.value) == "predicate":
            other = "left" if n.func.value.attr == "right" else "right"
            sides["rewrite remainder"] = (other, n)
    if len(sides) < 3:
        raise AnalysisError(f"anchor vanished: conjunction splitting sites of Merge (found {sorted(sides)})")
    vals = {v[0] for v in sides.values()}
    if len(vals) == 1:
        ctx.ok("_merge.Merge:and-split-side", merge.module.loc(fpa), f"all {len(sides)} sites use the `{next(iter(vals))}` term first")
    else:
        first = next(iter(sides.values()))
        ctx.bad("_merge.Merge:and-split-side", merge.module.loc(first[1]), "the sites disagree on which side of a conjunction is handled first: " + ", ".join(f"{k}: .{v[0]}" for k, v in sorted(sides.items())) + " - the legality test then judges a different term than the one the rewrite moves")


def _params_that_may_hold_collections(model, c):
    """parameters p != frame of class c (or a class sharing its lowering) for which the code itself tests
    `isinstance(<self.p or a local holding it>, Expr)`: the operand can be a row-aligned collection"""
    out = set()
    try:
        params = set(model.parameters(c))
    except AnalysisError:
        return out
    fam = [k for k in model.expr_classes() if c in k.mro or k in c.mro]
    for k in fam:
        for mem in k.members.values():
            if not isinstance(mem.node, (ast.FunctionDef, ast.AsyncFunctionDef)):
                continue
            fn = mem.node
            held = {}
            for p in params:
                for nm in locals_defined_by(fn, f"self.{p}"):
                    held[nm] = p
            for n in ast.walk(fn):
                if isinstance(n, ast.Call) and isinstance(n.func, ast.Name) and n.func.id == "isinstance" and len(n.args) == 2 and "Expr" in {dotted(e) for e in (n.args[1].elts if isinstance(n.args[1], ast.Tuple) else [n.args[1]])}:
                    a = n.args[0]
                    if is_self_attr(a) and a.attr in params:
                        out.add(a.attr)
                    elif isinstance(a, ast.Name) and a.id in held:
                        out.add(held[a.id])
    out.discard("frame")
    return out


@rule(
    "R03g",
    ["C03", "C12", "C01"],
    """A FILTER MOVES BELOW ALL ROW-ALIGNED INPUTS OR NONE: the generic filter relocation (_filter_simplification) filters only
    `frame`. A class that lets filters pass and has another operand which can be a collection aligned with the frame row by
    row (the code itself tests `isinstance(self.p, Expr)`, e.g. a shuffle keyed by a Series) must refuse the relocation
    when that operand is a collection - otherwise the remaining rows are paired with the values of other rows.""",
)
def r03g(ctx):
    model = ctx.model
    n = 0
    for c in model.expr_classes():
        v = model.flag(c, "_filter_passthrough", default=False)
        if v is not True:
            continue
        ps = _params_that_may_hold_collections(model, c)
        if not ps:
            continue
        fpa = c.provider("_filter_passthrough_available")
        for p in sorted(ps):
            n += 1
            cid = f"{c.qual}:collection-operand:{p}"
            refused = False
            if fpa is not None and isinstance(fpa.node, ast.FunctionDef):
                for pt in flow.returns(fpa.node):
                    if isinstance(pt.stmt.value, ast.Constant) and pt.stmt.value.value is False and any(pol and pmatch(f"isinstance(self.{p}, Expr)", t) is not None for t, pol in flow.facts(pt)):
                        refused = True
            if refused:
                ctx.ok(cid, c.loc, f"relocation refused when `{p}` is a collection")
            else:
                ctx.bad(cid, fpa.cls.module.loc(fpa.node) if fpa is not None else c.loc, f"{c.qual} lets filters pass below it, but `{p}` can be a collection aligned with the frame row by row and the relocation filters only the frame: the surviving rows meet the `{p}` values of other rows")
    ctx.floor("filter pass-through classes with a possible collection operand", n, 3)


# operators on the filter pass-through list whose output VALUES differ from their input's (what a predicate compares)
R03H_VALUE_CHANGING = {
    "_expr.AsType": "a cast can change values (float -> int truncates, numbers -> bool, strings -> category codes)",
    "_expr.ArrowStringConversion": "object -> string[pyarrow]: comparisons with missing values answer <NA> instead of True / False",
    "_expr.ToTimestamp": "the index values become timestamps",
}


@rule(
    "R03h",
    ["C03", "C01"],
    """A RELOCATED PREDICATE IS EVALUATED ON THE SAME VALUES: the generic relocation rewrites `op(x)[pred(op(x))]` into
    `op(x[pred(x)])` - the predicate is re-evaluated on the operator's INPUT. That is only the same predicate when the operator
    does not change the values the predicate reads. Operators on the pass-through list that do change values (casts,
    conversions) must refuse the relocation when the predicate is computed from their own output.""",
)
def r03h(ctx):
    model = ctx.model
    n = 0
    for q, why in sorted(R03H_VALUE_CHANGING.items()):
        c = next((k for k in model.expr_classes() if k.qual == q), None)
        if c is None:
            raise AnalysisError(f"anchor vanished: class {q}")
        if model.flag(c, "_filter_passthrough", default=False) is not True:
            ctx.ok(f"{q}:value-changing-passthrough", c.loc, "filters do not pass")
            continue
        n += 1
        fpa = c.provider("_filter_passthrough_available")
        refused = False
        if fpa is not None and isinstance(fpa.node, ast.FunctionDef):
            par = fpa.node.args.args[1].arg
            for pt in flow.returns(fpa.node):
                if isinstance(pt.stmt.value, ast.Constant) and pt.stmt.value.value is False:
                    for t, pol in flow.facts(pt):
                        tx = unparse(t)
                        if pol and f"{par}.predicate" in tx and "self._name" in tx and ("walk()" in tx or "find_operations" in tx or "dependencies" in tx):
                            refused = True
        cid = f"{q}:value-changing-passthrough"
        if refused:
            ctx.ok(cid, c.loc, "refused when the predicate reads the operator's own output")
        else:
            ctx.bad(cid, fpa.cls.module.loc(fpa.node) if fpa is not None else c.loc, f"{q} lets a filter pass and re-evaluates its predicate on the operator's input although {why}: rows are kept or dropped by the un-converted values")
    ctx.floor("value-changing operators on the filter pass-through list", n, 1)


@rule(
    "R03i",
    ["C03", "C01", "C12"],
    """ROW-PERMUTING OPERATORS ONLY PASS ORDER-INDEPENDENT PREDICATES: the operators that let filters pass because they merely
    permute rows (every entry "row permutation" of the R03e table: shuffles, sort_values, set_index) declare
    `_filter_passthrough_reorders_rows`, and the legality test consults that declaration and refuses a predicate that is not
    computed row by row (or through reductions) from the operator's output - a cumulative, shifted or rolling value selects
    other rows when it is evaluated in the order below the operator.""",
)
def r03i(ctx):
    model = ctx.model
    n = 0
    for q, why in sorted(R03E_ALLOWED.items()):
        if not why.startswith("row permutation"):
            continue
        c = next((k for k in model.expr_classes() if k.qual == q), None)
        if c is None:
            continue
        if model.flag(c, "_filter_passthrough", default=False) is not True:
            continue
        n += 1
        v = model.flag(c, "_filter_passthrough_reorders_rows", default=False)
        cid = f"{q}:reorders-rows-declared"
        (ctx.ok if v is True else ctx.bad)(cid, c.loc, "declares that it reorders rows" if v is True else f"{q} lets filters pass as a row permutation but does not declare `_filter_passthrough_reorders_rows`: order-dependent predicates (cumsum, shift, rolling of its output) are moved below it and select other rows")
    ctx.floor("row-permuting operators on the filter pass-through list", n, 8)
    mod, fn = model.func("_expr", "is_filter_pushdown_available")
    a0 = fn.args.args[0].arg
    par = fn.args.args[1].arg
    consulted = False
    for pt in flow.returns(fn):
        if isinstance(pt.stmt.value, ast.Constant) and pt.stmt.value.value is False:
            facts = [(unparse(t), pol) for t, pol in flow.facts(pt)]
            if any(pol and t == f"{a0}._filter_passthrough_reorders_rows" for t, pol in facts) and any("Elemwise" in t for t, pol in facts):
                consulted = True
    (ctx.ok if consulted else ctx.bad)("_expr.is_filter_pushdown_available:order-dependent-predicate", mod.loc(fn), "refuses predicates that are not row-wise / reductions below a reordering operator" if consulted else "the legality test does not refuse order-dependent predicates below operators that reorder rows")
    # ... and refuses a row-aligned term that is not computed from the operator at all: it lines up with the rows the operator
    # RETURNS. Shape: a refusing return under the reorder flag and under `not any(<x>._name == expr._name for <x> in <term>.walk())`.
    foreign = False
    for pt in flow.returns(fn):
        if isinstance(pt.stmt.value, ast.Constant) and pt.stmt.value.value is False:
            fs = list(flow.facts(pt))
            if any(pol and unparse(t) == f"{a0}._filter_passthrough_reorders_rows" for t, pol in fs) and any(
                (not pol) and pmatch(f"any((V_x._name == {a0}._name for V_x in V_e.walk()))", t) is not None for t, pol in fs
            ):
                foreign = True
    (ctx.ok if foreign else ctx.bad)("_expr.is_filter_pushdown_available:foreign-row-aligned-term", mod.loc(fn), "refuses predicates with a row-aligned term that does not derive from the reordering operator" if foreign else "below an operator that reorders rows the legality test accepts a predicate (or a term of it) that is not computed from that operator: the mask lines up with the operator's OUTPUT rows, the rewrite pairs it with the input rows - after the OR-factoring rewrite + column pruning x[((x.b > 2) & (x.a > 1)) | ((x.b > 2) & (x.a < 0))] above set_index selected other rows / failed")


# ---------------------------------------------------------------------------------------------
# R03j
# ---------------------------------------------------------------------------------------------


@rule(
    "R03j",
    ["C03", "C01"],
    """A JOIN ONLY LETS ROW-WISE PREDICATES PASS: a join adds, drops and duplicates rows, so a predicate term that is not computed
    row by row from the join result (a reduction wrapped in arithmetic, a cumulative / shifted / rolling value) means something else
    when it is evaluated on one input. Merge._filter_passthrough_available - through the helpers that walk the predicate - must refuse
    (return None / False) when a node of the walk is not Elemwise, or ask the shared legality test with allow_reduction=False.
    m[m.a > m.a.mean() * 1.0] returned 0 of 3 rows without it.""",
)
def r03j(ctx):
    model = ctx.model
    c = model.cls("Merge", "_merge")
    fn = model.method(c, "_filter_passthrough_available", own=True).node
    fns = closure_functions(model, c.module, c, fn, depth=2)
    ok = None
    for mod, cls, f in fns:
        if mod is not c.module:
            continue
        for call in (x for x in ast.walk(f) if isinstance(x, ast.Call)):
            if dotted(call.func) in ("is_filter_pushdown_available", "_check_dependents_are_predicates") and any(kw.arg == "allow_reduction" and isinstance(kw.value, ast.Constant) and kw.value.value is False for kw in call.keywords):
                ok = (mod.loc(call), "asks the shared legality test with allow_reduction=False")
        pops = locals_defined_by(f, "V_stack.pop()")
        for p in flow.returns(f):
            v = p.stmt.value
            refuses = v is None or (isinstance(v, ast.Constant) and v.value in (None, False))
            if not refuses:
                continue
            for t, pol in flow.facts(p):
                if pol:
                    continue
                for nv in pops:
                    if pmatch(f"isinstance({nv}, Elemwise)", t) is not None:
                        ok = (mod.loc(p.stmt), f"the predicate walk of {f.name} refuses nodes that are not Elemwise")
    cid = "_merge.Merge._filter_passthrough_available:row-wise-only"
    if ok:
        ctx.ok(cid, *ok)
    else:
        ctx.bad(cid, c.module.loc(fn), "the join's legality test walks the predicate without refusing nodes that are not Elemwise (only a reduction that IS the right operand of the top comparison is refused): m[m.a > m.a.mean() * 1.0], m[m.a - m.a.mean() > 0], m[m.a.cumsum() > 60] are pushed into one input of the join, where the reduction / cumulative value is taken over other rows")
    # (b) the And-unwrapping loop tests every conjunct it skips: Merge._simplify_up re-evaluates the right conjunct on the rows that
    # survive the left one
    loops = [w for w in ast.walk(fn) if isinstance(w, ast.While) and pmatch("isinstance(V_p, And)", w.test) is not None]
    for w in loops:
        pv = pmatch("isinstance(V_p, And)", w.test)["V_p"]
        tested = any(isinstance(i_, ast.If) and f"{pv}.right" in ast.unparse(i_.test) and any(isinstance(r, ast.Return) and (r.value is None or (isinstance(r.value, ast.Constant) and r.value.value in (None, False))) for r in ast.walk(i_)) for i_ in ast.walk(w))
        cid2 = "_merge.Merge._filter_passthrough_available:conjuncts-row-wise"
        if tested:
            ctx.ok(cid2, c.module.loc(w), f"every skipped conjunct ({pv}.right) is tested before the conjunction is split")
        else:
            ctx.bad(cid2, c.module.loc(w), f"the loop descends to the left-most conjunct without looking at `{pv}.right`: Merge._simplify_up then splits filter(A & B) into stacked filters and evaluates B on the rows that survive A - a reduction in B (m[(m.k > 1) & (m.w > m.w.mean())]) is taken over fewer rows")
    # (c) decision and action agree on the input a predicate goes to: if the action looks at the suffixes (a shared column that got a
    # suffix on one side names the OTHER input's column), the decision must as well
    up = model.method(c, "_simplify_up", own=True).node
    filt = [i_ for i_ in ast.walk(up) if isinstance(i_, ast.If) and "Filter" in ast.unparse(i_.test)]
    act_text = " ".join(ast.unparse(f) for _, _, f in closure_functions(model, c.module, c, up, depth=1) if f is not fn) if filt else ""
    dec_text = " ".join(ast.unparse(f) for _, _, f in fns)
    cid3 = "_merge.Merge:filter-side-agreement"
    if "suffixes" in act_text and "suffixes" not in dec_text:
        ctx.bad(cid3, c.module.loc(fn), "Merge._simplify_up picks the input for a pushed predicate after looking at the suffixes, Merge._filter_passthrough_available decides the join-direction rule from the column names alone: with suffixes=('_l', '') a predicate on the RIGHT input's column is judged by the rule for the left input and moved into the right input of a LEFT join (unmatched left rows survive the filter)")
    else:
        ctx.ok(cid3, c.module.loc(fn), "decision and action use the same notion of which input a column belongs to")


# ---------------------------------------------------------------------------------------------
# R03k
# ---------------------------------------------------------------------------------------------

R03K_EXCEPTIONS = {
    "_expr.Elemwise._simplify_up": "Series -> one-column frame with the SAME labels and divisions (to_frame): a term that still reads the operator's output stays valid, it is only not moved",
}


@rule(
    "R03k",
    ["C03", "C01"],
    """A HAND-TRANSLATED PREDICATE STILL GETS THE GENERAL SUBSTITUTION: `_filter_simplification(parent, predicate)` with an explicit
    predicate skips the default `parent.predicate.substitute(self, self.frame)`. A rule that translates special columns by hand (the
    former index / the values of a Series under reset_index) and passes the result must itself finish with
    `.substitute(self, self.frame)` - otherwise every OTHER term of the predicate keeps reading the operator's output, whose labels and
    divisions differ from the filtered input: x = df.reset_index(); x[(x['index'] > 11) & (x.a > 2)] failed / selected other rows.""",
)
def r03k(ctx):
    model = ctx.model
    from sa.rules.r04 import _def_chain

    n = 0
    for c, m in own_methods(model, "_simplify_up"):
        fn = m.node
        defs = flow.Defs(fn)
        for call in (x for x in ast.walk(fn) if isinstance(x, ast.Call) and is_self_attr(x.func, "_filter_simplification") and (len(x.args) >= 2 or any(kw.arg == "predicate" for kw in x.keywords))):
            arg = call.args[1] if len(call.args) >= 2 else next(kw.value for kw in call.keywords if kw.arg == "predicate")
            n += 1
            cid = f"{qual(c, fn)}:explicit-predicate"
            chain = [arg] + (_def_chain(defs, arg.id, call) if isinstance(arg, ast.Name) else [])
            general = any(pfind("V_p.substitute(self, self.frame)", v) for v in chain)
            if general:
                ctx.ok(cid, c.module.loc(call), "the translated predicate ends with .substitute(self, self.frame)")
            elif qual(c, fn) in R03K_EXCEPTIONS:
                ctx.exempt(cid, c.module.loc(call), R03K_EXCEPTIONS[qual(c, fn)])
            else:
                ctx.bad(cid, c.module.loc(call), f"`{unparse(call)}` passes a hand-translated predicate that never gets the general `.substitute(self, self.frame)`: every term other than the translated column keeps reading {c.name}'s output (other labels / divisions than the filtered input) - assertion error or, with unknown divisions, other rows")
    ctx.floor("explicit-predicate filter simplifications", n, 2)
    # (b) a column of the operator's OWN output that is translated by hand is named from the output schema (self.columns) or from
    # every parameter that can rename it - not guessed from the input's metadata (reset_index(name=...), an input that already has
    # a column "index" -> "level_0")
    m_ = 0
    for c, m in own_methods(model, "_simplify_up"):
        fn = m.node
        try:
            params = model.parameters(c)
        except Exception:  # noqa: BLE001
            continue
        if "name" not in params:
            continue
        defs = flow.Defs(fn)
        for call in (x for x in ast.walk(fn) if isinstance(x, ast.Call) and pmatch("Projection(self, V_x)", x) is not None):
            p = flow.point_of(fn, call)
            if p is None or not any(pol and "Filter" in unparse(t) for t, pol in flow.facts(p)):
                continue
            m_ += 1
            arg = call.args[1]
            chain = [arg] + (_def_chain(defs, arg.id, call) if isinstance(arg, ast.Name) else [])
            text = " ".join(ast.unparse(v) for v in chain)
            cid = f"{qual(c, fn)}:own-output-column:{unparse(arg)[:40]}"
            if "self.columns" in text or "self.name" in text or "operand('name')" in text:
                ctx.ok(cid, c.module.loc(call), "the translated column is named from the operator's own schema / name parameter")
            else:
                ctx.bad(cid, c.module.loc(call), f"`{unparse(call)}` names a column of {c.name}'s OUTPUT from the input's metadata alone (`{text[:80]}`), ignoring the `name` parameter and pandas' collision renaming: with reset_index(name=...) or an input that already has that column the term is not translated and keeps reading the reset frame")
    ctx.floor("hand-translated own-output columns", m_, 1)


# ---------------------------------------------------------------------------------------------
# R03l
# ---------------------------------------------------------------------------------------------


@rule(
    "R03l",
    ["C03", "C01"],
    """OR-FACTORING PULLS OUT ONLY WHAT EVERY DISJUNCT CONTAINS, AND ABSORBS: `(A & B) | (A & C)` -> `A & (B | C)` is an identity only for
    conjuncts present in EVERY disjunct, and when a disjunct consists of nothing but the common part the whole OR collapses to it
    (`A | (A & B) == A`). In `_replace_common_or_components`: (a) a conjunct becomes a replacement only under a universally quantified
    membership test over all disjuncts (`all(c in comp for comp in <all components>)`) or through an ACCUMULATED intersection
    (`common &= ...` / `common = common & ...`); (b) where nothing of a disjunct is left after factoring (`len(<kept>) == 0`) the
    function RETURNS the common part - skipping the disjunct (`continue`) turns "always true given A" into "false".""",
)
def r03l(ctx):
    model = ctx.model
    mod, fn = model.func("_expr", "_replace_common_or_components")
    comps_param = fn.args.args[1].arg
    # (a)
    universal = False
    for call in (x for x in ast.walk(fn) if isinstance(x, ast.Call) and isinstance(x.func, ast.Attribute) and x.func.attr in ("append", "add")):
        p = flow.point_of(fn, call)
        if p is None:
            continue
        for t, pol in flow.facts(p):
            if pol and isinstance(t, ast.Call) and dotted(t.func) == "all" and t.args and isinstance(t.args[0], (ast.GeneratorExp, ast.ListComp)):
                g = t.args[0]
                if isinstance(g.elt, ast.Compare) and isinstance(g.elt.ops[0], ast.In) and ast.unparse(g.elt.comparators[0]) == ast.unparse(g.generators[0].target):
                    universal = True
    accumulated = False
    for st in ast.walk(fn):
        if isinstance(st, ast.AugAssign) and isinstance(st.op, ast.BitAnd):
            accumulated = True
        if isinstance(st, ast.Assign) and isinstance(st.value, ast.BinOp) and isinstance(st.value.op, ast.BitAnd) and any(isinstance(t, ast.Name) and t.id in {n.id for n in ast.walk(st.value) if isinstance(n, ast.Name)} for t in st.targets) and not any(isinstance(x, ast.Attribute) for x in [st.value.left, st.value.right] if False):
            # `common = common & set(comp)` - the target occurs on the right-hand side; `outer = outer & mapping[r]` builds the
            # predicate, not the candidate set: require a set(...) operand
            if "set(" in ast.unparse(st.value):
                accumulated = True
        if isinstance(st, ast.Call) and isinstance(st.func, ast.Attribute) and st.func.attr == "intersection_update":
            accumulated = True
    cid = "_expr._replace_common_or_components:common-to-all"
    if universal or accumulated:
        ctx.ok(cid, mod.loc(fn), "a conjunct is factored out only if every disjunct contains it")
    else:
        ctx.bad(cid, mod.loc(fn), "conjuncts are collected for factoring without a universally quantified membership test over ALL disjuncts (`all(c in comp for comp in ...)`) or an accumulated intersection: a conjunct found in some disjuncts only is pulled in front of the OR and filters out rows that another disjunct accepts")
    # (b)
    absorbed = None
    for pt in flow.walk(fn):
        if not any(pol and pmatch("len(V_k) == 0", t) is not None for t, pol in flow.facts(pt)):
            continue
        if not any(isinstance(a_, ast.For) for a_ in _ancestors(pt.stmt, fn)):
            continue
        cid = "_expr._replace_common_or_components:absorption"
        if isinstance(pt.stmt, ast.Return) and pt.stmt.value is not None:
            absorbed = True
            ctx.ok(cid, mod.loc(pt.stmt), "a disjunct with nothing left makes the OR collapse to the common part")
        elif isinstance(pt.stmt, (ast.Continue, ast.Pass)):
            absorbed = False
            ctx.bad(cid, mod.loc(pt.stmt), f"when nothing of a disjunct is left after factoring the code does `{unparse(pt.stmt)}` instead of returning the common part: `A | (A & B)` must collapse to `A`; dropping the disjunct leaves `A & B`, which rejects rows the original predicate accepts")
    if absorbed is None:
        ctx.unclassified("_expr._replace_common_or_components:absorption", mod.loc(fn), "the empty-remainder case is not spelled `len(<kept>) == 0` inside the disjunct loop")


def _ancestors(node, stop):
    p = getattr(node, "_parent", None)
    while p is not None and p is not stop:
        yield p
        p = getattr(p, "_parent", None)
