"""C16: collections survive serialization to another process - structural clauses."""
from __future__ import annotations

import ast

from sa import flow
from sa.model import AnalysisError, dotted, unparse
from sa.rules import LEVEL_TEXT, rule
from sa.rules.util import is_self_attr, own_methods, qual

LEVEL_TEXT["C16"] = (
    "Decides structural necessary conditions of C16: every expression is reconstructed from exactly (type(self), all "
    "operands) - no __reduce__ drops, rewrites or defaults an operand and no pickling hook keeps per-process state; "
    "wrappers around source data and file fragments round-trip their payload; no metadata method reads a process-"
    "global cache without a miss path (R15a); operand containers are never mutated after naming (R05b); names are a "
    "function of the operands only (R08a/e). Undecided: equality of results after a round trip."
)


@rule(
    "R16a",
    ["C16"],
    """RECONSTRUCTION FROM (TYPE, ALL OPERANDS): core Expr.__reduce__ returns exactly `type(self), tuple(self.operands)`
    (after the optional no-serialize guard); no expression class overrides __reduce__ / __getstate__ / __setstate__ /
    __reduce_ex__ / __copy__ / __deepcopy__ (an override can drop or reset operands: the receiver would rebuild a
    different expression under the same or another name); FrameBase reduces to (new_collection, (expr,));
    _BackendData to (type, (_data,)); classes overriding __new__/__init__ still fill self.operands with all
    arguments.""",
)
def r16a(ctx):
    model = ctx.model
    core = model.core_expr
    red = model.method(core, "__reduce__", own=True).node
    rets = [p for p in flow.returns(red)]
    good = len(rets) == 1 and unparse(rets[0].stmt.value) == "(type(self), tuple(self.operands))"
    (ctx.ok if good else ctx.bad)(
        "_core.Expr.__reduce__",
        core.module.loc(red),
        "type(self), tuple(self.operands)" if good else f"Expr.__reduce__ returns {[unparse(p.stmt.value) for p in rets]}: the receiving process does not rebuild the expression from its full operand list",
    )
    hooks = ("__reduce__", "__getstate__", "__setstate__", "__reduce_ex__", "__copy__", "__deepcopy__", "__getnewargs__", "__getnewargs_ex__")
    n = 0
    for c in model.expr_classes():
        n += 1
        if c is core:
            continue
        own = [h for h in hooks if h in c.members]
        cid = f"{c.qual}:pickle-hooks"
        if own:
            m = c.members[own[0]]
            ctx.bad(cid, c.module.loc(m.node), f"{c.qual} overrides {own}: expressions must round-trip as (type, all operands); an override can drop, reset or re-derive operands (e.g. a cache slot or a default), so the unpickled expression differs in name, schema or plan from the sender's")
        else:
            ctx.ok(cid, c.loc)
    ctx.floor("expression classes", n, 300)
    # __new__ / __init__ overrides
    for c in model.expr_classes():
        for h in ("__new__", "__init__"):
            m = c.members.get(h)
            if m is None or c is core:
                continue
            cid = f"{c.qual}.{h}"
            t = ast.unparse(m.node)
            params = [a.arg for a in m.node.args.args[1:]]
            sets_ops = any(isinstance(s, ast.Assign) and any(unparse(tg) in ("self.operands", "inst.operands") for tg in s.targets) for s in ast.walk(m.node))
            if sets_ops:
                assign = next(s for s in ast.walk(m.node) if isinstance(s, ast.Assign) and any(unparse(tg) in ("self.operands", "inst.operands") for tg in s.targets))
                names = {x.id for x in ast.walk(assign.value) if isinstance(x, ast.Name)}
                if set(params) <= names or not params:
                    ctx.ok(cid, c.module.loc(m.node), "operands hold every constructor argument")
                else:
                    ctx.bad(cid, c.module.loc(m.node), f"{cid} stores {sorted(names)} in operands but takes {params}: __reduce__ cannot rebuild the object from its operands")
            elif "super().__new__" in t or "super().__init__" in t:
                ctx.ok(cid, c.module.loc(m.node), "delegates to the base constructor")
            else:
                ctx.bad(cid, c.module.loc(m.node), f"{cid} never fills self.operands: the object cannot be rebuilt from (type, operands)")
    # new: the core constructor keeps all operands (defaults filled, nothing dropped)
    new = model.method(core, "__new__", own=True).node
    from sa.rules.util import pfind

    good = False
    for _, b in pfind("V_inst.operands = [_unpack_collections(V_o) for V_o in V_ops]", new):
        # the same list receives the keyword value or the default of every parameter not given positionally
        dflt = pfind("V_ops.append(cls._defaults[V_p])", new, {"V_ops": b["V_ops"]})
        kw = pfind("V_ops.append(kwargs.pop(V_p))", new, {"V_ops": b["V_ops"]})
        start = pfind("V_ops = list(args)", new, {"V_ops": b["V_ops"]})
        good = good or bool(dflt and kw and start)
    (ctx.ok if good else ctx.bad)("_core.Expr.__new__:operands", core.module.loc(new), "operands = all positional + keyword + default values" if good else "Expr.__new__ no longer stores every parameter's value (given or default) in operands")
    # collection / wrappers
    fb = model.cls("FrameBase")
    r = fb.members.get("__reduce__")
    if r is None:
        raise AnalysisError("anchor vanished: FrameBase.__reduce__")
    good = any(isinstance(x, ast.Return) and unparse(x.value) in ("(new_collection, (self._expr,))", "(new_collection, (self.expr,))") for x in ast.walk(r.node))
    (ctx.ok if good else ctx.bad)("_collection.FrameBase.__reduce__", fb.module.loc(r.node), "new_collection(expr)" if good else "a collection no longer reduces to new_collection(<its expression>)")
    bd = model.cls("_BackendData")
    r = bd.members.get("__reduce__")
    if r is None:
        raise AnalysisError("anchor vanished: _BackendData.__reduce__")
    good = any(isinstance(x, ast.Return) and unparse(x.value) == "(type(self), (self._data,))" for x in ast.walk(r.node))
    (ctx.ok if good else ctx.bad)("_util._BackendData.__reduce__", bd.module.loc(r.node), "type(self)(self._data)" if good else "_BackendData no longer round-trips its wrapped data")
    fw = model.cls("FragmentWrapper")
    r = fw.members.get("__reduce__")
    if r is None:
        raise AnalysisError("anchor vanished: FragmentWrapper.__reduce__")
    t = ast.unparse(r.node)
    good = "self.pack()" in t and "self._fragment_packed" in t
    (ctx.ok if good else ctx.bad)("io.parquet.FragmentWrapper.__reduce__", fw.module.loc(r.node), "packs the fragment and ships the packed form" if good else "FragmentWrapper.__reduce__ no longer packs and ships the fragment")
