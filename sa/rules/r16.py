"""C16: collections survive serialization to another process - structural clauses."""
from __future__ import annotations

import ast

from sa import flow
from sa.model import AnalysisError, dotted, unparse
from sa.rules import LEVEL_TEXT, rule
from sa.rules.util import is_self_attr, own_methods, qual

LEVEL_TEXT["C16"] = (
    "Decides structural necessary conditions of C16: every expression is reconstructed from exactly (type(self), all "
    "operands) - no __reduce__ drops, rewrites or defaults an operand and no pickling hook keeps per-process state; "
    "wrappers around source data and file fragments round-trip their payload; no metadata method reads a process-"
    "global cache without a miss path (R15a); operand containers are never mutated after naming (R05b); names are a "
    "function of the operands only (R08a/e). Undecided: equality of results after a round trip."
)


@rule(
    "R16a",
    ["C16"],
    """RECONSTRUCTION FROM (TYPE, ALL OPERANDS): core Expr.__reduce__ returns exactly `type(self), tuple(self.operands)`
    (after the optional no-serialize guard); no expression class overrides __reduce__ / __getstate__ / __setstate__ /
    __reduce_ex__ / __copy__ / __deepcopy__ (an override can drop or reset operands: the receiver would rebuild a
    different expression under the same or another name); FrameBase reduces to (new_collection, (expr,));
    _BackendData to (type, (_data,)); classes overriding __new__/__init__ still fill self.operands with all
    arguments.""",
)
def r16a(ctx):
    model = ctx.model
    core = model.core_expr
    red = model.method(core, "__reduce__", own=True).node
    rets = [p for p in flow.returns(red)]
    good = len(rets) == 1 and unparse(rets[0].stmt.value) == "(type(self), tuple(self.operands))"
    (ctx.ok if good else ctx.bad)(
        "_core.Expr.__reduce__",
        core.module.loc(red),
        "type(self), tuple(self.operands)" if good else f"Expr.__reduce__ returns {[unparse(p.stmt.value) for p in rets]}: the receiving process does not rebuild the expression from its full operand list",
    )
    hooks = ("__reduce__", "__getstate__", "__setstate__", "__reduce_ex__", "__copy__", "__deepcopy__", "__getnewargs__", "__getnewargs_ex__")
    n = 0
    for c in model.expr_classes():
        n += 1
        if c is core:
            continue
        own = [h for h in hooks if h in c.members]
        cid = f"{c.qual}:pickle-hooks"
        if own:
            m = c.members[own[0]]
            ctx.bad(cid, c.module.loc(m.node), f"{c.qual} overrides {own}: expressions must round-trip as (type, all operands); an override can drop, reset or re-derive operands (e.g. a cache slot or a default), so the unpickled expression differs in name, schema or plan from the sender's")
        else:
            ctx.ok(cid, c.loc)
    ctx.floor("expression classes", n, 300)
    # __new__ / __init__ overrides
    for c in model.expr_classes():
        for h in ("__new__", "__init__"):
            m = c.members.get(h)
            if m is None or c is core:
                continue
            cid = f"{c.qual}.{h}"
            t = ast.unparse(m.node)
            params = [a.arg for a in m.node.args.args[1:]]
            sets_ops = any(isinstance(s, ast.Assign) and any(unparse(tg) in ("self.operands", "inst.operands") for tg in s.targets) for s in ast.walk(m.node))
            if sets_ops:
                assign = next(s for s in ast.walk(m.node) if isinstance(s, ast.Assign) and any(unparse(tg) in ("self.operands", "inst.operands") for tg in s.targets))
                names = {x.id for x in ast.walk(assign.value) if isinstance(x, ast.Name)}
                if set(params) <= names or not params:
                    ctx.ok(cid, c.module.loc(m.node), "operands hold every constructor argument")
                else:
                    ctx.bad(cid, c.module.loc(m.node), f"{cid} stores {sorted(names)} in operands but takes {params}: __reduce__ cannot rebuild the object from its operands")
            elif "super().__new__" in t or "super().__init__" in t:
                ctx.ok(cid, c.module.loc(m.node), "delegates to the base constructor")
            else:
                ctx.bad(cid, c.module.loc(m.node), f"{cid} never fills self.operands: the object cannot be rebuilt from (type, operands)")
    # new: the core constructor keeps all operands (defaults filled, nothing dropped)
    new = model.method(core, "__new__", own=True).node
    from sa.rules.util import pfind

    good = False
    for _, b in pfind("V_inst.operands = [_unpack_collections(V_o) for V_o in V_ops]", new):
        # the same list receives the keyword value or the default of every parameter not given positionally
        dflt = pfind("V_ops.append(cls._defaults[V_p])", new, {"V_ops": b["V_ops"]})
        kw = pfind("V_ops.append(kwargs.pop(V_p))", new, {"V_ops": b["V_ops"]})
        start = pfind("V_ops = list(args)", new, {"V_ops": b["V_ops"]})
        good = good or bool(dflt and kw and start)
    (ctx.ok if good else ctx.bad)("_core.Expr.__new__:operands", core.module.loc(new), "operands = all positional + keyword + default values" if good else "Expr.__new__ no longer stores every parameter's value (given or default) in operands")
    # collection / wrappers
    fb = model.cls("FrameBase")
    r = fb.members.get("__reduce__")
    if r is None:
        raise AnalysisError("anchor vanished: FrameBase.__reduce__")
    good = any(isinstance(x, ast.Return) and unparse(x.value) in ("(new_collection, (self._expr,))", "(new_collection, (self.expr,))") for x in ast.walk(r.node))
    (ctx.ok if good else ctx.bad)("_collection.FrameBase.__reduce__", fb.module.loc(r.node), "new_collection(expr)" if good else "a collection no longer reduces to new_collection(<its expression>)")
    bd = model.cls("_BackendData")
    r = bd.members.get("__reduce__")
    if r is None:
        raise AnalysisError("anchor vanished: _BackendData.__reduce__")
    good = any(isinstance(x, ast.Return) and unparse(x.value) == "(type(self), (self._data,))" for x in ast.walk(r.node))
    (ctx.ok if good else ctx.bad)("_util._BackendData.__reduce__", bd.module.loc(r.node), "type(self)(self._data)" if good else "_BackendData no longer round-trips its wrapped data")
    fw = model.cls("FragmentWrapper")
    r = fw.members.get("__reduce__")
    if r is None:
        raise AnalysisError("anchor vanished: FragmentWrapper.__reduce__")
    t = ast.unparse(r.node)
    good = "self.pack()" in t and "self._fragment_packed" in t
    (ctx.ok if good else ctx.bad)("io.parquet.FragmentWrapper.__reduce__", fw.module.loc(r.node), "packs the fragment and ships the packed form" if good else "FragmentWrapper.__reduce__ no longer packs and ships the fragment")


# (function, name) -> reason an unpacked field is deliberately not used
R16B_UNUSED_OK = {
    # keyed by position in the unpacked tuple, not by the local's name
    ("_collection.read_parquet", 0, 3): "validation loop over user filters (col, op, val): only operator and value are inspected",
    ("_shuffle.SortValues._divisions", 1, 4): "only the divisions and the presorted flag of the cached quadruple (divisions, mins, maxes, presorted) are needed here",
    ("_shuffle.SortValues._divisions", 2, 4): "only the divisions and the presorted flag of the cached quadruple (divisions, mins, maxes, presorted) are needed here",
}


@rule(
    "R16b",
    ["C16", "C18"],
    """RECORDS ARE READ BACK COMPLETELY AND BY THE RIGHT NAME: (a) every name bound by unpacking a tuple / record (`a, b, c = packed`,
    `for k, v in ...`) is read afterwards unless it starts with an underscore - the writer stored the field for a reason
    (FragmentWrapper.pack stores the partition expression and the file size; an unpack that drops one rebuilds a different
    fragment after pickling); (b) a module-level namedtuple is bound to the very name it carries (`X = namedtuple("X", ...)`),
    otherwise its instances - operands of expressions - cannot be pickled by reference.""",
)
def r16b(ctx):
    model = ctx.model
    n = 0
    for mod, cls, fn in model.all_functions():
        loads = set()
        for x in ast.walk(fn):
            if isinstance(x, ast.Name) and isinstance(x.ctx, (ast.Load, ast.Del)):
                loads.add(x.id)
        fq = qual(cls, fn) if cls is not None else f"{mod.name.split('.', 1)[-1]}.{fn.name}"
        for a in ast.walk(fn):
            tg = None
            if isinstance(a, ast.Assign) and len(a.targets) == 1 and isinstance(a.targets[0], (ast.Tuple, ast.List)):
                tg = a.targets[0]
            elif isinstance(a, (ast.For, ast.comprehension)) and isinstance(a.target, (ast.Tuple, ast.List)):
                tg = a.target
            if tg is None or len(tg.elts) < 2:
                continue
            for pos, top in enumerate(tg.elts):
              for e in ast.walk(top):
                if not isinstance(e, ast.Name):
                    continue
                n += 1
                if e.id.startswith("_") or e.id in loads:
                    continue
                cid = f"{fq}:unpacked:{pos}/{len(tg.elts)}"
                if (fq, pos, len(tg.elts)) in R16B_UNUSED_OK:
                    ctx.exempt(cid, mod.loc(e), R16B_UNUSED_OK[(fq, pos, len(tg.elts))])
                else:
                    ctx.bad(cid, mod.loc(e), f"`{e.id}` is unpacked from `{ast.unparse(tg)[:80]}` and never read: the field the writer stored is dropped on the way back")
    ctx.ok("unpacked names are read", "", f"{n} names bound by tuple unpacking")
    ctx.floor("names bound by tuple unpacking", n, 250)
    nt = 0
    for mod in model.modules.values():
        for st in mod.tree.body:
            if isinstance(st, ast.Assign) and len(st.targets) == 1 and isinstance(st.targets[0], ast.Name) and isinstance(st.value, ast.Call) and (dotted(st.value.func) or "").split(".")[-1] in ("namedtuple", "NamedTuple"):
                tn = st.value.args[0] if st.value.args else next((k.value for k in st.value.keywords if k.arg == "typename"), None)
                nt += 1
                cid = f"{mod.name.split('.', 1)[-1]}.{st.targets[0].id}:namedtuple-name"
                if isinstance(tn, ast.Constant) and tn.value == st.targets[0].id:
                    ctx.ok(cid, mod.loc(st), "typename equals the module attribute")
                else:
                    ctx.bad(cid, mod.loc(st), f"namedtuple `{ast.unparse(tn) if tn is not None else '?'}` is bound to the module name `{st.targets[0].id}`: pickle looks the class up as {mod.name}.{tn.value if isinstance(tn, ast.Constant) else '?'} and fails, so an expression holding such a value cannot be sent to another process")
    ctx.floor("module-level namedtuples", nt, 2)
