"""C13: repartitioning preserves rows and order and honours the requested layout - rejection / normalisation clauses."""
from __future__ import annotations

import ast

from sa import flow
from sa.model import AnalysisError, dotted, unparse
from sa.rules import LEVEL_TEXT, rule
from sa.rules.util import callee, closure_text, is_self_attr, iter_body_nodes

LEVEL_TEXT["C13"] = (
    "Decides only the rejection and normalisation clauses of C13: requests the input cannot satisfy are refused before any "
    "task is planned (range checks with and without force, unknown divisions); interpolated divisions are pinned to the "
    "input's first and last division unconditionally; partition boundary lists pass through the boundary normaliser; "
    "internal key namespaces of the repartition layers are determined by what their tasks depend on (R09d). "
    "Undecided: the boundary-slicing arithmetic of RepartitionDivisions._layer and count/size splitting (runtime "
    "division values - enumeration territory)."
)


@rule(
    "R13a",
    ["C13"],
    """REJECTION BEFORE PLANNING: in RepartitionDivisions._layer the four range checks (force: old first < new first, old last >
    new last; no force: old first != new first, old last != new last) each raise and all come before the first task is
    stored; a new-division list shorter than 2 is refused; Repartition._lower refuses target divisions on an input with
    unknown divisions before building RepartitionDivisions; in the interpolating 'more partitions' branch the first and
    last interpolated division are overwritten by the input's own first / last division unconditionally (not under a
    dtype test) before RepartitionDivisions is built.""",
)
def r13a(ctx):
    model = ctx.model
    rd = model.cls("RepartitionDivisions")
    fn = model.method(rd, "_layer", own=True).node
    defs = flow.Defs(fn)
    first_store = min((n.lineno for n in ast.walk(fn) if isinstance(n, ast.Subscript) and isinstance(n.ctx, ast.Store) and isinstance(n.slice, ast.Tuple)), default=None)
    if first_store is None:
        raise AnalysisError("anchor vanished: task stores in RepartitionDivisions._layer")
    found = {}
    for p in flow.walk(fn):
        if not isinstance(p.stmt, ast.Raise):
            continue
        terms = []
        for t, pol in flow.facts(p):
            x = defs.expand(t, at=p.stmt)
            terms.append((ast.unparse(x), pol))
        force = next((pol for s, pol in terms if s in ("self.force", "force")), None)
        for s, pol in terms:
            if not pol:
                continue
            key = None
            if s == "self.frame.divisions[0] < self.new_divisions[0]" and force is True:
                key = "force:left"
            elif s == "self.frame.divisions[-1] > self.new_divisions[-1]" and force is True:
                key = "force:right"
            elif s == "self.frame.divisions[0] != self.new_divisions[0]" and force is False:
                key = "exact:left"
            elif s == "self.frame.divisions[-1] != self.new_divisions[-1]" and force is False:
                key = "exact:right"
            elif s == "len(self.new_divisions) < 2":
                key = "min-length"
            if key:
                found[key] = p.stmt
    for key, why in (
        ("force:left", "forced extension whose new first division lies above the old one would drop leading rows"),
        ("force:right", "forced extension whose new last division lies below the old one would drop trailing rows"),
        ("exact:left", "without force the new first division must equal the old one"),
        ("exact:right", "without force the new last division must equal the old one"),
        ("min-length", "a division list needs at least two entries"),
    ):
        cid = f"_repartition.RepartitionDivisions._layer:reject:{key}"
        st = found.get(key)
        if st is None:
            ctx.bad(cid, rd.module.loc(fn), f"the rejection `{key}` is gone or its comparison changed: {why}; the request is now planned instead of refused")
        elif st.lineno > first_store:
            ctx.bad(cid, rd.module.loc(st), "the rejection is raised only after tasks have been planned")
        else:
            ctx.ok(cid, rd.module.loc(st), "raises before the first task is stored")

    rp = model.cls("Repartition", "_repartition")
    lo = model.method(rp, "_lower", own=True).node
    ctors = [c for c in ast.walk(lo) if isinstance(c, ast.Call) and dotted(c.func) == "RepartitionDivisions"]
    if len(ctors) < 2:
        raise AnalysisError("anchor vanished: RepartitionDivisions constructions in Repartition._lower")
    for c in ctors:
        p = flow.point_of(lo, c)
        facts = [(ast.unparse(t), pol) for t, pol in flow.facts(p)]
        if any(s == "self.new_divisions" and pol for s, pol in facts):
            good = any(s == "self.frame.divisions[0] is None" and not pol for s, pol in facts)
            (ctx.ok if good else ctx.bad)("_repartition.Repartition._lower:unknown-divisions", rp.module.loc(c), "unknown input divisions are refused before planning" if good else "RepartitionDivisions is built for target divisions without first refusing an input whose divisions are unknown")
        else:
            # interpolated branch: endpoints pinned unconditionally
            pinned = {"first": False, "last": False}
            for st in p.preceding:
                if isinstance(st, ast.Assign) and len(st.targets) == 1 and isinstance(st.targets[0], ast.Subscript):
                    tgt, val = ast.unparse(st.targets[0]), ast.unparse(st.value)
                    if tgt.endswith("[0]") and val.endswith(".divisions[0]"):
                        pinned["first"] = True
                    if tgt.endswith("[-1]") and val.endswith(".divisions[-1]"):
                        pinned["last"] = True
            if not all(pinned.values()):
                # the interpolation may live in a helper: look at the helper whose result is handed to the constructor
                ldefs = flow.Defs(lo)
                for a in c.args[1:2]:
                    v = ldefs.single_value(a.id, c) if isinstance(a, ast.Name) else a
                    if isinstance(v, ast.Call):
                        t = callee(model, rp.module, rp, v)
                        if t is not None:
                            pinned = _pinned_in(t[2])
            good = all(pinned.values())
            (ctx.ok if good else ctx.bad)("_repartition.Repartition._lower:pin-endpoints", rp.module.loc(c), "interpolated divisions are pinned to the input's first and last division on every path" if good else f"the interpolated divisions are not pinned to the input's own {[k for k, v in pinned.items() if not v]} division on every path (e.g. only under a dtype test): float round trips (datetime64 -> float64 -> datetime64) then move the outer boundaries and a satisfiable request is rejected or rows fall outside")


def _pinned_in(fn):
    """top-level (unconditional) statements of fn that overwrite x[0] / x[-1] with <frame>.divisions[0] / [-1]"""
    pinned = {"first": False, "last": False}
    for st in fn.body:
        if isinstance(st, ast.Assign) and len(st.targets) == 1 and isinstance(st.targets[0], ast.Subscript):
            tgt, val = ast.unparse(st.targets[0]), ast.unparse(st.value)
            if tgt.endswith("[0]") and val.endswith(".divisions[0]"):
                pinned["first"] = True
            if tgt.endswith("[-1]") and val.endswith(".divisions[-1]"):
                pinned["last"] = True
    return pinned


@rule(
    "R13b",
    ["C13"],
    """BOUNDARY NORMALISATION: every partition-boundary list that is turned into concat ranges (RepartitionToFewer._partitions_boundaries,
    RepartitionSize._partition_boundaries) is returned through _clean_new_division_boundaries, which forces the first boundary to 0
    and the last to the input's partition count; RepartitionToMore._nsplits adds the remainder so the splits sum to the
    requested count.""",
)
def r13b(ctx):
    model = ctx.model
    normalisers = {}
    for cname, attr in (("RepartitionToFewer", "_partitions_boundaries"), ("RepartitionSize", "_partition_boundaries")):
        c = model.cls(cname)
        fn = model.method(c, attr, own=True).node
        rets = [r.value for r in ast.walk(fn) if isinstance(r, ast.Return) and r.value is not None]
        good = bool(rets)
        for r in rets:
            t = callee(model, c.module, c, r) if isinstance(r, ast.Call) else None
            if t is None or len(r.args) != 2 or "npartitions" not in ast.unparse(r.args[1]):
                good = False
            else:
                normalisers[id(t[2])] = t
        (ctx.ok if good else ctx.bad)(f"_repartition.{cname}.{attr}", c.module.loc(fn), "boundaries returned through the normaliser (boundaries, input partition count)" if good else f"{cname}.{attr} returns boundaries without passing them through the boundary normaliser with the input's partition count: trailing input partitions can be left out of every output range")
    if not normalisers:
        raise AnalysisError("anchor vanished: boundary normaliser of the repartition layers")
    for mod, _, fn in normalisers.values():
        t = ast.unparse(fn)
        a = [x.arg for x in fn.args.args]
        good = "insert(0, 0)" in t and len(a) == 2 and f"[-1] = {a[1]}" in t
        (ctx.ok if good else ctx.bad)(f"_repartition.{fn.name}", mod.loc(fn), "forces first boundary 0 and last boundary = partition count" if good else "the boundary normaliser no longer forces the first boundary to 0 and the last to the partition count")
    tm = model.cls("RepartitionToMore")
    ns = model.method(tm, "_nsplits", own=True).node
    from sa.rules.util import pfind

    good = False
    nsdefs = flow.Defs(ns)
    for a, b in pfind("(V_div, V_mod) = divmod(self.new_partitions, V_n)", ns):
        n_x = ast.unparse(nsdefs.expand(a.value.args[1], at=a))
        base = pfind("V_ns = [V_div] * V_m", ns, {"V_div": b["V_div"]})
        for _, b2 in base:
            rest = pfind("V_ns[-1] += V_mod", ns, {"V_ns": b2["V_ns"], "V_mod": b["V_mod"]})
            good = good or (n_x == "self.frame.npartitions" and bool(rest))
    (ctx.ok if good else ctx.bad)("_repartition.RepartitionToMore._nsplits", tm.module.loc(ns), "splits sum to the requested partition count (remainder added)" if good else "RepartitionToMore._nsplits no longer distributes new_partitions as div per partition plus the remainder: the output has a different partition count than reported")


@rule(
    "R13c",
    ["C13"],
    """A REPARTITION BY DIVISIONS OR FREQUENCY IS ONLY A NO-OP WHEN THE DIVISIONS AGREE: returning the input unchanged (`return self.frame`)
    from a repartitioning operator that was asked for a LAYOUT (RepartitionFreq, RepartitionDivisions - the heirs of Repartition whose
    parameters carry no partition count) is sound only under a test that compares divisions; an equal partition COUNT says nothing
    about where the boundaries are (4 daily partitions are not 4 partitions split at week starts). The count-based request
    (`new_partitions == frame.npartitions`) is the one place where the count suffices.""",
)
def r13c(ctx):
    model = ctx.model
    base = model.cls("Repartition", "_repartition")
    n = 0
    for c in model.subclasses(base, strict=True):
        try:
            params = model.parameters(c)
        except Exception:  # noqa: BLE001
            continue
        if "new_partitions" in params:
            continue
        for mname in ("_lower", "_simplify_down"):
            mem = c.members.get(mname)
            if mem is None or mem.kind == "attr":
                continue
            fn = mem.node
            for p in flow.returns(fn):
                v = p.stmt.value
                if v is None or ast.unparse(v) != "self.frame":
                    continue
                n += 1
                cid = f"{c.qual}.{mname}:returns-input"
                facts = [ast.unparse(t) for t, pol in flow.facts(p) if pol]
                if any(isinstance(t, ast.Compare) and isinstance(t.ops[0], ast.Eq) and "divisions" in ast.unparse(t) for t, pol in flow.facts(p) if pol):
                    ctx.ok(cid, c.module.loc(p.stmt), "the input is returned unchanged only when its divisions are the requested ones")
                else:
                    ctx.bad(cid, c.module.loc(p.stmt), f"{c.qual}.{mname} returns its input unchanged under {facts or 'no condition'}: the request is a layout (divisions / a frequency), and a matching partition count does not make the boundaries match - the result keeps the input's divisions while the node reports the requested ones")
    ctx.ok("layout-repartitions-scanned", "", f"{n} identity returns in layout-based repartitions")
