"""C04: column pruning never changes a result - structural clauses (with R01a / R01d from r01.py)."""
from __future__ import annotations

import ast

from sa import flow
from sa.model import AnalysisError, dotted, names_in, unparse
from sa.rules import rule
from sa.rules.util import REWRITE_METHODS, is_self_attr, iter_body_nodes, own_methods, qual, reads_of_self


def _top_loop(node, fn):
    """outermost For/While of fn that contains node (None if not in a loop)"""
    top = None
    p = getattr(node, "_parent", None)
    while p is not None and p is not fn:
        if isinstance(p, (ast.For, ast.While)):
            top = p
        p = getattr(p, "_parent", None)
    return top


@rule(
    "R04a",
    ["C04", "C01"],
    """DUPLICATE-FREE PROJECTION LISTS: in every rewrite rule, a local list that starts empty, is filled by .append from two
    or more separate loops and is then used as a column selection (X[list] / Projection(X, list)) must guard every
    append outside its first loop with a `not in` test on that list (or an `if item in list: continue`). Selecting a
    column twice yields duplicated columns in the pruned input and in the result.""",
)
def r04a(ctx):
    model = ctx.model
    n = 0
    fns = []
    for mname in REWRITE_METHODS:
        fns += [(c, c.module, m.node) for c, m in own_methods(model, mname)]
    for modname, fname in (("_expr", "plain_column_projection"), ("_expr", "determine_column_projection"), ("_groupby", "groupby_projection")):
        mod, fn = model.func(modname, fname)
        fns.append((None, mod, fn))
    for c, mod, fn in fns:
        fq = qual(c, fn) if c is not None else f"{mod.name.split('.', 1)[-1]}.{fn.name}"
        # empty-list locals
        lists = set()
        for node in iter_body_nodes(fn):
            if isinstance(node, ast.Assign):
                tg, val = node.targets[0], node.value
                pairs = []
                if isinstance(tg, ast.Name):
                    pairs = [(tg, val)]
                elif isinstance(tg, ast.Tuple) and isinstance(val, ast.Tuple) and len(tg.elts) == len(val.elts):
                    pairs = list(zip(tg.elts, val.elts))
                for t, v in pairs:
                    if isinstance(t, ast.Name) and isinstance(v, ast.List) and not v.elts:
                        lists.add(t.id)
        for L in sorted(lists):
            appends = [x for x in iter_body_nodes(fn) if isinstance(x, ast.Call) and isinstance(x.func, ast.Attribute) and x.func.attr == "append" and isinstance(x.func.value, ast.Name) and x.func.value.id == L and len(x.args) == 1]
            used_as_selection = any(
                (isinstance(x, ast.Subscript) and isinstance(x.slice, ast.Name) and x.slice.id == L and isinstance(x.ctx, ast.Load))
                or (isinstance(x, ast.Call) and dotted(x.func) == "Projection" and len(x.args) > 1 and isinstance(x.args[1], ast.Name) and x.args[1].id == L)
                for x in iter_body_nodes(fn)
            )
            if not appends or not used_as_selection:
                continue
            loops = []
            for a in appends:
                tl = _top_loop(a, fn)
                if tl is not None and tl not in loops:
                    loops.append(tl)
            loops.sort(key=lambda l: l.lineno)
            if len(loops) < 2:
                continue
            n += 1
            cid = f"{fq}:accumulator:{L}"
            bad = None
            for a in appends:
                tl = _top_loop(a, fn)
                if tl is loops[0]:
                    continue
                p = flow.point_of(fn, a)
                item = ast.unparse(a.args[0])
                guarded = any(
                    isinstance(t, ast.Compare)
                    and len(t.ops) == 1
                    and ast.unparse(t.comparators[0]) == L
                    and ast.unparse(t.left) == item
                    and ((isinstance(t.ops[0], ast.NotIn) and pol) or (isinstance(t.ops[0], ast.In) and not pol))
                    for t, pol in flow.facts(p)
                )
                if not guarded:
                    bad = a
                    break
            if bad is None:
                ctx.ok(cid, mod.loc(appends[0]), f"filled from {len(loops)} loops, later appends guarded by `not in {L}`")
            else:
                ctx.bad(cid, mod.loc(bad), f"`{ast.unparse(bad)}` adds to the column selection `{L}` from a second loop without checking `not in {L}`: a column required twice (e.g. through both suffixed names) is selected twice and the pruned input / result carries duplicated columns")
    ctx.floor("multi-loop selection accumulators", n, 1)


# classes confirmed safe for the generic pass-through (non-frame operands are column-agnostic, or pandas ignores keys
# of columns that are absent)
R04B_ALLOWED = {
    "_cumulative.CumulativeBlockwise": "column-wise",
    "_cumulative.TakeLast": "column-wise",
    "_expr._DeepCopy": "copy",
    "_expr.Clip": "bounds are scalars / aligned series (own rule handles the rest)",
    "_expr.ArrowStringConversion": "column-wise",
    "_expr.ToTimestamp": "index only",
    "_expr.IsNa": "column-wise",
    "_expr.Mask": "cond/other are aligned on the index and on the frame's columns (a single-column selection narrows them too, see plain_column_projection)",
    "_expr.Where": "cond/other are aligned on the index and on the frame's columns (a single-column selection narrows them too, see plain_column_projection)",
    "_expr.Abs": "column-wise",
    "_expr.RenameAxis": "axis names only",
    "_expr.NotNull": "column-wise",
    "_expr.Map": "series only",
    "_expr.Filter": "predicate is an expression (own rule)",
    "_expr.FillnaCheck": "column-wise check",
    "_expr.FillnaAlign": "as Fillna",
    "_expr.FilterAlign": "as Filter",
    # OpAlignPartitions / MethodOperatorAlign were listed here as "operands are expressions" - wrongly: the result has the
    # union of both inputs' columns, the generic pass-through prunes only the first (defect repaired in /repo, the classes
    # now have a rule of their own that prunes both inputs)
    "_shuffle.SortIndexBlockwise": "index only",
}
R04B_COMPUTED = {
    "_expr.Replace": "flag is a property: False whenever to_replace / value are dict-like (possibly keyed by columns)",
    # these three were in the table above with "pandas ignores keys of absent columns" - wrong for a single selected column: the
    # frame becomes a Series and the keys mean index labels (defect repaired in /repo)
    "_expr.Fillna": "flag is a property: False for dict / Series / expression values",
    "_expr.Isin": "flag is a property: False for a dict of per-column values",
    "_expr.Round": "flag is a property: False for dict / Series decimals",
}


@rule(
    "R04b",
    ["C04", "C01"],
    """GENERIC PASS-THROUGH ALLOW-LIST: `_projection_passthrough` hands a class to plain_column_projection, which prunes the
    frame without looking at the other operands. It may be True only on classes whose non-frame operands were
    confirmed column-agnostic; a class whose operands are keyed by column labels (dict of per-column values, list of
    labels) must write its own rule that protects those columns. The base default stays False.""",
)
def r04b(ctx):
    model = ctx.model
    bw = model.cls("Blockwise")
    if model.flag(bw, "_projection_passthrough", default=None) is not False:
        ctx.bad("_expr.Blockwise._projection_passthrough", bw.loc, "the Blockwise default is no longer False")
    else:
        ctx.ok("_expr.Blockwise._projection_passthrough", bw.loc, "default False")
    # the helper itself: a single-column selection turns the frame into a Series, so frame-like operands must be narrowed too
    from sa.rules.util import pfind

    pmod, pcp = model.func("_expr", "plain_column_projection")
    cu = None
    for a_, b_ in pfind("V_cu = determine_column_projection(V__, V__, V__, additional_columns=V__)", pcp):
        cu = b_["V_cu"]
    if cu is None:
        raise AnalysisError("anchor vanished: column union of plain_column_projection")
    narrowed = False
    for comp in (x for x in ast.walk(pcp) if isinstance(x, (ast.ListComp, ast.GeneratorExp))):
        if pfind(f"V_op[{cu}]", comp.elt) and "operands" in ast.unparse(comp.generators[0].iter):
            pt = flow.point_of(pcp, comp)
            if pt is not None and any((not pol) and ast.unparse(t) == f"isinstance({cu}, list)" for t, pol in flow.facts(pt)):
                narrowed = True
    (ctx.ok if narrowed else ctx.bad)("_expr.plain_column_projection:single-column", pmod.loc(pcp), "a single-column selection also narrows the frame-like operands" if narrowed else "a single-column selection turns only the first operand into a Series: row-aligned frame operands (cond / other of where and mask, a frame of fill values) stay DataFrames and the rebuilt operation fails or mis-aligns")
    n = 0
    for c in model.expr_classes():
        mem = c.provider("_projection_passthrough")
        if mem is None:
            continue
        cid = f"{c.qual}._projection_passthrough"
        if mem.kind != "attr":
            if c.qual in R04B_COMPUTED:
                # the reason is checked, not taken on trust: the property must turn the flag off for dict-like operands
                from sa.rules.util import closure_text

                body = closure_text(model, c.module, c, mem.node, depth=1)
                if "dict" in body and "isinstance" in body:
                    ctx.exempt(cid, c.loc, R04B_COMPUTED[c.qual])
                else:
                    ctx.bad(cid, c.module.loc(mem.node), f"{c.qual}._projection_passthrough is computed but no longer tests its operands for dict-like (column-keyed) values: {R04B_COMPUTED[c.qual]}")
            else:
                ctx.unclassified(cid, c.loc, "flag is computed")
            continue
        v = model.flag(c, "_projection_passthrough", default=None)
        if v is not True:
            continue
        n += 1
        if c.qual in R04B_ALLOWED:
            ctx.ok(cid, c.loc, R04B_ALLOWED[c.qual])
        else:
            ctx.bad(cid, mem.cls.module.loc(mem.node), f"{c.qual} uses the generic projection pass-through (flag set in {mem.cls.qual}) but is not in the confirmed column-agnostic table: operands that refer to columns by label break once the frame is pruned (KeyError / silently different result)")
    ctx.floor("classes with _projection_passthrough=True", n, 15)


KEY_PARAMS = {"by", "subset", "_other", "partitioning_index", "left_on", "right_on", "column", "_columns", "left_by", "right_by"}
R04C_EXCEPTIONS = {}


def _handles_projection(model, c, su):
    txt = ast.unparse(su.node)
    if "Projection" not in txt and "plain_column_projection" not in txt and "groupby_projection" not in txt:
        return False
    if su.cls.name == "Blockwise" and su.name == "_simplify_up":
        return model.flag(c, "_projection_passthrough", default=False) is True
    if su.cls.name == "Elemwise" and su.name == "_simplify_up":
        return model.flag(c, "_projection_passthrough", default=False) is True
    return True


@rule(
    "R04c",
    ["C04", "C01"],
    """IMPLICIT KEY COLUMNS: a class that has a parameter naming columns its operation needs (by, subset, _other,
    partitioning_index, left_on / right_on, column, _columns, left_by / right_by) and whose projection rule
    (_simplify_up / _simplify_down handling Projection parents) prunes its frame must read that parameter in the rule
    (to pass it as additional_columns or test membership); a rule that never looks at the key parameter prunes the
    key column away.""",
)
def r04c(ctx):
    model = ctx.model
    n = 0
    for c in model.expr_classes():
        try:
            params = model.parameters(c)
        except AnalysisError:
            continue
        keys = [p for p in params if p in KEY_PARAMS]
        if not keys:
            continue
        rules_ = []
        for mname in ("_simplify_up", "_simplify_down"):
            su = c.provider(mname)
            if su is None or su.cls is model.core_expr or su.kind == "attr":
                continue
            if _handles_projection(model, c, su):
                rules_.append(su)
        if not rules_:
            continue
        n += 1
        for k in keys:
            cid = f"{c.qual}:key-column:{k}"
            # forwarding every parameter through the generic kwargs / operands properties (to rebuild the node) is not
            # "consulting the key": those members are not followed
            skip = {id(c.provider(nm).node) for nm in ("kwargs", "_kwargs", "_args") if c.provider(nm) is not None and c.provider(nm).kind != "attr"}
            if any(k in reads_of_self(model, c, su.node, depth=3, _seen=set(skip)) for su in rules_):
                ctx.ok(cid, c.loc, "projection rule consults the key parameter")
            elif (c.qual, k) in R04C_EXCEPTIONS:
                ctx.exempt(cid, c.loc, R04C_EXCEPTIONS[(c.qual, k)])
            else:
                su = rules_[0]
                ctx.bad(cid, su.cls.module.loc(su.node), f"{c.qual} needs the column(s) named by `{k}`, but its projection rule ({su.cls.qual}.{su.name}) never reads that parameter: a projection that does not select the key prunes it from the input (KeyError or wrong result)")
    ctx.floor("classes with key parameters and a projection rule", n, 20)


@rule(
    "R04f",
    ["C04"],
    """LABEL ARITHMETIC: str.strip / lstrip / rstrip with a non-literal or multi-character argument removes a SET of
    characters, not a prefix / suffix; in rewrite rules and the helpers that map result labels back to input labels
    (_convert_columns ...) prefixes and suffixes must be removed by slicing / removeprefix / removesuffix.""",
)
def r04f(ctx):
    model = ctx.model
    n = 0
    for c in model.expr_classes():
        for m in model.functions_of(c):
            fn = m.node
            for call in (x for x in iter_body_nodes(fn) if isinstance(x, ast.Call)):
                f = call.func
                if isinstance(f, ast.Attribute) and f.attr in ("strip", "lstrip", "rstrip") and call.args:
                    a = call.args[0]
                    single = isinstance(a, ast.Constant) and isinstance(a.value, str) and len(a.value) <= 1
                    n += 1
                    cid = f"{qual(c, fn)}:{f.attr}"
                    if single:
                        ctx.ok(cid, c.module.loc(call))
                    else:
                        ctx.bad(cid, c.module.loc(call), f"`{ast.unparse(call)}` strips every leading/trailing character that occurs in the argument, not the prefix/suffix itself: a label like 'idx' with prefix 'id_' maps back to 'x', so the projection asks the input for the wrong / a missing column")
            if fn.name == "_convert_columns":
                # positive obligation: label mapping slices by the length of the affix
                txt = ast.unparse(fn)
                n += 1
                cid = f"{qual(c, fn)}:slice-by-length"
                sl = [x for x in ast.walk(fn) if isinstance(x, ast.Subscript) and isinstance(x.slice, ast.Slice)]
                uses_len = "len(self.prefix)" in txt or "len(self.suffix)" in txt or "removeprefix" in txt or "removesuffix" in txt
                if (sl and uses_len) or "removeprefix" in txt or "removesuffix" in txt:
                    ctx.ok(cid, c.module.loc(fn), "affix removed by length")
                else:
                    ctx.bad(cid, c.module.loc(fn), f"{qual(c, fn)} does not remove the prefix / suffix by slicing with its length (or removeprefix/removesuffix): result labels are mapped back to the wrong input labels")
    ctx.floor("label-arithmetic sites", n, 2)


@rule(
    "R04g",
    ["C04", "C18", "C07", "C01"],
    """ABSORBED SELECTION IS IN SOURCE ORDER: where a source absorbs a projection (substitute_parameters({'columns': X}) in the
    _simplify_up of BlockwiseIO / ReadParquet / ...), X must list the SOURCE's columns in source order - a
    comprehension iterating self.columns and filtering by the requested set - because readers such as read_csv return
    the selected columns in file order whatever order is requested; and the absorbing rule must skip when nothing
    is pruned and re-apply the parent's selection on top unless it equals the absorbed list.""",
)
def r04g(ctx):
    model = ctx.model
    n = 0
    for c, m in own_methods(model, "_simplify_up"):
        fn = m.node
        defs = flow.Defs(fn)
        for call in (x for x in iter_body_nodes(fn) if isinstance(x, ast.Call)):
            if not (isinstance(call.func, ast.Attribute) and call.func.attr == "substitute_parameters" and is_self_attr(call.func.value) is False and isinstance(call.func.value, ast.Name) and call.func.value.id == "self"):
                continue
            arg = call.args[0] if call.args else None
            if isinstance(arg, ast.Name):
                arg = defs.single_value(arg.id, call) or arg
            if not isinstance(arg, ast.Dict):
                continue
            for k, v in zip(arg.keys, arg.values):
                if not (isinstance(k, ast.Constant) and k.value == "columns"):
                    continue
                n += 1
                cid = f"{qual(c, fn)}:absorbed-columns#{n}"
                vv = v
                if isinstance(vv, ast.Name):
                    ds = [d for d in defs.reaching(vv.id, call) if d.value is not None]
                    comps = [d.value for d in ds if isinstance(d.value, ast.ListComp)]
                    last = max(ds, key=lambda d: getattr(d.stmt, "lineno", 0)).value if ds else None
                    vv = last if last is not None else vv
                if isinstance(vv, ast.ListComp) and ast.unparse(vv.generators[0].iter) == "self.columns":
                    ctx.ok(cid, c.module.loc(call), "source order: iterates self.columns")
                else:
                    ctx.bad(cid, c.module.loc(call), f"columns absorbed into the source are `{ast.unparse(vv)[:100]}`, not a filter over self.columns: the list follows the order of the request (sorted union of all consumers), while readers like read_csv deliver file order, so labels and data order can disagree with the declared schema")
    ctx.floor("absorbing projection sites", n, 2)


@rule(
    "R04h",
    ["C04", "C01"],
    """PRUNING ONLY BELOW A SELECTION: `determine_column_projection(self, parent, dependents)` answers "which of MY OUTPUT columns do
    my consumers need" by looking at the consumers' own column lists when they are not selections. A rewrite rule that prunes its
    input with that answer (directly or through plain_column_projection / groupby_projection) is only valid when the parent IS a
    column selection (Projection, or Index for the empty selection): under any other parent the labels are those of the parent's
    output (renamed, suffixed, merged) and the rule drops columns that are still needed.""",
)
def r04h(ctx):
    model = ctx.model
    HELPERS = ("determine_column_projection", "plain_column_projection", "groupby_projection")
    n = 0
    for c, m in own_methods(model, "_simplify_up"):
        fn = m.node
        par = fn.args.args[1].arg if len(fn.args.args) > 1 else "parent"
        for call in (x for x in iter_body_nodes(fn) if isinstance(x, ast.Call) and (dotted(x.func) or "").split(".")[-1] in HELPERS):
            # only calls about this parent
            if not any(isinstance(a, ast.Name) and a.id == par for a in call.args):
                continue
            n += 1
            pt = flow.point_of(fn, call)
            ok = False
            if pt is not None:
                for t, pol in flow.facts(pt):
                    if pol and isinstance(t, ast.Call) and dotted(t.func) == "isinstance" and len(t.args) == 2 and isinstance(t.args[0], ast.Name) and t.args[0].id == par:
                        kinds = {dotted(e) for e in (t.args[1].elts if isinstance(t.args[1], ast.Tuple) else [t.args[1]])}
                        if kinds & {"Projection", "Index", "expr.Projection"}:
                            ok = True
            if not ok:
                # the helper itself may hold the guard: every non-None return of it sits under isinstance(parent, Projection)
                hname = (dotted(call.func) or "").split(".")[-1]
                if hname != "determine_column_projection":
                    try:
                        hmod, hfn = model.func("_expr" if hname == "plain_column_projection" else "_groupby", hname)
                        hpar = hfn.args.args[1].arg
                        rets = [p_ for p_ in flow.returns(hfn) if p_.stmt.value is not None and not (isinstance(p_.stmt.value, ast.Constant) and p_.stmt.value.value is None)]
                        ok = bool(rets) and all(any(pol and isinstance(t, ast.Call) and dotted(t.func) == "isinstance" and isinstance(t.args[0], ast.Name) and t.args[0].id == hpar and {dotted(e) for e in (t.args[1].elts if isinstance(t.args[1], ast.Tuple) else [t.args[1]])} & {"Projection", "Index"} for t, pol in flow.facts(p_)) for p_ in rets)
                    except AnalysisError:
                        ok = False
            cid = f"{qual(c, fn)}:{(dotted(call.func) or '').split('.')[-1]}@{_ordinal(fn, call)}"
            if ok:
                ctx.ok(cid, c.module.loc(call), "under isinstance(parent, Projection / Index)")
            else:
                ctx.bad(cid, c.module.loc(call), f"{qual(c, fn)} computes / applies a column pruning for ANY kind of parent: under a consumer that is not a selection (rename, add_suffix, merge ...) the requested labels are those of the consumer's output and columns that are still needed are dropped from the input")
    ctx.floor("pruning sites in _simplify_up rules", n, 35)


def _ordinal(fn, call):
    xs = sorted((x for x in iter_body_nodes(fn) if isinstance(x, ast.Call)), key=lambda x: (x.lineno, x.col_offset))
    return next(i for i, x in enumerate(xs) if x is call)


# ---------------------------------------------------------------------------------------------
# R04i
# ---------------------------------------------------------------------------------------------


def _def_chain(defs, name, node, seen=None, depth=0):
    seen = seen if seen is not None else set()
    out = []
    if depth > 6:
        return out
    for d in defs.reaching(name, node):
        if d.value is None or id(d.value) in seen:
            continue
        seen.add(id(d.value))
        out.append(d.value)
        for x in ast.walk(d.value):
            if isinstance(x, ast.Name) and isinstance(x.ctx, ast.Load):
                out += _def_chain(defs, x.id, d.value, seen, depth + 1)
    return out


def _restricts_to_columns_of(node, bases, subjects):
    """does ``node`` contain `[v for v in B.columns if v in <subject>]` or `<subject> in B.columns` for a B in bases, where
    <subject> is the requested-columns value (one of the locals it flows through, or the helper call itself)"""

    def about(e):
        return "determine_column_projection(" in ast.unparse(e) or any(isinstance(y, ast.Name) and y.id in subjects for y in ast.walk(e))

    for x in ast.walk(node):
        if isinstance(x, (ast.ListComp, ast.SetComp, ast.GeneratorExp)):
            g = x.generators[0]
            it = ast.unparse(g.iter)
            if any(it in (f"{b}.columns", f"list({b}.columns)") for b in bases) and any(about(i) for i in g.ifs):
                return True
        if isinstance(x, ast.Compare) and isinstance(x.ops[0], (ast.In, ast.NotIn)) and about(x.left):
            cmp_ = ast.unparse(x.comparators[0])
            if any(cmp_ in (f"{b}.columns", f"set({b}.columns)", f"list({b}.columns)") for b in bases):
                return True
    return False


@rule(
    "R04i",
    ["C04"],
    """PRUNED INPUT ONLY ASKED FOR COLUMNS IT HAS: the answer of determine_column_projection is the union of what ALL registered
    consumers read from this node - including consumers that add or relabel columns (assign, merge, rename, add_prefix) and were just
    rewritten around it in the same pass, whose labels do not exist in the node's input. Every `X[cols]` built from that answer must
    first be restricted to X's own columns (`[c for c in X.columns if c in cols]`, or a `cols in X.columns` test for a single label);
    otherwise df.set_index('a').assign(z=1)[['z', 'x']] asks the source for 'z' and the optimizer raises KeyError.""",
)
def r04i(ctx):
    model = ctx.model
    n = 0
    for mod, cls, fn in model.all_functions():
        if fn.name == "determine_column_projection" or "determine_column_projection(" not in ast.unparse(fn):
            continue
        defs = flow.Defs(fn)
        fq = qual(cls, fn) if cls is not None else f"{mod.name.split('.', 1)[-1]}.{fn.name}"
        k = 0
        for node in ast.walk(fn):
            if not (isinstance(node, ast.Subscript) and isinstance(node.ctx, ast.Load) and isinstance(node.slice, ast.Name)):
                continue
            p = flow.point_of(fn, node)
            if p is None:
                continue
            chain = _def_chain(defs, node.slice.id, node)
            if not any("determine_column_projection(" in ast.unparse(v) for v in chain):
                continue
            base = ast.unparse(node.value)
            bases = {base}
            if isinstance(node.value, ast.Name):
                bases |= {ast.unparse(v) for v in _def_chain(defs, node.value.id, node)[:3]}
            n += 1
            k += 1
            cid = f"{fq}:prune-input:{base}[{node.slice.id}]"
            subjects = {node.slice.id}
            for st in ast.walk(fn):
                if isinstance(st, ast.Assign) and any(st.value is v for v in chain):
                    subjects |= {t.id for t in st.targets if isinstance(t, ast.Name)}
            where = list(chain) + [t for t, pol in flow.facts(p) if pol]
            q = getattr(node, "_parent", None)
            while q is not None and not isinstance(q, ast.stmt):
                if isinstance(q, ast.IfExp):
                    where.append(q.test)
                q = getattr(q, "_parent", None)
            if any(_restricts_to_columns_of(w, bases, subjects) for w in where):
                ctx.ok(cid, mod.loc(node), f"`{node.slice.id}` is restricted to the columns of {base}")
            else:
                ctx.bad(cid, mod.loc(node), f"`{ast.unparse(node)}` selects the union of all consumers' requests from the input without restricting it to {base}.columns: a consumer that adds or relabels columns above this node (assign / merge / rename / add_prefix) makes the optimizer ask the input for labels it does not have (KeyError in an optimizable query)")
    ctx.floor("input projections built from determine_column_projection", n, 18)


# ---------------------------------------------------------------------------------------------
# R04j
# ---------------------------------------------------------------------------------------------

# parameters (other than the frame) whose VALUE names columns of the frame; confirmed by reading each class
R04J_LABEL_PARAMS = {
    "_slice": "columns selected from a groupby",
    "groupby_slice": "columns selected from a groupby (rolling)",
    "groupby_kwargs": "holds the groupby keys (rolling)",
    "subset": "columns compared by dropna / drop_duplicates",
    "_columns": "ordering columns of nlargest / nsmallest / nfirst / nlast",
    "by": "sort keys",
    "_other": "set_index key",
    "other": "set_index key (presorted) / second frame",
    "partitioning_index": "shuffle keys",
    "left_on": "merge keys",
    "right_on": "merge keys",
    "left_by": "merge_asof group keys",
    "right_by": "merge_asof group keys",
    "dtypes": "astype mapping keyed by column",
    "columns": "rename mapping / new labels",
    "categories": "categorize mapping keyed by column",
    "column": "assigned label",
}


@rule(
    "R04j",
    ["C04"],
    """FORWARDED LABEL PARAMETERS FOLLOW THE PRUNED FRAME: a rule that prunes its input (`X.frame[cols]` from
    determine_column_projection) and forwards the remaining operands unchanged (`*X.operands[1:]`) is inherited by / called for a
    family of classes. Every parameter of such a class whose value NAMES COLUMNS of the frame (confirmed table: _slice,
    groupby_slice, subset, by, _other, left_on, ...) must be read by the rule or its helpers - to keep those columns or to narrow
    the parameter - otherwise the rebuilt node asks the pruned frame for a column that was just dropped:
    df.groupby('g')[['x', 'y']].sum()['y'] raised KeyError.""",
)
def r04j(ctx):
    import re as _re

    from sa.rules.util import closure_functions

    model = ctx.model
    seen = set()
    n = 0
    for mod, cls, fn in model.all_functions():
        if fn.name == "determine_column_projection" or "determine_column_projection(" not in ast.unparse(fn):
            continue
        fdefs = flow.Defs(fn)

        def _forwards(x):
            if "operands[" in ast.unparse(x.value):
                return True
            return isinstance(x.value, ast.Name) and any("operands[" in ast.unparse(v) for v in _def_chain(fdefs, x.value.id, x))

        if not any(isinstance(x, ast.Starred) and _forwards(x) for x in ast.walk(fn)):
            continue
        if cls is not None:
            heirs = [k for k in model.subclasses(cls) if k.provider(fn.name) is not None and k.provider(fn.name).cls is cls]
        else:
            heirs = []
            for k in model.expr_classes():
                pv = k.provider("_simplify_up")
                if pv is None or pv.kind == "attr":
                    continue
                calls = [c for c in ast.walk(pv.node) if isinstance(c, ast.Call) and isinstance(c.func, ast.Name) and c.func.id == fn.name]
                if not calls:
                    continue
                # a call made only under `self._projection_passthrough` is not reached by classes that switch the flag off
                gated = all(any(pol and "._projection_passthrough" in ast.unparse(t) for t, pol in flow.facts(flow.point_of(pv.node, c))) for c in calls if flow.point_of(pv.node, c) is not None)
                if gated and model.attr_kind(k, "_projection_passthrough")[0] == "attr" and model.flag(k, "_projection_passthrough", default=None) is False:
                    continue
                heirs.append(k)
        fq = qual(cls, fn) if cls is not None else f"{mod.name.split('.', 1)[-1]}.{fn.name}"
        for k in heirs:
            try:
                params = model.parameters(k)
            except Exception:  # noqa: BLE001
                continue
            text = None
            for p in params[1:]:
                via = k.provider("_simplify_up").cls.qual if cls is None else ""
                if p not in R04J_LABEL_PARAMS or (fq, p, via) in seen:
                    continue
                seen.add((fq, p, via))
                if text is None:
                    text = " ".join(ast.unparse(f) for _, _, f in closure_functions(model, mod, k, fn, depth=2))
                    if cls is None:
                        # the calling rule may read the parameter to hand it over as additional columns
                        pv = k.provider("_simplify_up")
                        text += " " + ast.unparse(pv.node)
                n += 1
                cid = f"{fq}:label-parameter:{p}" + (f":via:{via}" if via else "")
                if _re.search(rf"\.{_re.escape(p)}\b|['\"]{_re.escape(p)}['\"]", text):
                    ctx.ok(cid, mod.loc(fn), f"`{p}` ({R04J_LABEL_PARAMS[p]}) is read by the rule (first heir declaring it: {k.qual})")
                else:
                    ctx.bad(cid, mod.loc(fn), f"{fq} prunes the frame and forwards `{p}` ({R04J_LABEL_PARAMS[p]}; declared by {k.qual}) unchanged without ever reading it: after the projection the rebuilt {k.name} still names columns that the pruned frame no longer has (KeyError once optimized)")
    ctx.floor("label parameters of pruning rules", n, 18)


# ---------------------------------------------------------------------------------------------
# R04k
# ---------------------------------------------------------------------------------------------

# operators whose every output column is computed from ALL input columns (which also label the output rows)
R04K_ALL_COLUMN_OPERATORS = {
    "_reductions.Cov": "pairwise covariance: rows of the result are the input columns",
    "_reductions.Corr": "pairwise correlation",
    "_groupby.Cov": "pairwise covariance per group",
    "_groupby.Corr": "pairwise correlation per group",
    "_rolling.RollingCov": "pairwise rolling covariance",
    "_rolling.RollingAgg": "agg() functions may read any column",
}


@rule(
    "R04k",
    ["C04"],
    """ALL-COLUMN OPERATORS DO NOT PRUNE THEIR INPUT: cov / corr (frame, groupby, rolling) and rolling agg compute every output column
    from all input columns, and the input columns label the output ROWS. The `_simplify_up` such a class uses must not reach an
    input-pruning helper (determine_column_projection / plain_column_projection / groupby_projection): df.cov()[['x']] returned one
    row instead of one per column. Classes are the confirmed table plus every Expr class whose name contains Cov / Corr.""",
)
def r04k(ctx):
    import re as _re

    from sa.rules.util import closure_functions

    model = ctx.model
    n = 0
    classes = {c.qual: c for c in model.expr_classes() if c.qual in R04K_ALL_COLUMN_OPERATORS or _re.search(r"Cov|Corr", c.name)}
    missing = set(R04K_ALL_COLUMN_OPERATORS) - set(classes)
    if missing:
        raise AnalysisError(f"anchor vanished: all-column operators {sorted(missing)}")
    for q, c in sorted(classes.items()):
        pv = c.provider("_simplify_up")
        n += 1
        cid = f"{q}._simplify_up:all-columns"
        if pv is None or pv.kind == "attr":
            ctx.ok(cid, c.loc, "no rule")
            continue
        reach = [f.name for _, _, f in closure_functions(model, pv.cls.module, pv.cls, pv.node, depth=2)]
        text = ast.unparse(pv.node)
        hit = [h for h in ("determine_column_projection", "plain_column_projection", "groupby_projection") if h in reach or h + "(" in text]
        if hit:
            ctx.bad(cid, pv.cls.module.loc(pv.node), f"{q} ({R04K_ALL_COLUMN_OPERATORS.get(q, 'name says covariance / correlation')}) uses {pv.cls.qual}._simplify_up, which prunes the input through {hit[0]}: a column selection above it removes the other columns from the computation and with them rows of the result")
        else:
            ctx.ok(cid, c.loc, f"{pv.cls.qual}._simplify_up does not prune the input")
    ctx.floor("all-column operators", n, 6)
