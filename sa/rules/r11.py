"""C11: partition / head / tail selection commutes with computation - coordinate-space discipline."""
from __future__ import annotations

import ast

from sa import flow
from sa.model import AnalysisError, dotted, names_in, unparse
from sa.rules import LEVEL_TEXT, rule
from sa.rules.util import is_self_attr, iter_body_nodes, own_methods, qual

LEVEL_TEXT["C11"] = (
    "Decides the coordinate-space discipline behind C11: an absolute partition number never indexes a filtered view "
    "(divisions, npartitions, _partitions, keys) and an enumeration position never stands in for a partition number; "
    "output keys of hand-written layers are numbered by position; every partition-filtered class declares and "
    "consults _partitions; blockwise tasks that depend on the partition number are excluded from the partition "
    "push-down; head/tail/partitions rules that distribute a selection over operands respect the child's broadcast "
    "rule. Undecided: equality of the selected partitions' contents."
)

FILTERED_VIEWS = {"divisions", "npartitions", "_partitions", "known_divisions"}


def _pf(model):
    return model.cls("PartitionsFiltered")


@rule(
    "R11a",
    ["C11", "C09", "C12", "C06", "C18"],
    """COORDINATE SPACES: (i) in a _filtered_task(self, index) the argument is an ABSOLUTE partition number; the
    filtered views self.divisions / self.npartitions / self._partitions / self.__dask_keys__() describe only the
    selected partitions and may not be indexed by or compared with it. (ii) in a layer iterating
    `for pos, part in enumerate(<selected partitions>)` the position may only number a stored output key and the
    partition id may never number an output key of self; `for part in self._partitions` storing (self._name, part)
    is the same error. (iii) the mixin itself maps position -> partition id in _task, divisions and npartitions.""",
)
def r11a(ctx):
    model = ctx.model
    pf = _pf(model)
    # (i)
    fts = [(c, m) for c, m in own_methods(model, "_filtered_task") if c is not pf]
    ctx.floor("_filtered_task implementations", len(fts), 8)
    for c, m in fts:
        fn = m.node
        if len(fn.args.args) < 2:
            ctx.unclassified(qual(c, fn), c.module.loc(fn), "signature not (self, index)")
            continue
        idx = fn.args.args[1].arg
        bad = []
        for n in iter_body_nodes(fn):
            if isinstance(n, ast.Subscript) and is_self_attr(n.value) and n.value.attr in FILTERED_VIEWS and idx in names_in(n.slice):
                bad.append((n, f"self.{n.value.attr}[...{idx}...]"))
            if isinstance(n, ast.Compare):
                sides = [n.left] + list(n.comparators)
                if any(isinstance(s, ast.Name) and s.id == idx or (idx in names_in(s) and not isinstance(s, ast.Call)) for s in sides):
                    for s in sides:
                        for a in ast.walk(s):
                            if is_self_attr(a) and a.attr in FILTERED_VIEWS:
                                bad.append((n, f"`{unparse(n)}` compares the absolute partition number with the filtered view self.{a.attr}"))
            if isinstance(n, ast.Subscript) and isinstance(n.value, ast.Call) and is_self_attr(n.value.func, "__dask_keys__") and idx in names_in(n.slice):
                bad.append((n, "self.__dask_keys__()[index]"))
        if not bad:
            ctx.ok(qual(c, fn), c.module.loc(fn), "absolute partition number never meets a filtered view")
        seen = set()
        for n, what in bad:
            key = what.split("[")[0] if what.startswith("self.") else "compare"
            cid = f"{qual(c, fn)}:{key}"
            if cid in seen:
                continue
            seen.add(cid)
            ctx.bad(cid, c.module.loc(n), f"{what}: `index` is an absolute partition number but the attribute describes only the selected partitions, so any selection that is not a prefix reads the wrong entry or runs off the end")

    # (ii) enumerate discipline in layers / task builders of every Expr class
    n_loops = 0
    per_fn = {}
    for mname in ("_layer",):
        for c, m in own_methods(model, mname):
            fn = m.node
            defs = flow.Defs(fn)
            name_aliases = _self_name_aliases(fn, defs)
            for node in iter_body_nodes(fn):
                gens = []
                if isinstance(node, ast.For):
                    gens.append((node.target, node.iter, node.body, node))
                elif isinstance(node, (ast.DictComp, ast.ListComp, ast.SetComp, ast.GeneratorExp)):
                    for g in node.generators:
                        body = [node.key, node.value] if isinstance(node, ast.DictComp) else [node.elt]
                        gens.append((g.target, g.iter, body, node))
                for target, it, body, holder in gens:
                    sel = _is_selected_partitions(it, defs, enumerate_wrapped=True)
                    if sel is None:
                        continue
                    pos, pid = sel
                    if isinstance(target, ast.Tuple) and len(target.elts) == 2 and pos:
                        pos_name = target.elts[0].id if isinstance(target.elts[0], ast.Name) else None
                        pid_name = target.elts[1].id if isinstance(target.elts[1], ast.Name) else None
                    elif isinstance(target, ast.Name) and not pos:
                        pos_name, pid_name = None, target.id
                    else:
                        continue
                    cid = f"{qual(c, fn)}:selected-partitions-loop#{per_fn.get(id(fn), 0)}"
                    per_fn[id(fn)] = per_fn.get(id(fn), 0) + 1
                    n_loops += 1
                    problems = []
                    for b in body:
                        for n in ast.walk(b):
                            if isinstance(n, ast.Name) and isinstance(n.ctx, ast.Load):
                                if pos_name and n.id == pos_name and not _is_key_index(n):
                                    problems.append((n, f"enumeration position `{pos_name}` used as `{unparse(_stmt_of(n))[:80]}`: a position is not a partition number"))
                                if pid_name and n.id == pid_name and _is_output_key_index(n, name_aliases):
                                    problems.append((n, f"output key ({unparse(n._parent.elts[0])}, {pid_name}) is numbered by the selected partition id; __dask_keys__ numbers outputs 0..npartitions-1 by position, so any selection other than a prefix leaves keys undefined"))
                    if not problems:
                        ctx.ok(cid, c.module.loc(holder), f"pos={pos_name} id={pid_name}")
                    for n, what in problems[:1]:
                        ctx.bad(cid, c.module.loc(n), what)
    ctx.floor("loops over selected partitions in layers", n_loops, 6)

    # (iii) the mixin
    task = model.method(pf, "_task", own=True).node
    good = any(isinstance(r, ast.Return) and unparse(r.value) == f"self._filtered_task(self._partitions[{task.args.args[1].arg}])" for r in ast.walk(task))
    (ctx.ok if good else ctx.bad)("_expr.PartitionsFiltered._task", pf.module.loc(task), "position -> partition id via self._partitions[index]" if good else "PartitionsFiltered._task no longer maps the output position through self._partitions")
    npart = model.method(pf, "npartitions", own=True).node
    good = any(isinstance(r, ast.Return) and unparse(r.value) == "len(self._partitions)" and any(pol and unparse(t) == "self._filtered" for t, pol in flow.facts(p)) for p in flow.returns(npart) for r in [p.stmt])
    (ctx.ok if good else ctx.bad)("_expr.PartitionsFiltered.npartitions", pf.module.loc(npart), "len(self._partitions) when filtered" if good else "npartitions of a filtered expression is not the number of selected partitions")
    div = model.method(pf, "divisions", own=True).node
    _check_division_pick(ctx, pf, div, "super().divisions", "self._partitions", "_expr.PartitionsFiltered.divisions")
    parts = model.cls("Partitions")
    _check_division_pick(ctx, parts, model.method(parts, "_divisions", own=True).node, "self.frame.divisions", "self.partitions", "_expr.Partitions._divisions")
    t = model.method(parts, "_task", own=True).node
    good = any(isinstance(r, ast.Return) and unparse(r.value) == f"(self.frame._name, self.partitions[{t.args.args[1].arg}])" for r in ast.walk(t))
    (ctx.ok if good else ctx.bad)("_expr.Partitions._task", parts.module.loc(t), "(frame name, partitions[index])" if good else "Partitions._task does not alias output position index to frame partition self.partitions[index]")
    sd = model.method(parts, "_simplify_down", own=True).node
    comp = [n for n in ast.walk(sd) if isinstance(n, ast.ListComp) and unparse(n.elt).startswith("self.frame._partitions[")]
    good = bool(comp) and all(unparse(n.elt) == f"self.frame._partitions[{n.generators[0].target.id}]" and unparse(n.generators[0].iter) == "self.partitions" for n in comp)
    (ctx.ok if good else ctx.bad)("_expr.Partitions._simplify_down:compose", parts.module.loc(sd), "selection of a selection composes through frame._partitions[p]" if good else "composition of partition selections is not [frame._partitions[p] for p in self.partitions]")


def _check_division_pick(ctx, cls, fn, seq, parts, cid):
    """new = [seq[part] for part in parts] + [seq[part + 1]]  (seq may be held in a local)"""
    from sa.rules.util import pfind

    defs = flow.Defs(fn)
    loops = [n for n in ast.walk(fn) if isinstance(n, ast.For) and unparse(n.iter) == parts and isinstance(n.target, ast.Name)]
    ok = False
    for lp in loops:
        v = lp.target.id
        for c, b in pfind(f"V_new.append(V_seq[{v}])", lp):
            seq_x = unparse(defs.expand(c.args[0].value, at=lp))
            if seq_x != seq:
                continue
            after = [c2 for c2, _ in pfind(f"V_new.append(V_seq[{v} + 1])", fn, b) if not flow.contains(lp, c2)]
            if after:
                ok = True
    (ctx.ok if ok else ctx.bad)(cid, cls.module.loc(fn), "lower bounds of the selected partitions + upper bound of the last" if ok else f"divisions of a selection are not [{seq}[p] for p in {parts}] + [{seq}[last + 1]]")


def _stmt_of(n):
    while not isinstance(n, ast.stmt) and hasattr(n, "_parent"):
        n = n._parent
    return n


def _loop_ordinal(fn, holder):
    hs = [n for n in iter_body_nodes(fn) if isinstance(n, (ast.For, ast.DictComp, ast.ListComp, ast.SetComp, ast.GeneratorExp))]
    hs.sort(key=lambda n: (n.lineno, n.col_offset))
    return next((i for i, n in enumerate(hs) if n is holder), -1)


def _self_name_aliases(fn, defs):
    """local names that may hold self._name"""
    out = set()
    for d in defs.all:
        if d.value is not None and d.kind == "assign" and unparse(d.value) == "self._name":
            out.add(d.name)
    return out


def _is_selected_partitions(it, defs, enumerate_wrapped):
    """Is the iterable (enumerate of) the selected-partition list?  -> (has_position, True) or None"""

    def derived(e, depth=0):
        if is_self_attr(e, "_partitions"):
            return True
        if isinstance(e, ast.IfExp):
            return derived(e.body, depth) or derived(e.orelse, depth)
        if isinstance(e, ast.Name) and depth < 3:
            ds = defs.reaching(e.id, e)
            return any(d.value is not None and d.kind == "assign" and derived(d.value, depth + 1) for d in ds)
        return False

    if isinstance(it, ast.Call) and isinstance(it.func, ast.Name) and it.func.id == "enumerate" and len(it.args) == 1:
        return (True, True) if derived(it.args[0]) else None
    return (False, True) if derived(it) else None


def _is_key_index(n):
    """n is the last element of a tuple used as a dict key being stored (dsk[(name, n)] = ..., {(name, n): ...})."""
    p = getattr(n, "_parent", None)
    if not (isinstance(p, ast.Tuple) and p.elts and p.elts[-1] is n and len(p.elts) >= 2):
        return False
    pp = getattr(p, "_parent", None)
    if isinstance(pp, ast.Subscript) and pp.slice is p and isinstance(pp.ctx, ast.Store):
        return True
    if isinstance(pp, ast.DictComp) and pp.key is p:
        return True
    if isinstance(pp, ast.Dict) and any(k is p for k in pp.keys):
        return True
    return False


def _is_output_key_index(n, name_aliases):
    if not _is_key_index(n):
        return False
    first = n._parent.elts[0]
    return is_self_attr(first, "_name") or (isinstance(first, ast.Name) and first.id in name_aliases and len(n._parent.elts) == 2)


# ---------------------------------------------------------------------------------------------
# R11b index-dependent blockwise tasks
# ---------------------------------------------------------------------------------------------

# class -> reason the dependence on the partition number is benign under Partitions push-down
R11B_BENIGN = {
    "_expr.EnforceRuntimeDivisions": "index only loosens the last-partition bound and labels the error message",
    "_expr.FillnaCheck": "index only decides whether to inspect the first partition for a leading null",
    "io.parquet.ToParquetData": "never under Partitions: its parent is the write barrier",
    "_expr.Fused": "excluded from the push-down by the isinstance test itself",
    "io.io.FusedIO": "BlockwiseIO: excluded from the push-down",
    "io.io.FusedParquetIO": "BlockwiseIO: excluded from the push-down",
}


def _index_uses(fn):
    if len(fn.args.args) < 2:
        return None
    idx = fn.args.args[-1].arg if fn.name == "_blockwise_arg" else fn.args.args[1].arg
    uses = []
    for n in iter_body_nodes(fn):
        if isinstance(n, ast.Name) and n.id == idx and isinstance(n.ctx, ast.Load):
            p = n._parent
            # (X._name, index) dependency key
            if isinstance(p, ast.Tuple) and len(p.elts) == 2 and p.elts[1] is n and isinstance(p.elts[0], ast.Attribute) and p.elts[0].attr == "_name":
                continue
            # self._blockwise_arg(x, index) / super()._task(index) / super()._blockwise_arg(arg, index)
            if isinstance(p, ast.Call) and n in p.args and isinstance(p.func, ast.Attribute) and p.func.attr in ("_blockwise_arg", "_task", "_filtered_task") :
                recv = p.func.value
                if is_self_attr(p.func) or (isinstance(recv, ast.Call) and isinstance(recv.func, ast.Name) and recv.func.id == "super"):
                    continue
            uses.append(n)
    return idx, uses


def _lowering_is_nontrivial_for(model, c):
    """Does class c (a Blockwise) get rewritten by its _lower into other expressions?"""
    lo = c.provider("_lower")
    if lo is None or lo.cls is model.core_expr:
        return False
    for p in flow.returns(lo.node):
        v = p.stmt.value
        if v is None or (isinstance(v, ast.Constant) and v.value is None):
            continue
        dead = False
        for t, pol in flow.facts(p):
            if not pol and isinstance(t, ast.Call) and dotted(t.func) == "isinstance" and isinstance(t.args[0], ast.Name) and t.args[0].id == "self":
                names = [dotted(e) for e in (t.args[1].elts if isinstance(t.args[1], ast.Tuple) else [t.args[1]])]
                if any(k.name in names for k in c.mro):
                    dead = True
        if not dead:
            return True
    return False


@rule(
    "R11g",
    ["C11", "C12", "C09"],
    """A GROUP FILTER LIVES IN THE KEY SPACE OF THE GROUPS IT FILTERS: the shuffle layers hand a filter to their grouping task
    (`_shuffle_group(df, _filter, ...)` keeps `{k: v for k, v in groups.items() if k in _filter}`). In the single-stage layer
    the groups are keyed by output partition number, so the selected partition ids are the right filter; in the staged layer
    the groups of a stage are keyed by that stage's DIGIT, so the filter must be derived from the digits
    (`inputs[part][stage]`) - selected partition ids filter away the very groups the outputs need.""",
)
def r11g(ctx):
    model = ctx.model
    ts = model.cls("TaskShuffle")
    ly = model.method(ts, "_layer", own=True).node
    defs = flow.Defs(ly)
    calls = [t for t in ast.walk(ly) if isinstance(t, ast.Tuple) and t.elts and is_self_attr(t.elts[0], "_shuffle_group") and len(t.elts) >= 3]
    if not calls:
        raise AnalysisError("anchor vanished: (self._shuffle_group, input, filter, ...) task of TaskShuffle._layer")
    # the stage loop: the outermost `for <v> in range(<n>)` around the grouping task
    stage_var = None
    n_ = calls[0]
    while n_ is not None and n_ is not ly:
        if isinstance(n_, ast.For) and isinstance(n_.target, ast.Name) and isinstance(n_.iter, ast.Call) and dotted(n_.iter.func) == "range" and len(n_.iter.args) == 1 and isinstance(n_.iter.args[0], ast.Name):
            stage_var = n_.target.id
        n_ = getattr(n_, "_parent", None)
    if stage_var is None:
        raise AnalysisError("anchor vanished: the stage loop (`for stage in range(stages)`) of TaskShuffle._layer")
    for i, t in enumerate(calls):
        f = t.elts[2]
        vals = [d.value for d in defs.reaching(f.id, t)] if isinstance(f, ast.Name) else [f]
        bad = []
        for v in vals:
            if v is None or (isinstance(v, ast.Constant) and v.value is None):
                continue
            txt = unparse(v)
            # every non-None alternative must be built from the stage digit of the plan entries
            alts = [v.body, v.orelse] if isinstance(v, ast.IfExp) else [v]
            for a in alts:
                if isinstance(a, ast.Constant) and a.value is None:
                    continue
                if not (f"[{stage_var}]" in unparse(a)):
                    bad.append(unparse(a))
        cid = f"_shuffle.TaskShuffle._layer:stage-filter#{i}"
        if bad:
            ctx.bad(cid, ts.module.loc(t), f"the groups of a stage are keyed by the digit of that stage, but the filter handed to _shuffle_group is `{bad[0][:80]}` (output partition numbers): with a partition selection on a staged shuffle the groups the selected outputs need are filtered away (KeyError)")
        else:
            ctx.ok(cid, ts.module.loc(t), "filter derived from the stage digits (or None)")
    ctx.floor("grouping tasks of the staged shuffle", len(calls), 1)


@rule(
    "R11b",
    ["C11", "C14", "C01"],
    """PARTITION-DEPENDENT BLOCKWISE: a Blockwise class is not partitionwise if (a) its _task / _blockwise_arg uses the
    partition number other than to form the dependency keys (operand name, index), (b) it has a hand-written _layer,
    or (c) it is rewritten by its own _lower into other expressions (overlap operations read neighbouring
    partitions). Pushing Partitions below such a class changes what it computes, so it must be excluded by the
    isinstance test of Partitions._simplify_down (for MapPartitions: by the _has_partition_info conjunct that guards
    the use) or be listed as confirmed-benign.""",
)
def r11b(ctx):
    model = ctx.model
    bw = model.cls("Blockwise")
    parts = model.cls("Partitions")
    sd = model.method(parts, "_simplify_down", own=True).node
    defs = flow.Defs(sd)
    excluded = set()
    cond_excluded = {}  # class name -> property name that must be false on self.frame
    for n in ast.walk(sd):
        if isinstance(n, ast.UnaryOp) and isinstance(n.op, ast.Not):
            inner = n.operand
            if isinstance(inner, ast.Call) and dotted(inner.func) == "isinstance" and unparse(inner.args[0]) == "self.frame":
                for e in _tuple_elts(defs.expand(inner.args[1], at=n)):
                    excluded.add(dotted(e))
            elif isinstance(inner, ast.BoolOp) and isinstance(inner.op, ast.And):
                cls_names, props = [], []
                for v in inner.values:
                    if isinstance(v, ast.Call) and dotted(v.func) == "isinstance" and unparse(v.args[0]) == "self.frame":
                        cls_names += [dotted(e) for e in _tuple_elts(v.args[1])]
                    elif isinstance(v, ast.Attribute) and unparse(v.value) == "self.frame":
                        props.append(v.attr)
                for cn in cls_names:
                    for pr in props:
                        cond_excluded[cn] = pr
    # the same tests written over a list of candidates that contains the frame:
    #   members = [...self.frame...];  not any(isinstance(e, T) for e in members)
    from sa.rules.util import pfind

    for n, b in pfind("not any((isinstance(V_e, V_t) for V_e in V_m))", sd):
        gen = n.operand.args[0]
        src = defs.expand(gen.generators[0].iter, at=n)
        if "self.frame" not in ast.unparse(src):
            continue
        for e in _tuple_elts(defs.expand(gen.elt.args[1], at=n)):
            excluded.add(dotted(e))
    for n, b in pfind("not any((isinstance(V_e, V_t) and V_e.V_prop for V_e in V_m))", sd):
        gen = n.operand.args[0]
        src = defs.expand(gen.generators[0].iter, at=n)
        if "self.frame" not in ast.unparse(src):
            continue
        for e in _tuple_elts(gen.elt.values[0].args[1]):
            cond_excluded[dotted(e)] = b["V_prop"]
    excluded.discard(None)
    if not excluded:
        raise AnalysisError("anchor changed: exclusion test of Partitions._simplify_down not found")
    ctx.info("excluded from Partitions push-down", sorted(excluded))
    ctx.info("conditionally excluded", cond_excluded)
    ctx.floor("classes excluded from the Partitions push-down", len(excluded), 3)

    def is_excluded(c):
        return any(k.name in excluded for k in c.mro)

    n = 0
    # (a) one obligation per definition of _task / _blockwise_arg
    seen_defs = {}
    for c in model.subclasses(bw):
        n += 1
        for mname in ("_task", "_blockwise_arg"):
            m = c.provider(mname)
            if m is None or m.kind == "attr" or m.cls is bw or not model.is_expr(m.cls):
                continue
            u = _index_uses(m.node)
            if u is None or not u[1]:
                continue
            seen_defs.setdefault((m.cls.qual, m.name), (m, u[1], []))[2].append(c)
    for (cq, mn), (m, uses, users) in sorted(seen_defs.items()):
        cid = f"{cq}.{mn}:partition-number"
        loc = m.cls.module.loc(uses[0])
        # are all uses guarded by a self.<prop> test?
        guard_props = None
        for u in uses:
            p = flow.point_of(m.node, u)
            props = {t.attr for t, pol in flow.facts(p) if pol and is_self_attr(t)} if p else set()
            guard_props = props if guard_props is None else guard_props & props
        open_users = []
        for c in users:
            if is_excluded(c):
                continue
            if guard_props and any(cond_excluded.get(k.name) in guard_props for k in c.mro):
                continue
            if c.qual in R11B_BENIGN:
                continue
            open_users.append(c)
        if not open_users:
            benign = [c.qual for c in users if c.qual in R11B_BENIGN and not is_excluded(c)]
            if benign and len(benign) == len(users):
                ctx.exempt(cid, loc, "; ".join(f"{q}: {R11B_BENIGN[q]}" for q in benign))
            else:
                ctx.ok(cid, loc, f"{len(users)} class(es) using it are excluded from the Partitions push-down")
        else:
            ctx.bad(
                cid,
                loc,
                f"{cq}.{mn} uses the partition number (`{unparse(_stmt_of(uses[0]))[:90]}`) but {', '.join(c.name for c in open_users[:6])} "
                "can still receive a Partitions push-down: after it, partition k of the selection is computed with number 0..n-1 instead of its own",
            )
    # (b) hand-written layers, (c) lowered blockwise
    for c in model.subclasses(bw):
        ly = c.provider("_layer")
        if ly is not None and ly.cls is not model.core_expr:
            cid = f"{c.qual}:hand-written-layer"
            if is_excluded(c):
                ctx.ok(cid, c.loc, "excluded from the Partitions push-down")
            else:
                ctx.bad(cid, ly.cls.module.loc(ly.node), f"{c.qual} is a Blockwise with a hand-written _layer ({ly.cls.qual}._layer): its output partitions are not built from the same-numbered input partitions, yet Partitions is pushed below it")
        if _lowering_is_nontrivial_for(model, c):
            cid = f"{c.qual}:lowered-blockwise"
            if is_excluded(c):
                ctx.ok(cid, c.loc, "excluded from the Partitions push-down")
            else:
                ctx.bad(cid, c.loc, f"{c.qual} is Blockwise only until its _lower rewrites it into other expressions (e.g. overlapping partitions); a Partitions push-down below it makes it see only the selected partitions as neighbours")
    # (d) groups: a Blockwise whose task inlines the tasks of OTHER expressions (x._task(...)) carries expressions that are not
    # among its dependencies; re-building it over selected inputs leaves those members reading unselected partitions
    nd = 0
    for c in model.subclasses(bw):
        t = c.members.get("_task")
        if t is None or c is bw or not isinstance(t.node, ast.FunctionDef):
            continue
        inl = [x for x in iter_body_nodes(t.node) if isinstance(x, ast.Call) and isinstance(x.func, ast.Attribute) and x.func.attr == "_task" and not (isinstance(x.func.value, ast.Name) and x.func.value.id == "self") and not (isinstance(x.func.value, ast.Call) and dotted(x.func.value.func) == "super")]
        if not inl:
            continue
        nd += 1
        cid = f"{c.qual}:inlines-member-tasks"
        for k in model.subclasses(c):
            if is_excluded(k):
                continue
            ctx.bad(cid, c.module.loc(inl[0]), f"{k.qual} inlines the tasks of member expressions (`{unparse(inl[0])}`) that are not among its dependencies, yet Partitions can be pushed below it: the members keep reading the unselected partitions")
            break
        else:
            ctx.ok(cid, c.module.loc(inl[0]), "excluded from the Partitions push-down")
    ctx.floor("Blockwise classes that inline member tasks", nd, 1)
    ctx.floor("Blockwise classes examined", n, 150)


def _tuple_elts(node):
    if isinstance(node, ast.Tuple):
        return list(node.elts)
    if isinstance(node, ast.BinOp) and isinstance(node.op, ast.Add):
        return _tuple_elts(node.left) + _tuple_elts(node.right)
    return [node]


@rule(
    "R11d",
    ["C11", "C06", "C01", "C18"],
    """PARTITION-FILTER CONTRACT: every PartitionsFiltered subclass declares `_partitions` with default None and
    provides a _filtered_task of its own or a _layer that consults self._partitions; its lengths short-cut
    (_get_lengths) restricts itself to the selected partitions.""",
)
def r11d(ctx):
    model = ctx.model
    pf = _pf(model)
    subs = model.subclasses(pf, strict=True)
    ctx.floor("PartitionsFiltered subclasses", len(subs), 15)
    for c in subs:
        cid = f"{c.qual}:contract"
        try:
            params = model.parameters(c)
            dfl = model.defaults(c)
        except AnalysisError as e:
            ctx.unclassified(cid, c.loc, str(e))
            continue
        problems = []
        pm = c.provider("_parameters")
        if "_partitions" not in params and (pm is None or pf not in pm.cls.mro) and model.subclasses(c, strict=True):
            ctx.exempt(cid, c.loc, "abstract base: declares no _parameters of its own; its concrete subclasses are checked")
            continue
        if "_partitions" not in params:
            problems.append("`_partitions` is not a parameter")
        elif dfl.get("_partitions", "missing") is not None:
            problems.append(f"default of `_partitions` is {dfl.get('_partitions', 'missing')!r}, not None")
        ft = c.provider("_filtered_task")
        ly = c.provider("_layer")
        has_ft = ft is not None and ft.cls is not pf
        has_layer = ly is not None and ly.cls is not model.core_expr and any(is_self_attr(n, "_partitions") for n in ast.walk(ly.node))
        tk = c.provider("_task")
        own_task = tk is not None and tk.cls is not pf and tk.cls is not model.core_expr and pf in tk.cls.mro and tk.cls.mro.index(pf) > 0 and False
        if not (has_ft or has_layer):
            problems.append("neither a _filtered_task nor a _layer consulting self._partitions")
        # MRO: the mixin's _task must win over Blockwise._task, unless a layer is hand written
        if has_ft and not has_layer and tk is not None and tk.cls is not pf:
            problems.append(f"_task resolves to {tk.cls.qual}, not to PartitionsFiltered._task: _filtered_task is never used")
        if problems:
            ctx.bad(cid, c.loc, "; ".join(problems))
        else:
            ctx.ok(cid, c.loc, "declares _partitions=None and " + ("_filtered_task" if has_ft else "a filtering _layer"))
    # _get_lengths siblings
    gl = own_methods(model, "_get_lengths")
    ctx.floor("_get_lengths implementations", len(gl), 3)
    for c, m in gl:
        fn = m.node
        cid = f"{qual(c, fn)}:selected-partitions"
        if not any(k is pf for k in c.mro):
            ctx.ok(cid, c.module.loc(fn), "not partition-filtered")
            continue
        reads = {n.attr for n in ast.walk(fn) if is_self_attr(n)}
        # a selection is a SEQUENCE of partition numbers (repeats and any order are allowed): lengths must be picked by
        # number / position; a membership test (`i in self._partitions`) answers for the set of selected partitions instead
        from sa.rules.util import closure_functions

        member = [n for _, _, f in closure_functions(model, c.module, c, fn, depth=1) for n in ast.walk(f) if isinstance(n, ast.Compare) and any(isinstance(o, (ast.In, ast.NotIn)) for o in n.ops) and any(is_self_attr(x, "_partitions") for x in n.comparators)]
        if member:
            ctx.bad(cid, c.module.loc(member[0]), f"`{unparse(member[0])}` picks the lengths of the SET of selected partitions: a selection that repeats or reorders partitions (partitions[[1, 1]], partitions[::-1]) gets fewer / differently ordered lengths than it has partitions")
        elif "_partitions" in reads or "_filtered" in reads:
            ctx.ok(cid, c.module.loc(fn), "restricts lengths to the selected partitions")
        else:
            ctx.bad(cid, c.module.loc(fn), "returns lengths without consulting self._partitions / self._filtered: len() / lengths of a partition selection report other partitions' row counts")


def _selection_membership_tests(fn):
    """`x in <expr>._partitions` / `x in <expr>.partitions` comparisons (not `for x in ...` iterations), and
    `len(<selection>) == <frame>.npartitions` ("every partition is selected" decided by COUNT)"""
    out = [n for n in ast.walk(fn) if isinstance(n, ast.Compare) and any(isinstance(o, (ast.In, ast.NotIn)) for o in n.ops) and any(isinstance(c_, ast.Attribute) and c_.attr in ("_partitions", "partitions") for c_ in n.comparators)]
    for n in ast.walk(fn):
        if isinstance(n, ast.Compare) and len(n.ops) == 1 and isinstance(n.ops[0], (ast.Eq, ast.NotEq)):
            a, b = ast.unparse(n.left), ast.unparse(n.comparators[0])
            for x, y in ((a, b), (b, a)):
                if x.startswith("len(") and "partitions" in x and "npartitions" not in x and y.endswith(".npartitions"):
                    out.append(n)
    return out


@rule(
    "R11i",
    ["C11", "C06", "C12"],
    """A PARTITION SELECTION IS A SEQUENCE, NOT A SET: `_partitions` / `Partitions.partitions` may repeat and reorder partition
    numbers (partitions[[1, 1, 2]], partitions[::-1]). Per-partition values of a selected view - divisions, lengths, file parts - are
    picked BY POSITION (`[values[p] for p in sel]`); a membership test `i in <x>._partitions` answers for the set of selected numbers,
    drops repeats and restores sorted order. No such test may occur anywhere in the package (expected count zero; a positive example
    under sa/examples must be flagged on every run). s.partitions[[1, 1, 2]] of a set_index result lost a partition this way.""",
)
def r11i(ctx):
    import os

    model = ctx.model
    n = 0
    for mod, cls, fn in model.all_functions():
        n += 1
        for t in _selection_membership_tests(fn):
            fq = qual(cls, fn) if cls is not None else f"{mod.name.split('.', 1)[-1]}.{fn.name}"
            ctx.bad(f"{fq}:selection-membership", mod.loc(t), f"`{unparse(t)}` treats the selected partitions as a set (or judges 'all selected' by their count): a selection that repeats or reorders partitions gets the values of the distinct partitions in sorted order (fewer / other divisions, lengths or parts than the view has partitions)")
    ctx.floor("functions scanned for selection membership tests", n, 1500)
    ex = os.path.join(os.path.dirname(os.path.dirname(__file__)), "examples", "r11d_positive.py")
    tree = ast.parse(open(ex).read())
    flagged = {f.name for f in tree.body if isinstance(f, ast.FunctionDef) and _selection_membership_tests(f)}
    if flagged != {"culled", "all_selected"}:
        raise AnalysisError(f"R11i self-check failed: positive example flagged {sorted(flagged)}, expected ['all_selected', 'culled']")
    ctx.ok("examples/r11d_positive.py", "sa/examples/r11d_positive.py", "positive example flagged, its by-position twin is not")


@rule(
    "R11e",
    ["C11", "C09", "C06", "C01", "C04", "C18"],
    """POSITIONS ARE NOT PARTITION NUMBERS: (a) in a PartitionsFiltered class (outside _filtered_task, whose argument is already
    an absolute number) a loop / comprehension over range(self.npartitions) - the POSITIONS of the selected partitions -
    may subscript per-partition sequences only through self._partitions[i]; (b) FusedIO's buckets hold absolute
    partition numbers of the wrapped source, so in FusedIO they may index only the source's UNFILTERED divisions
    (<source>._divisions()), never its filtered view <source>.divisions. A positive example under sa/examples must
    be flagged on every run.""",
)
def r11e(ctx):
    import os

    model = ctx.model
    pf = _pf(model)

    def scan(cls_name, fn, cid_prefix, loc):
        """-> list of (node, description)"""
        out = []
        for node in ast.walk(fn):
            gens = []
            if isinstance(node, ast.For):
                gens.append((node.target, node.iter, node.body))
            elif isinstance(node, (ast.ListComp, ast.SetComp, ast.GeneratorExp, ast.DictComp)):
                for g in node.generators:
                    gens.append((g.target, g.iter, [node.key, node.value] if isinstance(node, ast.DictComp) else [node.elt]))
            for target, it, body in gens:
                if not (isinstance(it, ast.Call) and dotted(it.func) == "range" and len(it.args) == 1 and ast.unparse(it.args[0]) == "self.npartitions" and isinstance(target, ast.Name)):
                    continue
                v = target.id
                for b in body:
                    for sub in ast.walk(b):
                        if isinstance(sub, ast.Subscript) and any(isinstance(x, ast.Name) and x.id == v for x in ast.walk(sub.slice)):
                            if is_self_attr(sub.value, "_partitions"):
                                continue
                            # the position may appear in the index only as self._partitions[<pos>]
                            mapped = set()
                            for inner in ast.walk(sub.slice):
                                if isinstance(inner, ast.Subscript) and is_self_attr(inner.value, "_partitions"):
                                    mapped |= {id(x) for x in ast.walk(inner.slice)}
                            if all(id(x) in mapped for x in ast.walk(sub.slice) if isinstance(x, ast.Name) and x.id == v):
                                continue
                            # (name, i) keys are tuples, not subscripts; a subscript by position is the error
                            out.append((sub, f"`{ast.unparse(sub)}` indexes a per-partition sequence by the position `{v}` in range(self.npartitions)"))
        return out

    n = 0
    for c in model.subclasses(pf, strict=True):
        for m in model.functions_of(c):
            if m.name in ("_filtered_task",):
                continue
            n += 1
            hits = scan(c.name, m.node, qual(c, m.node), c.module.loc(m.node))
            cid = f"{qual(c, m.node)}:positions"
            if hits:
                node, what = hits[0]
                ctx.bad(cid, c.module.loc(node), what + ": with a partition selection the i-th selected partition is number self._partitions[i], not i, so every selection that is not a leading block reads another partition's entry")
            else:
                ctx.ok(cid, c.module.loc(m.node))
    ctx.floor("methods of partition-filtered classes", n, 60)
    # positive example
    ex = os.path.join(os.path.dirname(os.path.dirname(__file__)), "examples", "r11e_positive.py")
    tree = ast.parse(open(ex).read())
    cls = next(x for x in tree.body if isinstance(x, ast.ClassDef))
    flagged = {f.name for f in cls.body if isinstance(f, ast.FunctionDef) and scan(cls.name, f, "", "")}
    if flagged != {"dependencies"}:
        raise AnalysisError(f"R11e self-check failed: positive example flagged {sorted(flagged)}, expected ['dependencies']")
    ctx.ok("examples/r11e_positive.py", "sa/examples/r11e_positive.py", "positive example flagged, its corrected twin is not")
    # (b) FusedIO
    fio = model.cls("FusedIO")
    for mname in ("_divisions",):
        fn = model.method(fio, mname, own=True).node
        defs = flow.Defs(fn)
        for sub in (x for x in ast.walk(fn) if isinstance(x, ast.Subscript) and isinstance(x.ctx, ast.Load)):
            idx_txt = ast.unparse(defs.expand(sub.slice, at=sub))
            if "_fusion_buckets" not in idx_txt and not any(isinstance(x, ast.Name) and any("_fusion_buckets" in ast.unparse(d.value) for d in defs.reaching(x.id, x) if d.value is not None) for x in ast.walk(sub.slice)):
                continue
            base = defs.expand(sub.value, at=sub)
            bt = ast.unparse(base)
            if "_fusion_buckets" in bt:
                continue
            cid = f"io.io.FusedIO.{mname}:bucket-index:{ast.unparse(sub)[:40]}"
            if bt.endswith("._divisions()"):
                ctx.ok(cid, fio.module.loc(sub), "absolute partition numbers index the unfiltered divisions")
            else:
                ctx.bad(cid, fio.module.loc(sub), f"`{ast.unparse(sub)}`: the buckets hold ABSOLUTE partition numbers of the wrapped source, but `{bt}` is its filtered view (only the selected partitions): with a partition selection that is not a leading block the wrong division is read or the index runs off the end")


def _drops_self(v):
    """the returned expression is built from parts of self (self.frame, self.<operand>) and never contains self as a node"""
    uses = [n for n in ast.walk(v) if isinstance(n, ast.Name) and n.id == "self"]
    if not uses:
        return False
    for n in uses:
        par = getattr(n, "_parent", None)
        if not isinstance(par, ast.Attribute):
            return False  # self passed whole / type(self)
        if par.attr in ("operands", "substitute", "substitute_parameters", "_name"):
            return False
        gp = getattr(par, "_parent", None)
        if isinstance(gp, ast.Call) and gp.func is par:
            return False  # self.method(...) - the method may keep self
    return True


@rule(
    "R11f",
    ["C11", "C06", "C01"],
    """A SELECTION IS NOT SKIPPED: a rewrite rule that replaces `parent(self)` by something built on the inputs of self - dropping
    self from the plan (reductions moved below a shuffle, a length answered from the input) - is inherited by the classes that
    carry a partition selection (`_partitions`). For them it is only valid when nothing is selected: the rule must be guarded by
    `self._filtered` being false, otherwise the reduction / length of a selection is computed over the whole input.""",
)
def r11f(ctx):
    model = ctx.model
    pf = _pf(model)
    n = 0
    seen = set()
    for c in model.subclasses(pf, strict=True):
        for mname in ("_simplify_up", "_simplify_down"):
            mem = c.provider(mname)
            if mem is None or mem.cls is model.core_expr or not isinstance(mem.node, ast.FunctionDef) or id(mem.node) in seen:
                continue
            fn = mem.node
            early_refusal = [st for st in ast.walk(fn) if isinstance(st, ast.If) and "_filtered" in ast.unparse(st.test) and flow.terminates(st.body) and all(isinstance(x, ast.Return) and (x.value is None or (isinstance(x.value, ast.Constant) and x.value.value is None)) for x in st.body)]
            for i, p in enumerate(flow.returns(fn)):
                v = p.stmt.value
                if v is None or (isinstance(v, ast.Constant) and v.value is None):
                    continue
                if not _drops_self(v):
                    continue
                # only rules about a parent that aggregates rows / answers lengths matter: the returned value re-applies the parent
                if mname == "_simplify_up" and "parent" not in names_in(v):
                    continue
                seen.add(id(fn))
                n += 1
                cid = f"{mem.cls.qual}.{mname}#return{i}:selection-skipped"
                guarded = any((not pol) and "_filtered" in ast.unparse(t) for t, pol in flow.facts(p)) or any(any(st is x for x in p.preceding) for st in early_refusal)
                heirs = [k.name for k in model.subclasses(pf, strict=True) if k.provider(mname) is not None and k.provider(mname).node is fn]
                if guarded:
                    ctx.ok(cid, mem.cls.module.loc(p.stmt), "not applied to an expression with a partition selection")
                else:
                    ctx.bad(cid, mem.cls.module.loc(p.stmt), f"`return {unparse(v)[:90]}` drops this node from the plan and is inherited by {heirs[:4]}, which can carry a partition selection: without a `not self._filtered` guard the parent is evaluated over all partitions of the input instead of the selected ones")
    ctx.floor("self-dropping rules reachable from a partition-filtered class", n, 1)


# ---------------------------------------------------------------------------------------------
# R11h
# ---------------------------------------------------------------------------------------------


def _physical_twins(model):
    """(L, K): L._lower constructs K by name and K is a strict subclass of L that survives lowering (it is partitionwise
    or carries its own _layer/_task)"""
    base = model.cls("Expr", "_expr")
    core = model.cls("Expr", "_core")
    bw = model.cls("Blockwise", "_expr")
    out = []
    for L in model.expr_classes():
        lw = L.members.get("_lower")
        if lw is None or lw.kind == "attr":
            continue
        names = {n.func.id for n in ast.walk(lw.node) if isinstance(n, ast.Call) and isinstance(n.func, ast.Name)}
        for nm in sorted(names):
            r = model.resolve_name(L.module, nm)
            if not (r and r[0] == "class"):
                continue
            K = r[1]
            if K is L or not K.is_sub(L):
                continue
            for H in [K] + [h for h in model.subclasses(K, strict=True)]:
                terminal = H.is_sub(bw) or any((H.provider(a) is not None and H.provider(a).cls not in (base, core)) for a in ("_layer", "_task"))
                lp = H.provider("_lower")
                own_lower = lp is not None and lp.cls.is_sub(K) and lp.kind != "attr" and not all(isinstance(r, ast.Return) and (r.value is None or (isinstance(r.value, ast.Constant) and r.value.value is None)) for r in lp.node.body if not isinstance(r, ast.Expr))
                if terminal and not own_lower and (L, H) not in out:
                    out.append((L, H))
    return out


@rule(
    "R11h",
    ["C11", "C14"],
    """A PHYSICAL TWIN DOES NOT RE-APPLY ITS LOGICAL CLASS'S RULES: a class K that L._lower produces, subclasses L and
    survives lowering (BlockwiseHead/BlockwiseTail for Head/Tail, StackPartition for Concat, ...) is still met by the
    simplify pass that runs AFTER lowering. If K inherits a `_simplify_down` / `_simplify_up` of L that builds L BY NAME
    (`Tail(op, self.n)`), that pass puts abstract L nodes back into the lowered plan; blockwise fusion then freezes
    their keys inside a fused group while the last lowering renames them - df.shuffle('x').assign(w=1).tail(3) raised
    TypeError. K must override such a rule (BlockwiseHead does, with a no-op) or the rule must rebuild through
    type(self).""",
)
def r11h(ctx):
    model = ctx.model
    n = 0
    for L, K in _physical_twins(model):
        for meth in ("_simplify_down", "_simplify_up"):
            pv = K.provider(meth)
            if pv is None or pv.kind == "attr":
                continue
            n += 1
            cid = f"{K.qual}.{meth}:twin-of:{L.name}"
            if pv.cls.is_sub(L) and pv.cls is not L:
                ctx.ok(cid, K.loc, f"own rule ({pv.cls.qual})")
                continue
            byname = [c for c in ast.walk(pv.node) if isinstance(c, ast.Call) and isinstance(c.func, ast.Name) and (lambda r: bool(r) and r[0] == "class" and r[1] is L)(model.resolve_name(pv.cls.module, c.func.id))]
            if byname:
                ctx.bad(cid, pv.cls.module.loc(byname[0]), f"{K.qual} (produced by {L.qual}._lower, survives lowering) inherits {pv.cls.qual}.{meth}, which builds the abstract `{unparse(byname[0])}` by name: the simplify pass after lowering re-creates un-lowered {L.name} nodes in the physical plan (a fused group keeps their stale keys -> TypeError / wrong partition)")
            else:
                ctx.ok(cid, K.loc, f"inherited {pv.cls.qual}.{meth} does not build {L.name} by name")
    ctx.floor("physical twins x rewrite methods", n, 20)
