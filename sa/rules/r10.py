"""C10: execution knobs change performance only - structural clause: lowering forwards semantics."""
from __future__ import annotations

import ast
import re

from sa import flow
from sa.model import AnalysisError, dotted, names_in, unparse
from sa.rules import LEVEL_TEXT, rule
from sa.rules.util import pmatch, bind_call, ctor_target, iter_body_nodes, own_methods, qual, reads_of_self

LEVEL_TEXT["C10"] = (
    "Decides one necessary condition of C10: every lowering (_lower) that builds physical expressions forwards each "
    "semantic (non-knob) parameter of the logical class to every physical class that declares a parameter of that "
    "name, and consults every semantic parameter at all; sibling physical alternatives therefore receive the same "
    "semantics. Undecided: equality of results across algorithm regions (runtime values)."
)

# the property's own list of performance knobs (+ their physical-layer spellings)
KNOBS = {
    "split_every",
    "split_out",
    "shuffle_method",
    "method",
    "options",
    "max_branch",
    "broadcast",
    "_npartitions",
    "npartitions",
    "npartitions_out",
    "upsample",
    "partition_size",
    "shuffle_backend",
}

# (logical class, physical class, parameter) -> reason, confirmed by reading / probing
R10A_EXCEPTIONS = {
    ("_repartition.Repartition", "RepartitionSize", "new_partitions"): "mutually exclusive request kinds: this branch is taken only when partition_size is the request",
    ("_repartition.Repartition", "RepartitionSize", "new_divisions"): "mutually exclusive request kinds: this branch is taken only when partition_size is the request",
    ("_repartition.Repartition", "RepartitionSize", "force"): "force only qualifies new_divisions",
    ("_shuffle.RearrangeByColumn", "Shuffle", "index_shuffle"): "index_shuffle is consumed by AssignPartitioningIndex, which materialises the `_partitions` column the Shuffle then routes by",
    ("_shuffle.SetPartition", "_SetPartitionsPreSetIndex", "ascending"): "set_index never sets ascending (API passes none; SetIndex default True == physical default)",
}

# (class, parameter) not consulted by the lowering, with reason
R10B_EXCEPTIONS = {
    ("_shuffle.Shuffle", "index_shuffle"): "already consumed by RearrangeByColumn._lower (AssignPartitioningIndex); physical shuffles route by the `_partitions` column",
}


def _nontrivial(fn):
    return any(r.value is not None and not (isinstance(r.value, ast.Constant) and r.value.value is None) for r in ast.walk(fn) if isinstance(r, ast.Return))


@rule(
    "R10a",
    ["C10", "C02", "C07"],
    """SEMANTIC-PARAMETER FORWARDING: in every _lower, each construction of an Expr class K must pass every
    parameter q of K that the logical class also declares under the same name (otherwise K silently falls back to
    its default while the user's value is ignored on this path only), unless q is one of the property's performance
    knobs. Exceptions are keyed (logical class, physical class, parameter).""",
)
def r10a(ctx):
    model = ctx.model
    lowers = [(c, m) for c, m in own_methods(model, "_lower") if _nontrivial(m.node)]
    ctx.floor("_lower methods that build expressions", len(lowers), 30)
    n_calls = 0
    for c, m in lowers:
        fn = m.node
        cparams = set(model.parameters(c))
        for call in (n for n in iter_body_nodes(fn) if isinstance(n, ast.Call)):
            t = ctor_target(model, c.module, c, call)
            if t is None:
                continue
            K, how = t
            try:
                b = bind_call(model, K, call)
            except AnalysisError:
                ctx.unclassified(f"{qual(c, fn)}->{K.name}", c.module.loc(call), "parameters of target not foldable")
                continue
            n_calls += 1
            base = f"{qual(c, fn)}->{K.name}"
            for kw in b.unknown_keywords:
                ctx.bad(f"{base}:{kw}", c.module.loc(call), f"keyword `{kw}` is not a parameter of {K.qual}: Expr.__new__ asserts at optimisation time")
            if b.extra_positional and not _accepts_varargs(model, K):
                pass
            omitted = [q for q in b.params if not b.maybe_passed(q) and q in cparams and q not in KNOBS]
            if not omitted:
                ctx.ok(base + f"@{_ordinal(fn, call)}", c.module.loc(call), f"{how}: all shared semantic parameters passed")
                continue
            for q in omitted:
                cid = f"{base}:{q}"
                key = (c.qual, K.name, q)
                if key in R10A_EXCEPTIONS:
                    ctx.exempt(cid, c.module.loc(call), R10A_EXCEPTIONS[key])
                else:
                    ctx.bad(
                        cid,
                        c.module.loc(call),
                        f"{c.name}._lower builds {K.name} without passing `{q}`, which both classes declare: on this path the user's "
                        f"`{q}` is replaced by {K.name}'s default {model.defaults(K).get(q, '<required>')!r}, so the result depends on which algorithm the planner picks",
                    )
    ctx.floor("constructor calls in _lower", n_calls, 90)


def _ordinal(fn, call):
    calls = [n for n in iter_body_nodes(fn) if isinstance(n, ast.Call)]
    calls.sort(key=lambda n: (n.lineno, n.col_offset))
    return next(i for i, n in enumerate(calls) if n is call)


def _accepts_varargs(model, K):
    return True


@rule(
    "R10b",
    ["C10"],
    """SEMANTIC PARAMETERS ARE CONSULTED: for every class whose lowering is a given non-trivial _lower, each
    non-knob parameter of that class is read somewhere in that _lower - directly, through self.operand(...), through a
    property/method of the class (depth 3), or wholesale via self.operands / **self.kwargs. A parameter the lowering
    never looks at cannot influence the physical plan.""",
)
def r10b(ctx):
    model = ctx.model
    n = 0
    for c, m in own_methods(model, "_lower"):
        fn = m.node
        if not _nontrivial(fn):
            continue
        for k in model.subclasses(c):
            if k.provider("_lower") is not m:
                continue
            params = model.parameters(k)
            reads = reads_of_self(model, k, fn, depth=3)
            n += 1
            if "*operands" in reads:
                ctx.ok(f"{k.qual}._lower:params", k.loc, "operands forwarded wholesale")
                continue
            missing = [p for p in params if p not in reads and p not in KNOBS]
            if not missing:
                ctx.ok(f"{k.qual}._lower:params", k.loc, f"{len(params)} parameters consulted")
            for p in missing:
                cid = f"{k.qual}._lower:{p}"
                if (k.qual, p) in R10B_EXCEPTIONS:
                    ctx.exempt(cid, c.module.loc(fn), R10B_EXCEPTIONS[(k.qual, p)])
                else:
                    ctx.bad(cid, c.module.loc(fn), f"the lowering of {k.qual} ({qual(c, fn)}) never reads its parameter `{p}`: the physical plan cannot depend on it")
    ctx.floor("(class, lowering) pairs", n, 30)


# ---------------------------------------------------------------------------------------------
# R10d left/right mirror pairs
# ---------------------------------------------------------------------------------------------
import re as _re


def _swap_lr(t):
    return t.replace("left", "\0").replace("right", "left").replace("\0", "right")


def _side_only(x, y):
    """do the two tokens differ only in naming the other side (left_suffix vs right_suffix)?"""
    strip = lambda t: t.replace("left", "").replace("right", "")
    return x != y and strip(x) == strip(y) and ("left" in x or "right" in x)


def _tokens(t):
    return _re.findall(r"\w+|\S", t)


def _skeleton(node):
    from sa.rules.util import clone

    n = clone(node)
    for x in ast.walk(n):
        if isinstance(x, ast.Name):
            x.id = "_"
        elif isinstance(x, ast.Attribute):
            x.attr = "_"
        elif isinstance(x, ast.Constant) and isinstance(x.value, str):
            x.value = "_"
        elif isinstance(x, ast.keyword) and x.arg:
            x.arg = "_"
    return ast.dump(n)


# functions whose adjacent left/right statement pairs were confirmed to be exact mirror images on the reference tree
MIRROR_FUNCTIONS = {
    "_collection.merge",
    "_collection.merge_asof",
    "_expr._get_predicate_components",
    "_expr.Binop._simplify_up",
    "_expr.Binop._divisions",
    "_merge.Merge._meta",
    "_merge.Merge._divisions",
    "_merge.Merge._lower",
    "_merge.Merge._simplify_up",
    "_merge.HashJoinP2P._layer",
    "_merge.BroadcastJoin._layer",
    "io.parquet._DNF.extract_pq_filters",
}


@rule(
    "R10d",
    ["C10", "C03", "C02", "C12"],
    """SIDE SYMMETRY: binary operations treat their two inputs by mirrored code - adjacent statement pairs (and the two arms of
    an if/else on `broadcast_side == 'left'`) that are identical up to swapping left <-> right. In the functions where
    such pairs were confirmed exact mirror images, a pair with identical syntactic skeleton whose text differs from its
    mirror in at most three tokens is a broken mirror (one side uses the other side's suffix / key / frame): the two
    inputs are no longer treated alike.""",
)
def r10d(ctx):
    model = ctx.model
    exact = 0
    for mod, cls, fn in model.all_functions():
        fq = qual(cls, fn) if cls is not None else f"{mod.name.split('.', 1)[-1]}.{fn.name}"
        if fq not in MIRROR_FUNCTIONS:
            continue
        pairs = []
        for node in ast.walk(fn):
            for attr in ("body", "orelse"):
                blk = getattr(node, attr, None)
                if isinstance(blk, list):
                    for s1, s2 in zip(blk, blk[1:]):
                        if isinstance(s1, ast.stmt) and isinstance(s2, ast.stmt):
                            pairs.append((s1, s2, "adjacent"))
            if isinstance(node, ast.If) and node.orelse and ("'left'" in ast.unparse(node.test) or "'right'" in ast.unparse(node.test)):
                if len(node.body) == len(node.orelse):
                    for s1, s2 in zip(node.body, node.orelse):
                        pairs.append((s1, s2, "if/else arm"))
        k = 0
        for s1, s2, how in pairs:
            a, b = ast.unparse(s1), ast.unparse(s2)
            if how == "if/else arm" and a == b and ("left" in a or "right" in a) and _swap_lr(a) != a:
                cid = f"{fq}:mirror#{k}"
                k += 1
                ctx.bad(cid, mod.loc(s2), f"both arms of the side test execute `{a[:100]}`: the arm for the other side must use the other side's operand")
                continue
            if len(a) < 20 or a == b or ("left" not in a and "right" not in a):
                continue
            if _swap_lr(a) == a:
                continue
            if _skeleton(s1) != _skeleton(s2):
                continue
            ta, tb = _tokens(_swap_lr(a)), _tokens(b)
            if len(ta) != len(tb):
                continue
            diff = [(x, y) for x, y in zip(ta, tb) if x != y]
            cid = f"{fq}:mirror#{k}"
            k += 1
            if not diff:
                exact += 1
                ctx.ok(cid, mod.loc(s1), f"{how}: exact left/right mirror")
            elif len(diff) <= 3 and all(_side_only(x, y) for x, y in diff):
                ctx.bad(cid, mod.loc(s2), f"{how} statements are left/right mirror images except for {diff}: `{b[:110]}` does to one side what its sibling does to the other side with a different {', '.join(sorted({y for _, y in diff}))} - the two inputs are not treated symmetrically")
            # larger differences: not a mirror pair at all
    ctx.floor("exact left/right mirror pairs", exact, 16)


# ---------------------------------------------------------------------------------------------
# R10e mirrored helper calls (head/tail, before/after ...) carry the same options
# ---------------------------------------------------------------------------------------------
_MIRROR_WORDS = [("head", "tail"), ("heads", "tails"), ("first", "last"), ("before", "after"), ("prev", "next"), ("ffill", "bfill"), ("lower", "upper")]
_BUILTIN_CALLEES = {"min", "max", "next", "first", "last"}


def _mirror_names(name):
    toks = _re.split(r"(_)", name)
    out = set()
    for a, b in _MIRROR_WORDS:
        for x, y in ((a, b), (b, a)):
            if x in toks:
                out.add("".join(y if t == x else t for t in toks))
    return out


@rule(
    "R10e",
    ["C02", "C10"],
    """MIRRORED HELPER CALLS CARRY THE SAME OPTIONS: where one function calls two helpers whose names are mirror images
    (compute_heads / compute_tails, _head_timedelta / _tail_timedelta ...) - the look-behind and the look-ahead half of
    one algorithm - both calls pass the same keyword options and the same number of positional arguments. A grouping
    key (`by=`) passed to one half only makes the two directions of the same operation disagree.""",
)
def r10e(ctx):
    model = ctx.model
    n = 0
    for mod, cls, fn in model.all_functions():
        byname = {}
        for c in iter_body_nodes(fn):
            if isinstance(c, ast.Call) and dotted(c.func):
                nm = dotted(c.func).split(".")[-1]
                if nm not in _BUILTIN_CALLEES and "." not in dotted(c.func).replace("self.", ""):
                    byname.setdefault(nm, []).append(c)
        fq = qual(cls, fn) if cls is not None else f"{mod.name.split('.', 1)[-1]}.{fn.name}"
        for nm in sorted(byname):
            for mn in sorted(_mirror_names(nm)):
                if mn in byname and nm < mn:
                    for i, c1 in enumerate(byname[nm]):
                        for j, c2 in enumerate(byname[mn]):
                            k1 = {k.arg for k in c1.keywords}
                            k2 = {k.arg for k in c2.keywords}
                            n += 1
                            cid = f"{fq}:{nm}~{mn}#{i}.{j}"
                            if k1 == k2 and len(c1.args) == len(c2.args):
                                ctx.ok(cid, mod.loc(c1), f"both halves pass {sorted(x for x in k1 if x)} and {len(c1.args)} positionals")
                            else:
                                ctx.bad(cid, mod.loc(c2), f"`{ast.unparse(c1)[:90]}` and `{ast.unparse(c2)[:90]}` are the two halves of one operation but differ in {sorted(str(x) for x in (k1 ^ k2)) or 'positional arity'}: one direction ignores an option the other honours")
    ctx.floor("mirrored helper call pairs", n, 2)


# ---------------------------------------------------------------------------------------------
# R10f which side of which join kind may be broadcast: the two tables of Merge agree
# ---------------------------------------------------------------------------------------------
def _eval_how_side(term, how, side, side_var):
    """evaluate a condition that only depends on self.how and the broadcast side; None if it depends on anything else"""
    class T(ast.NodeTransformer):
        def visit_Attribute(self, n):
            if ast.unparse(n) == "self.how":
                return ast.copy_location(ast.Constant(value=how), n)
            if ast.unparse(n) == "self.broadcast_side":
                return ast.copy_location(ast.Constant(value=side), n)
            return self.generic_visit(n)

        def visit_Name(self, n):
            if n.id == side_var:
                return ast.copy_location(ast.Constant(value=side), n)
            return n

    from sa.rules.util import clone

    t = T().visit(clone(term))
    if any(isinstance(x, (ast.Name, ast.Attribute, ast.Call)) for x in ast.walk(t)):
        return None
    try:
        return bool(eval(compile(ast.fix_missing_locations(ast.Expression(body=t)), "<r10f>", "eval"), {"__builtins__": {}}, {}))
    except Exception:  # noqa: BLE001
        return None


@rule(
    "R10f",
    ["C10", "C02"],
    """BROADCAST TABLES AGREE: Merge decides twice which input of which join kind may be replicated to every partition of the
    other one - _is_single_partition_broadcast (a one-partition input) and is_broadcast_join (the planner's choice for
    small inputs). Replicating an input is only correct for join kinds that emit each row of the OTHER input's side once
    per match and never emit unmatched rows of the replicated side; the kinds the planner may broadcast per side must
    therefore be within the kinds the single-partition table allows for that side.""",
)
def r10f(ctx):
    model = ctx.model
    merge = model.cls("Merge", "_merge")
    sp = model.method(merge, "_is_single_partition_broadcast", own=True).node
    single = {"left": set(), "right": set()}
    for r in (x for x in ast.walk(sp) if isinstance(x, ast.Return) and x.value is not None):
        arms = r.value.values if isinstance(r.value, ast.BoolOp) and isinstance(r.value.op, ast.Or) else [r.value]
        for arm in arms:
            terms = [ast.unparse(t) for t, pol in flow.conj_terms(arm, True) if pol]
            side = "left" if "self.left.npartitions == 1" in terms else "right" if "self.right.npartitions == 1" in terms else None
            if side is None:
                continue
            for t, pol in flow.conj_terms(arm, True):
                if pol and isinstance(t, ast.Compare) and ast.unparse(t.left) == "self.how" and isinstance(t.ops[0], ast.In) and isinstance(t.comparators[0], (ast.Tuple, ast.List, ast.Set)):
                    single[side] |= {e.value for e in t.comparators[0].elts if isinstance(e, ast.Constant)}
    if not single["left"] or not single["right"]:
        raise AnalysisError("anchor vanished: per-side join kinds of Merge._is_single_partition_broadcast")
    bj = model.method(merge, "is_broadcast_join", own=True).node
    defs = flow.Defs(bj)
    cond = next((n for n in ast.walk(bj) if isinstance(n, ast.If) and "self.how" in ast.unparse(n.test)), None)
    if cond is None:
        raise AnalysisError("anchor vanished: join-kind condition of Merge.is_broadcast_join")
    side_vars = [d.name for d in defs.all if d.value is not None and ast.unparse(d.value) == "self.broadcast_side"]
    side_var = side_vars[0] if side_vars else "broadcast_side"
    kinds = set()
    for t, pol in flow.conj_terms(cond.test, True):
        if pol and isinstance(t, ast.Compare) and ast.unparse(t.left) == "self.how" and isinstance(t.ops[0], ast.In) and isinstance(t.comparators[0], (ast.Tuple, ast.List, ast.Set)):
            kinds |= {e.value for e in t.comparators[0].elts if isinstance(e, ast.Constant)}
    if not kinds:
        raise AnalysisError("anchor vanished: `self.how in (...)` of Merge.is_broadcast_join")
    ctx.info("join kinds a one-partition input may be broadcast for", {k: sorted(v) for k, v in single.items()})
    for side in ("left", "right"):
        allowed = set()
        for how in sorted(kinds):
            ok = True
            for t, pol in flow.conj_terms(cond.test, True):
                v = _eval_how_side(t, how, side, side_var)
                if v is not None and v != pol:
                    ok = False
            if ok:
                allowed.add(how)
        extra = allowed - single[side]
        cid = f"_merge.Merge.is_broadcast_join:{side}-side"
        if extra:
            ctx.bad(cid, merge.module.loc(cond), f"the planner may broadcast the {side} input of a {sorted(extra)} join, which _is_single_partition_broadcast does not allow for a one-partition {side} input ({sorted(single[side])}): every {side} row is emitted once per partition of the other input that has a match")
        else:
            ctx.ok(cid, merge.module.loc(cond), f"{sorted(allowed)} within {sorted(single[side])}")


# ---------------------------------------------------------------------------------------------
# R10g
# ---------------------------------------------------------------------------------------------


@rule(
    "R10g",
    ["C10", "C17"],
    """A SIZE-DERIVED PLANNER DECISION IS HANDED TO THE PHYSICAL NODE, NOT RE-DERIVED THERE: a physical class K produced by L._lower that
    subclasses L inherits L's planner properties. A property that decides from the partition counts of the inputs
    (`self.left.npartitions < self.right.npartitions`) gives another answer on K when L._lower wraps those inputs (repartition to the
    npartitions hint, shuffle) before building K. If K's own methods read such a property, K must override it to return an operand
    that L._lower passes. BroadcastJoin re-derived broadcast_side after the large input had been repartitioned below the small one:
    merge(how='left', broadcast=True, npartitions=2) returned 72 rows instead of 24.""",
)
def r10g(ctx):
    from sa.rules.r11 import _physical_twins

    model = ctx.model
    n = 0
    for L, K in _physical_twins(model):
        lw = L.members.get("_lower")
        # is some input of K wrapped by L._lower?  (an argument of the construction that is not plainly self.<input>)
        ctor = [c for c in ast.walk(lw.node) if isinstance(c, ast.Call) and isinstance(c.func, ast.Name) and c.func.id == K.name]
        if not ctor:
            continue
        defs = flow.Defs(lw.node)
        wrapped = False
        for call in ctor:
            for a in call.args[:2]:
                if isinstance(a, ast.Name):
                    texts = [ast.unparse(d.value) for d in defs.reaching(a.id, call) if d.value is not None]
                    if any(("(" in t or "_bcast" in t) and not t.startswith("self.") or "_bcast" in t for t in texts):
                        wrapped = True
        size_props = []
        for name, mem in L.members.items():
            if mem.kind == "attr" or mem.node is None or not isinstance(mem.node, ast.FunctionDef):
                continue
            if not any(ast.unparse(d) in ("property", "functools.cached_property", "cached_property") for d in mem.node.decorator_list):
                continue
            t = ast.unparse(mem.node)
            if re.search(r"self\.(left|right|frame)\.npartitions\s*[<>]", t):
                size_props.append(name)
        for pname in size_props:
            own_text = " ".join(ast.unparse(m.node) for nm, m in K.members.items() if m.kind != "attr" and m.node is not None and nm != pname)
            if f"self.{pname}" not in own_text:
                continue
            n += 1
            cid = f"{K.qual}:{pname}:decided-by:{L.name}"
            pv = K.provider(pname)
            overridden = pv is not None and pv.cls is not L and pv.cls.is_sub(L)
            kparams = set(model.parameters(K)) - {"left", "right", "frame"}
            reads_operand = overridden and ("operand(" in ast.unparse(pv.node) or any(isinstance(x, ast.Attribute) and isinstance(x.value, ast.Name) and x.value.id == "self" and x.attr in kparams for x in ast.walk(pv.node)))
            if overridden and reads_operand:
                ctx.ok(cid, K.loc, f"{pv.cls.qual}.{pname} answers from an operand that {L.name}._lower passes")
            elif not wrapped:
                ctx.ok(cid, K.loc, f"{L.name}._lower passes its inputs unwrapped: the inherited decision sees the same partition counts")
            else:
                ctx.bad(cid, K.loc, f"{K.qual} reads `self.{pname}` in its own methods but inherits it from {L.qual}, where it compares the partition counts of the inputs; {L.name}._lower repartitions / shuffles those inputs before building {K.name}, so the lowered node can decide differently from the planner (the broadcast side flips when the npartitions hint is below the small side's partition count: wrong join result)")
    ctx.floor("size-derived planner decisions read by physical twins", n, 1)


# ---------------------------------------------------------------------------------------------
# R10h
# ---------------------------------------------------------------------------------------------


@rule(
    "R10h",
    ["C10", "C02"],
    """THE PRESORTED VERDICT LOOKS AT MISSING KEYS: _calculate_divisions decides "the input is already ordered across partitions" from
    per-partition summaries computed with M.min / M.max, which SKIP missing values. A missing key belongs into the last (first)
    partition of a sort wherever it sits now, so the verdict must also consult a per-partition null test of the DATA (a
    map_partitions of a function that calls isna / isnull / notna / hasnans / count) - `mins.isna()` only catches partitions that are
    entirely null. Without it sort_values('t') on [0, 1, nan, 3 | 4, nan, 6, 7] left NaN in the middle of the output.""",
)
def r10h(ctx):
    model = ctx.model
    mod, fn = model.func("_shuffle", "_calculate_divisions")
    defs = flow.Defs(fn)
    # names bound from the elements of compute(...)
    null_vars = set()
    skipping = False
    for st in ast.walk(fn):
        if isinstance(st, ast.Assign) and isinstance(st.value, ast.Call) and dotted(st.value.func) == "compute" and isinstance(st.targets[0], ast.Tuple):
            for tgt, el in zip(st.targets[0].elts, st.value.args):
                t = ast.unparse(el)
                if "map_partitions(M.min" in t or "map_partitions(M.max" in t:
                    skipping = True
                for c in (x for x in ast.walk(el) if isinstance(x, ast.Call) and isinstance(x.func, ast.Attribute) and x.func.attr == "map_partitions" and x.args):
                    f0 = c.args[0]
                    body = ""
                    if isinstance(f0, ast.Name):
                        r = model.resolve_name(mod, f0.id)
                        if r is not None and r[0] == "func":
                            body = ast.unparse(r[2])
                    elif isinstance(f0, ast.Lambda):
                        body = ast.unparse(f0)
                    else:
                        body = ast.unparse(f0)
                    if re.search(r"isna\(|isnull\(|notna\(|notnull\(|hasnans|M\.count|\.count\(", body) and isinstance(tgt, ast.Name):
                        null_vars.add(tgt.id)
    if not skipping:
        raise AnalysisError("anchor vanished: per-partition M.min / M.max summaries in _calculate_divisions")
    # the decision: every assignment to `presorted` (name taken from the returned tuple's last element)
    ret = next((r for r in ast.walk(fn) if isinstance(r, ast.Return) and isinstance(r.value, ast.Tuple)), None)
    if ret is None or not isinstance(ret.value.elts[-1], ast.Name):
        raise AnalysisError("anchor vanished: the presorted flag returned by _calculate_divisions")
    flag = ret.value.elts[-1].id
    consulted = False
    for st in ast.walk(fn):
        if isinstance(st, ast.Assign) and any(isinstance(t, ast.Name) and t.id == flag for t in st.targets):
            p = flow.point_of(fn, st)
            read = names_in(st.value) | {nm for g, pol in (p.guards if p else []) for nm in names_in(g)}
            if read & null_vars:
                consulted = True
    cid = "_shuffle._calculate_divisions:presorted-vs-missing-keys"
    if consulted:
        ctx.ok(cid, mod.loc(fn), f"the presorted verdict consults the per-partition null test {sorted(null_vars)}")
    else:
        ctx.bad(cid, mod.loc(ret), "the presorted verdict is derived from M.min / M.max summaries only, which skip missing keys: a NaN / NaT / NA key in a partition that is not the last stays where it is (sort_values only sorts inside the partitions on the fast path), so the output of a sort is not sorted and depends on the npartitions hint; set_index claims divisions around the missing label")


# ---------------------------------------------------------------------------------------------
# R10i
# ---------------------------------------------------------------------------------------------


@rule(
    "R10i",
    ["C10"],
    """ONE PARTITIONING RULE FOR BOTH SIDES OF A CO-PARTITIONED JOIN: rows meet only if equal keys hash to the same piece on both sides.
    The shuffle side is partitioned by RearrangeByColumn, whose key cast is decided by `_is_numeric_cast_type` (numeric dtypes AND
    categoricals with numeric categories are hashed as float64). Every other splitter a join layer uses for the opposite side (the
    per-partition split in BroadcastJoin._layer) must be a package function that applies the same predicate - an external helper with
    its own cast rule (dask.dataframe.multi._split_partition casts only plain numeric dtypes) sends equal categorical keys to different
    pieces: a left broadcast join lost 21 of 36 matches.""",
)
def r10i(ctx):
    model = ctx.model
    rc = model.cls("RearrangeByColumn", "_shuffle")
    lw = model.method(rc, "_lower", own=True).node
    preds = {n.func.id for n in ast.walk(lw) if isinstance(n, ast.Call) and isinstance(n.func, ast.Name) and "cast" in n.func.id}
    if not preds:
        raise AnalysisError("anchor vanished: the key-cast predicate of RearrangeByColumn._lower")
    bj = model.cls("BroadcastJoin", "_merge")
    lay = model.method(bj, "_layer", own=True).node
    n = 0
    from sa.rules.util import closure_functions

    local_names = {x.id for x in ast.walk(lay) if isinstance(x, ast.Name) and isinstance(x.ctx, ast.Store)}
    for t in (x for x in ast.walk(lay) if isinstance(x, ast.Tuple) and x.elts and isinstance(x.elts[0], ast.Name) and "split" in x.elts[0].id.lower()):
        name = t.elts[0].id
        if name in local_names:
            continue  # a key tuple (name, partition), not a task
        n += 1
        cid = f"_merge.BroadcastJoin._layer:splitter:{name}"
        r = model.resolve_name(bj.module, name)
        if r is None or r[0] != "func":
            ctx.bad(cid, bj.module.loc(t), f"the non-broadcast side is split by `{name}`, which is not a function of this package: its key cast cannot be the rule of RearrangeByColumn ({sorted(preds)}) that partitioned the broadcast side - equal keys of a dtype the two rules treat differently (categoricals with numeric categories) land in different pieces and the join loses matches")
            continue
        text = " ".join(ast.unparse(f) for _, _, f in closure_functions(model, r[1], None, r[2], depth=1))
        if preds & {m_ for m_ in preds if m_ + "(" in text}:
            ctx.ok(cid, bj.module.loc(t), f"{name} applies {sorted(preds)} like RearrangeByColumn")
        else:
            ctx.bad(cid, bj.module.loc(t), f"`{name}` splits the non-broadcast side without the key-cast predicate {sorted(preds)} that RearrangeByColumn applies to the broadcast side: keys the two rules hash differently never meet")
    ctx.floor("splitters in BroadcastJoin._layer", n, 1)


# ---------------------------------------------------------------------------------------------
# R10j
# ---------------------------------------------------------------------------------------------


@rule(
    "R10j",
    ["C10", "C02", "C05"],
    """ORDER-DEPENDENT AGGREGATIONS GET AN ORDER-PRESERVING SHUFFLE: with split_out > 1 ShuffleReduce shuffles the chunk results and
    aggregates them per output partition; first / last / head / tail / keep='first' take "the first row of the concatenated chunks".
    (a) The shuffle ShuffleReduce._lower builds must take its method from `_get_shuffle_preferring_order(...)` (tasks over disk when
    nothing was asked for), like the drop_duplicates / unique entry points do - the raw parameter falls back to the disk shuffle.
    (b) A shuffle implementation keeps the input order only if the pieces it stores can be put back in input order: each per-input
    task must hand the POSITION of its input to the store. DiskShuffle appends to one shared partd under the output number alone, so the
    order of the pieces is the order in which the tasks happened to run.""",
)
def r10j(ctx):
    model = ctx.model
    sr = model.cls("ShuffleReduce", "_reductions")
    lw = model.method(sr, "_lower", own=True).node
    n = 0
    for call in (c for c in ast.walk(lw) if isinstance(c, ast.Call) and isinstance(c.func, ast.Name) and c.func.id in ("RearrangeByColumn", "Shuffle")):
        n += 1
        kw = next((k for k in call.keywords if k.arg == "method"), None)
        cid = f"_reductions.ShuffleReduce._lower:{call.func.id}:method"
        if kw is not None and isinstance(kw.value, ast.Call) and dotted(kw.value.func) == "_get_shuffle_preferring_order":
            ctx.ok(cid, sr.module.loc(call), "the shuffle method prefers an order preserving implementation")
        else:
            ctx.bad(cid, sr.module.loc(call), f"the chunks are shuffled with method `{unparse(kw.value) if kw is not None else 'default'}`: without an explicit method that is the disk based shuffle, which returns the pieces of an output partition in task execution order - groupby first / last / head / tail with split_out > 1 (chosen automatically for multi-key group-bys on > 10 partitions) answer with the value of an arbitrary input partition")
    ctx.floor("shuffles built by ShuffleReduce._lower", n, 1)
    # (c) the helper itself: only an EXPLICIT argument short-circuits; the configured / default method is mapped disk -> tasks
    umod, ufn = model.func("_util", "_get_shuffle_preferring_order")
    par = ufn.args.args[0].arg
    udefs = flow.Defs(ufn)
    rebinds = [st for st in ast.walk(ufn) if isinstance(st, ast.Assign) and any(isinstance(t, ast.Name) and t.id == par for t in st.targets)]
    early = [p for p in flow.returns(ufn) if p.stmt.value is not None and ast.unparse(p.stmt.value) == par]
    tainted = [p for p in early if any(d.value is not None for d in udefs.reaching(par, p.stmt)) and not any((not pol) and pmatch(f"{par} == 'disk'", t) is not None for t, pol in flow.facts(p))]
    maps = any(isinstance(r, ast.Return) and isinstance(r.value, ast.Constant) and r.value.value == "tasks" for r in ast.walk(ufn)) and "'disk'" in ast.unparse(ufn)
    cid = "_util._get_shuffle_preferring_order:explicit-argument-only"
    if tainted or not maps:
        ctx.bad(cid, umod.loc(tainted[0].stmt if tainted else ufn), "the short-circuit `return <method>` also fires for a method that was filled in from the configuration (the parameter is rebound before the test) or the disk -> tasks mapping is gone: with `dataframe.shuffle.method: disk` configured - the default without a cluster - order dependent reductions (drop_duplicates(keep=...), groupby first / last with split_out) get the disk shuffle, whose pieces arrive in task execution order")
    else:
        ctx.ok(cid, umod.loc(ufn), "only an explicit argument bypasses the disk -> tasks preference")
    # (b) shuffle implementations and input order
    ds = model.cls("DiskShuffle", "_shuffle")
    lay = model.method(ds, "_layer", own=True).node
    for comp in (x for x in ast.walk(lay) if isinstance(x, ast.DictComp) and "_shuffle_group" in ast.unparse(x.value)):
        gen = comp.generators[0]
        pos = gen.target.elts[0].id if isinstance(gen.target, ast.Tuple) and "enumerate(" in ast.unparse(gen.iter) and isinstance(gen.target.elts[0], ast.Name) else None
        task = comp.value
        passes_pos = pos is not None and isinstance(task, ast.Tuple) and any(isinstance(a, ast.Name) and a.id == pos for a in task.elts[1:])
        cid = "_shuffle.DiskShuffle._layer:input-order"
        if passes_pos:
            ctx.ok(cid, ds.module.loc(comp), "each per-input task hands its input position to the store")
        else:
            ctx.bad(cid, ds.module.loc(comp), "the per-input tasks append their pieces to one shared store keyed by the output partition only (the input position never reaches _shuffle_group): collect() returns the pieces of an output partition in the order the tasks ran, not in input order - with shuffle_method='disk' groupby first/last(split_out=2), groupby ffill/bfill and drop_duplicates(keep=...) see permuted rows and can differ from run to run")


# ---------------------------------------------------------------------------------------------
# R10k
# ---------------------------------------------------------------------------------------------


@rule(
    "R10k",
    ["C10", "C06", "C11"],
    """THE LOGICAL JOIN REPORTS THE PARTITIONS ITS LOWERING PRODUCES: Merge._lower returns a BlockwiseMerge as soon as
    `_is_single_partition_broadcast` holds - the result then has the partitions of the larger side. Merge._divisions must not answer
    with the merged union of both sides' divisions on that path: every return whose value derives from `merge_sorted(...)` /
    `unique(...)` of the two division tuples needs `_is_single_partition_broadcast` ruled out on the way (a negated guard or an
    earlier return under it). l.join(<one-partition r>) reported 5 partitions and computed 3; tail() raised IndexError.""",
)
def r10k(ctx):
    model = ctx.model
    c = model.cls("Merge", "_merge")
    lw = model.method(c, "_lower", own=True).node
    first_branch = next((i_ for i_ in lw.body if isinstance(i_, ast.If)), None)
    if first_branch is None or "_is_single_partition_broadcast" not in ast.unparse(first_branch.test):
        ctx.unclassified("_merge.Merge._lower:precedence", c.module.loc(lw), "the single-partition broadcast is no longer the first decision of Merge._lower")
        return
    fn = model.method(c, "_divisions", own=True).node
    defs = flow.Defs(fn)
    n = 0
    for p in flow.returns(fn):
        v = p.stmt.value
        if v is None:
            continue
        chain = ast.unparse(v) + " " + " ".join(ast.unparse(d.value) for nm in names_in(v) for d in defs.reaching(nm, p.stmt) if d.value is not None)
        if "merge_sorted(" not in chain:
            continue
        n += 1
        def _gtext(g):
            return ast.unparse(g) + " " + " ".join(ast.unparse(d.value) for nm in names_in(g) for d in defs.reaching(nm, p.stmt) if d.value is not None)

        ruled_out = any("_is_single_partition_broadcast" in _gtext(g) for g, pol in p.guards if not pol)
        cid = f"_merge.Merge._divisions:merged-divisions#{n}"
        if ruled_out:
            ctx.ok(cid, c.module.loc(p.stmt), "the single-partition broadcast is answered before the merged divisions")
        else:
            ctx.bad(cid, c.module.loc(p.stmt), f"`{unparse(p.stmt)}` answers with the merged divisions of both sides although Merge._lower takes the single-partition broadcast first (BlockwiseMerge keeps the partitions of the larger side): the logical node reports partitions that are never computed - tail(), partitions[-1], head(npartitions=-1) index past the end")
    # (b) on the single-partition-broadcast path the lowering is a BlockwiseMerge over the partitions of the larger side; the user's
    # npartitions hint is not applied there, so the logical node must not advertise it
    for st in flow.walk(fn):
        if not isinstance(st.stmt, ast.Assign):
            continue
        if not any(pol and "_is_single_partition_broadcast" in (ast.unparse(t) + " " + " ".join(ast.unparse(d.value) for nm in names_in(t) for d in defs.reaching(nm, st.stmt) if d.value is not None)) for t, pol in flow.facts(st)):
            continue
        n += 1
        cid = f"_merge.Merge._divisions:single-partition-count:{ast.unparse(st.stmt.targets[0])}"
        if "self._npartitions" in ast.unparse(st.stmt.value) or "operand('_npartitions')" in ast.unparse(st.stmt.value):
            ctx.bad(cid, c.module.loc(st.stmt), f"`{unparse(st.stmt)}` advertises the user's npartitions hint on the single-partition-broadcast path, where Merge._lower returns a BlockwiseMerge with the partitions of the larger input and never applies the hint: npartitions / divisions of the logical node disagree with the graph (partitions[k], tail() index past the end)")
        else:
            ctx.ok(cid, c.module.loc(st.stmt), "the partition count of the blockwise merge is that of the larger input")
    ctx.floor("merged-division returns of Merge._divisions", n, 1)
