"""C05: results do not depend on scheduling; tasks never mutate their inputs - ownership clauses."""
from __future__ import annotations

import ast

from sa import flow
from sa.model import AnalysisError, dotted, unparse
from sa.own import BORROWED, Ownership
from sa.rules import LEVEL_TEXT, rule
from sa.rules.util import const_str, external_name, is_self_attr, iter_body_nodes, own_methods, qual

LEVEL_TEXT["C05"] = (
    "Decides the ownership clauses of C05: no task callable defined in the repository mutates an argument it received "
    "(only values it created or copied); no method mutates a container held in an expression's operands (the operands "
    "are shared by every expression rebuilt from them and determine the name); source data reaches the graph only as "
    "slices of a private copy; per-partition random seeds are drawn once per expression; the disk shuffle's readers "
    "wait for all writers. Undecided: equality of results across all topological orders and thread counts."
)


# ------------------------------------------------------------------------------------------
# collecting task callables
# ------------------------------------------------------------------------------------------


def task_callables(model):
    """[(module, owner class|None, FunctionDef, how found)] for callables that run as tasks."""
    out = {}

    def add(mod, cls, fn, how):
        out.setdefault(id(fn), (mod, cls, fn, how))

    for c in model.expr_classes():
        for name in ("operation", "chunk", "combine", "aggregate", "reduction_chunk", "reduction_combine", "reduction_aggregate", "chunk_operation", "aggregate_operation", "func"):
            m = c.members.get(name)
            if m is None:
                continue
            if m.kind in ("staticmethod", "classmethod", "func"):
                add(c.module, c, m.node, f"{c.qual}.{name}")
            elif m.kind == "attr":
                tgt = m.node
                if isinstance(tgt, ast.Call) and dotted(tgt.func) in ("staticmethod", "classmethod") and tgt.args:
                    tgt = tgt.args[0]
                if isinstance(tgt, ast.Call) and dotted(tgt.func) in ("functools.partial", "partial") and tgt.args:
                    tgt = tgt.args[0]
                if isinstance(tgt, (ast.Name, ast.Attribute)):
                    r = model.resolve_expr(c.module, tgt)
                    if r is not None and r[0] == "func":
                        add(r[1], None, r[2], f"{c.qual}.{name}")
        for mname in ("_task", "_layer", "_filtered_task"):
            m = c.members.get(mname)
            if m is None or m.kind == "attr":
                continue
            for t in iter_body_nodes(m.node):
                if isinstance(t, ast.Tuple) and t.elts and isinstance(t.ctx, ast.Load):
                    cands = [t.elts[0]]
                    # (apply, func, args, kwargs)
                    if dotted(t.elts[0]) == "apply" and len(t.elts) > 1:
                        cands.append(t.elts[1])
                    for head in cands:
                        if isinstance(head, ast.Name):
                            r = model.resolve_name(c.module, head.id)
                            if r is not None and r[0] == "func":
                                add(r[1], None, r[2], f"{c.qual}.{mname}")
                        elif is_self_attr(head) or (isinstance(head, ast.Attribute) and isinstance(head.value, ast.Name)):
                            owner = c
                            if not is_self_attr(head):
                                r = model.resolve_name(c.module, head.value.id)
                                owner = r[1] if r is not None and r[0] == "class" else None
                            if owner is not None:
                                mm = owner.provider(head.attr)
                                if mm is not None and mm.kind in ("staticmethod", "classmethod"):
                                    add(mm.cls.module, mm.cls, mm.node, f"{c.qual}.{mname}")
    # helpers called directly by task callables (one level)
    for mod, cls, fn, how in list(out.values()):
        for call in (n for n in iter_body_nodes(fn) if isinstance(n, ast.Call)):
            f = call.func
            tgt = None
            if isinstance(f, ast.Name):
                r = model.resolve_name(mod, f.id)
                if r is not None and r[0] == "func":
                    tgt = (r[1], None, r[2])
            elif isinstance(f, ast.Attribute) and isinstance(f.value, ast.Name) and f.value.id in ("cls",) and cls is not None:
                mm = cls.provider(f.attr)
                if mm is not None and mm.kind in ("staticmethod", "classmethod"):
                    tgt = (mm.cls.module, mm.cls, mm.node)
            elif isinstance(f, ast.Attribute) and isinstance(f.value, ast.Name):
                r = model.resolve_name(mod, f.value.id)
                if r is not None and r[0] == "class":
                    mm = r[1].provider(f.attr)
                    if mm is not None and mm.kind in ("staticmethod", "classmethod"):
                        tgt = (mm.cls.module, mm.cls, mm.node)
            if tgt is not None:
                add(tgt[0], tgt[1], tgt[2], f"helper of {fn.name}")
    return list(out.values())


R05A_EXCEPTIONS = {
    # (function qual, target) -> reason
    ("_expr.Fused._execute_task", "graph"): "the sub-graph dict is a literal owned by this one task (built per partition by Fused._task); the writes are the idempotent '_i' placeholder bindings",
    ("_shuffle.DiskShuffle._shuffle_group", "p"): "`p` is the partd store: appending to it IS the disk shuffle's ordered side effect (sequenced by the barrier, rule R05d)",
}


@rule(
    "R05a",
    ["C05"],
    """BORROWED-ARGUMENT MUTATION: in every task callable defined in the repository (operation / chunk / combine / aggregate
    functions of expression classes, functions and static methods placed at the head of task tuples, and the helpers
    they call) a parameter is BORROWED: it belongs to another task or to the user. Item / attribute assignment, del,
    in-place container methods and inplace=True on a BORROWED value (or an alias / view / element of it) are
    violations; values returned by .copy(), constructors or non-inplace pandas methods are FRESH.""",
)
def r05a(ctx):
    model = ctx.model
    fns = task_callables(model)
    ctx.floor("task callables", len(fns), 60)
    for mod, cls, fn, how in fns:
        params = [a.arg for a in fn.args.posonlyargs + fn.args.args + fn.args.kwonlyargs]
        if fn.args.vararg:
            params.append(fn.args.vararg.arg)
        # **kwargs is a dict created afresh for every call: popping from it touches nobody else
        params = {p for p in params if p not in ("self", "cls")}
        defs_probe = flow.Defs(fn)

        def root(e, params=params, defs_probe=defs_probe):
            if isinstance(e, ast.Name) and e.id in params:
                ds = defs_probe.reaching(e.id, e)
                return any(d.kind == "param" for d in ds)
            return False

        own = Ownership(fn, root)
        fq = qual(cls, fn) if cls is not None else f"{mod.name.split('.', 1)[-1]}.{fn.name}"
        hits = list(own.borrowed_mutations())
        if not hits:
            ctx.ok(fq, mod.loc(fn), how)
            continue
        seen = set()
        for n, target, what in hits:
            cid = f"{fq}:{unparse(target)}"
            if cid in seen:
                continue
            seen.add(cid)
            if (fq, unparse(target)) in R05A_EXCEPTIONS:
                ctx.exempt(cid, mod.loc(n), R05A_EXCEPTIONS[(fq, unparse(target))])
            else:
                ctx.bad(cid, mod.loc(n), f"task callable {fq} ({how}) performs {what} on `{unparse(target)}`, which it received as an argument (not copied): the object is shared with other consumers of that key / with the user's data / with every other partition's task")


# (class, parameter) whose operand may be overwritten outside construction, with reason
R05B_WRITE_EXCEPTIONS = {
    "_dataset_info_cache": "memo slot excluded from the expression name (ReadParquet._name drops it and adds the dataset checksum); filled once with data derived from the other operands",
}


def _operand_root(model, cls):
    def root(e):
        if is_self_attr(e, "operands"):
            return True
        if isinstance(e, ast.Subscript) and is_self_attr(e.value, "operands"):
            return True
        if isinstance(e, ast.Call) and is_self_attr(e.func, "operand"):
            return True
        if is_self_attr(e):
            kind, mem = model.attr_kind(cls, e.attr)
            if kind == "operand":
                return True
        return False

    return root


@rule(
    "R05b",
    ["C05", "C08", "C15", "C16"],
    """OPERAND CONTAINERS ARE IMMUTABLE: in every method of an expression class (outside __new__/__init__) a container
    reached from self.operands / self.operand(p) / self.p (operand access through __getattr__) - or a local alias of
    it - may not be mutated in place unless first copied, and self.operands[i] may not be re-bound, except for the
    memo slot `_dataset_info_cache`. Operands are shared by every expression rebuilt from them and are what the
    name was computed from.""",
)
def r05b(ctx):
    model = ctx.model
    n = 0
    for c in model.expr_classes():
        for m in model.functions_of(c):
            if m.name in ("__new__", "__init__"):
                continue
            fn = m.node
            n += 1
            # cheap pre-filter
            src_has_mut = any(
                isinstance(x, (ast.Delete, ast.AugAssign))
                or (isinstance(x, ast.Assign) and any(isinstance(t, (ast.Subscript, ast.Attribute)) for t in x.targets))
                or (isinstance(x, ast.Call) and isinstance(x.func, ast.Attribute) and x.func.attr in ("pop", "popitem", "update", "append", "extend", "insert", "setdefault", "clear", "remove", "sort"))
                for x in iter_body_nodes(fn)
            )
            fq = qual(c, fn)
            if not src_has_mut:
                ctx.ok(fq, c.module.loc(fn))
                continue
            own = Ownership(fn, _operand_root(model, c))
            hits = []
            for node, target, what in own.borrowed_mutations():
                # re-binding an element of self.operands
                if isinstance(node, ast.Assign) and is_self_attr(target, "operands"):
                    idx_txt = unparse(node.targets[0].slice) if isinstance(node.targets[0], ast.Subscript) else ""
                    which = [p for p in R05B_WRITE_EXCEPTIONS if p in idx_txt]
                    if which:
                        ctx.exempt(f"{fq}:operands[{which[0]}]", c.module.loc(node), R05B_WRITE_EXCEPTIONS[which[0]])
                        continue
                hits.append((node, target, what))
            if not hits:
                ctx.ok(fq, c.module.loc(fn))
            seen = set()
            for node, target, what in hits:
                cid = f"{fq}:{unparse(target)}"
                if cid in seen:
                    continue
                seen.add(cid)
                ctx.bad(cid, c.module.loc(node), f"{what} mutates `{unparse(target)}`, a container held in the expression's operands: every expression rebuilt from these operands (and the already computed name) now sees different contents, and the outcome depends on which method ran first")
    ctx.floor("methods of expression classes", n, 800)


@rule(
    "R05c",
    ["C05"],
    """SOURCE COPY: from_pandas wraps a copy of the user's object (`_BackendData(data.copy())`) on every path that builds a
    FromPandas expression, and FromPandas._filtered_task hands out only slices (.iloc[...]) of the wrapped frame -
    never the wrapped object or its ._data itself.""",
)
def r05c(ctx):
    model = ctx.model
    mod, fn = model.func("_collection", "from_pandas")
    calls = [n for n in ast.walk(fn) if isinstance(n, ast.Call) and dotted(n.func) in ("FromPandas", "FromPandasDivisions")]
    if not calls:
        raise AnalysisError("anchor vanished: from_pandas no longer builds FromPandas")
    r05c_defs = flow.Defs(fn)
    for i, call in enumerate(calls):
        cid = f"_collection.from_pandas:FromPandas#{i}"
        arg = call.args[0] if call.args else None
        wrapped = arg.args[0] if isinstance(arg, ast.Call) and dotted(arg.func) == "_BackendData" and arg.args else None
        if isinstance(wrapped, ast.Name):
            wrapped = r05c_defs.single_value(wrapped.id, call) or wrapped
        # an explicit opt-out parameter whose default keeps the copy: `data.copy() if copy else data` with copy=True
        if isinstance(wrapped, ast.IfExp) and isinstance(wrapped.test, ast.Name) and _default_is_true(fn, wrapped.test.id):
            wrapped = wrapped.body
        good = (
            isinstance(wrapped, ast.Call)
            and isinstance(wrapped.func, ast.Attribute)
            and wrapped.func.attr == "copy"
            and not wrapped.args
            and not any(k.arg == "deep" and not (isinstance(k.value, ast.Constant) and k.value.value is True) for k in wrapped.keywords)
        )
        if good:
            ctx.ok(cid, mod.loc(call), unparse(arg))
        else:
            ctx.bad(cid, mod.loc(call), f"source frame is wrapped as `{unparse(arg) if arg is not None else None}` without a deep .copy(): later in-place edits of the user's object (or of the numpy buffer it wraps) change the collection, and vice versa")
    fp = model.cls("FromPandas")
    for c in model.subclasses(fp):
        m = c.members.get("_filtered_task")
        if m is None:
            continue
        ft = m.node
        defs = flow.Defs(ft)
        for i, p in enumerate(flow.returns(ft)):
            v = p.stmt.value
            cid = f"{qual(c, ft)}#return{i}"
            if _derives_from_slice(v, defs, set()):
                ctx.ok(cid, c.module.loc(p.stmt), "a slice of the private copy")
            else:
                ctx.bad(cid, c.module.loc(p.stmt), f"`return {unparse(v)}` can hand the wrapped source object itself (not an .iloc slice / copy) to the graph: a task or the user editing a computed partition in place changes the source for every later compute")


def _default_is_true(fn, name):
    a = fn.args
    pos = a.posonlyargs + a.args
    for p, d in zip(pos[len(pos) - len(a.defaults) :], a.defaults):
        if p.arg == name:
            return isinstance(d, ast.Constant) and d.value is True
    for p, d in zip(a.kwonlyargs, a.kw_defaults):
        if p.arg == name:
            return isinstance(d, ast.Constant) and d.value is True
    return False


def _derives_from_slice(v, defs, seen, depth=0):
    """every path producing v goes through .iloc[...] / .loc[...] / .copy()"""
    if v is None or depth > 6:
        return False
    if isinstance(v, ast.Subscript):
        if isinstance(v.value, ast.Attribute) and v.value.attr in ("iloc", "loc"):
            return True
        return _derives_from_slice(v.value, defs, seen, depth + 1)
    if isinstance(v, ast.Call):
        if isinstance(v.func, ast.Attribute) and v.func.attr == "copy":
            return True
        # a function applied to a sliced value (to_pyarrow_string(part))
        return bool(v.args) and all(_derives_from_slice(a, defs, seen, depth + 1) for a in v.args[:1])
    if isinstance(v, ast.IfExp):
        return _derives_from_slice(v.body, defs, seen, depth + 1) and _derives_from_slice(v.orelse, defs, seen, depth + 1)
    if isinstance(v, ast.Name):
        ds = [d for d in defs.reaching(v.id, v) if d.kind in ("assign", "walrus")]
        if not ds or any(d.kind == "param" for d in defs.reaching(v.id, v)):
            return False
        return all(d.value is not None and (id(d.stmt) in seen or _derives_from_slice(d.value, defs, seen | {id(d.stmt)}, depth + 1)) for d in ds)
    return False


RANDOM_DRAWS = ("dask.utils.random_state_data", "numpy.random.", "random.")
R05E_EXCEPTIONS = {
    "_quantiles.RepartitionQuantiles._layer": "the seed is never None here: a missing random_state is replaced by an integer derived from the operands' token before the draw",
}


@rule(
    "R05e",
    ["C05", "C08"],
    """ONE RANDOM DRAW PER EXPRESSION: a member of an expression class that draws random state (dask.utils.random_state_data,
    numpy.random.*, random.*) and is read by a task builder must be a cached_property (or the draw must live in an
    operand): a plain property/method re-draws for every task and every graph materialisation, so two computes of one
    collection differ.""",
)
def r05e(ctx):
    model = ctx.model
    n = 0
    for c in model.expr_classes():
        for m in model.functions_of(c):
            fn = m.node
            draws = []
            for call in (x for x in iter_body_nodes(fn) if isinstance(x, ast.Call)):
                ext = external_name(model, c.module, call.func)
                if ext is None:
                    continue
                ext = ext.replace("np.random", "numpy.random")
                if any(ext.startswith(p) for p in RANDOM_DRAWS):
                    # explicitly seeded generator objects are deterministic
                    if ext.startswith("numpy.random.RandomState") and (call.args or call.keywords):
                        continue
                    draws.append((call, ext))
            if not draws:
                continue
            n += 1
            cid = f"{qual(c, fn)}:random-draw"
            if m.kind == "cached_property":
                ctx.ok(cid, c.module.loc(fn), "drawn once per expression (cached_property)")
            elif qual(c, fn) in R05E_EXCEPTIONS:
                ctx.exempt(cid, c.module.loc(fn), R05E_EXCEPTIONS[qual(c, fn)])
            else:
                call, ext = draws[0]
                ctx.bad(cid, c.module.loc(call), f"{qual(c, fn)} is a {m.kind} that calls {ext}: the random state is re-drawn on every access, i.e. for every task and for every materialisation of the graph")
    ctx.floor("random-drawing members", n, 1)


@rule(
    "R05d",
    ["C05"],
    """ORDERED SIDE EFFECTS: in DiskShuffle._layer every reader task (collect) carries the barrier key and the barrier task
    lists every writer key, so no partition is read from disk before all partitions were written.""",
)
def r05d(ctx):
    model = ctx.model
    ds = model.cls("DiskShuffle")
    fn = model.method(ds, "_layer", own=True).node
    defs = flow.Defs(fn)
    # barrier task: (barrier, list(<writers dict>))
    barrier_assign = None
    writers_name = None
    for n in ast.walk(fn):
        if isinstance(n, ast.Dict) and len(n.values) == 1 and isinstance(n.values[0], ast.Tuple) and n.values[0].elts and dotted(n.values[0].elts[0]) == "barrier":
            barrier_assign = n
            arg = n.values[0].elts[1] if len(n.values[0].elts) > 1 else None
            if isinstance(arg, ast.Call) and dotted(arg.func) == "list" and arg.args and isinstance(arg.args[0], ast.Name):
                writers_name = arg.args[0].id
    if barrier_assign is None:
        raise AnalysisError("anchor vanished: barrier task in DiskShuffle._layer")
    wv = defs.single_value(writers_name, barrier_assign) if writers_name else None
    good = isinstance(wv, ast.DictComp) and any(is_self_attr(x, "_shuffle_group") for x in ast.walk(wv.value))
    (ctx.ok if good else ctx.bad)("_shuffle.DiskShuffle._layer:barrier-lists-writers", ds.module.loc(barrier_assign), "barrier depends on every writer key" if good else "the barrier task no longer lists all writer (shuffle-partition) keys")
    bkey = unparse(barrier_assign.keys[0])
    readers = [n for n in ast.walk(fn) if isinstance(n, ast.Tuple) and n.elts and dotted(n.elts[0]) == "collect"]
    if not readers:
        raise AnalysisError("anchor vanished: collect tasks in DiskShuffle._layer")
    for i, r in enumerate(readers):
        good = any(unparse(e) == bkey for e in r.elts[1:])
        (ctx.ok if good else ctx.bad)(f"_shuffle.DiskShuffle._layer:reader#{i}", ds.module.loc(r), "reader waits for the barrier" if good else f"collect task `{unparse(r)}` does not depend on the barrier key {bkey}: it can read the partd store before all writers finished")


@rule(
    "R05f",
    ["C05", "C15"],
    """COLLECTIONS ARE NOT EDITED THROUGH AN ALIAS: in the methods of the collection classes (FrameBase, DataFrame, Series,
    Index) a local that may still be `self` (assigned from `self` without .copy() / a selection / another derived
    collection on some path) may not be item-assigned or have attributes set: `alias[col] = ...` goes through
    __setitem__, which re-binds the USER's collection to the new expression.""",
)
def r05f(ctx):
    model = ctx.model
    n = 0
    for cname in ("FrameBase", "DataFrame", "Series", "Index"):
        c = model.cls(cname, "_collection")
        for m in model.functions_of(c):
            fn = m.node
            if fn.name in ("__setitem__", "__setattr__", "__delitem__", "__init__") or not fn.args.args or fn.args.args[0].arg != "self":
                continue
            n += 1
            aliases = [x for x in iter_body_nodes(fn) if isinstance(x, ast.Assign) and isinstance(x.value, ast.Name) and x.value.id == "self"]
            if not aliases:
                ctx.ok(qual(c, fn), c.module.loc(fn))
                continue

            def root(e):
                return isinstance(e, ast.Name) and e.id == "self"

            own = Ownership(fn, root, views_are_borrowed=False)
            hits = [(node, target, what) for node, target, what in own.borrowed_mutations() if isinstance(target, ast.Name) and target.id != "self" and (isinstance(node, (ast.Assign, ast.AugAssign)) and any(isinstance(t, ast.Subscript) for t in (node.targets if isinstance(node, ast.Assign) else [node.target])))]
            if not hits:
                ctx.ok(qual(c, fn), c.module.loc(fn), "aliases of self are copied / re-derived before being edited")
            for node, target, what in hits[:1]:
                ctx.bad(f"{qual(c, fn)}:{target.id}", c.module.loc(node), f"{what}: `{target.id}` may still be `self` on this path (no .copy() / selection in between), so the method rewrites the caller's collection in place - its name, dtypes and later computes change although the method is documented to return a new object")
    ctx.floor("collection methods", n, 200)
