"""C05: results do not depend on scheduling; tasks never mutate their inputs - ownership clauses."""
from __future__ import annotations

import ast

from sa import flow
from sa.model import AnalysisError, dotted, unparse
from sa.own import BORROWED, Ownership
from sa.rules import LEVEL_TEXT, rule
from sa.rules.util import const_str, ctor_target, external_name, is_self_attr, iter_body_nodes, own_methods, qual

LEVEL_TEXT["C05"] = (
    "Decides the ownership clauses of C05: no task callable defined in the repository mutates an argument it received "
    "(only values it created or copied); no method mutates a container held in an expression's operands (the operands "
    "are shared by every expression rebuilt from them and determine the name); source data reaches the graph only as "
    "slices of a private copy; per-partition random seeds are drawn once per expression; the disk shuffle's readers "
    "wait for all writers. Undecided: equality of results across all topological orders and thread counts."
)


# ------------------------------------------------------------------------------------------
# collecting task callables
# ------------------------------------------------------------------------------------------


def task_callables(model):
    """[(module, owner class|None, FunctionDef, how found)] for callables that run as tasks."""
    out = {}

    def add(mod, cls, fn, how):
        out.setdefault(id(fn), (mod, cls, fn, how))

    for c in model.expr_classes():
        for name in ("operation", "chunk", "combine", "aggregate", "reduction_chunk", "reduction_combine", "reduction_aggregate", "chunk_operation", "aggregate_operation", "func"):
            m = c.members.get(name)
            if m is None:
                continue
            if m.kind in ("staticmethod", "classmethod", "func"):
                add(c.module, c, m.node, f"{c.qual}.{name}")
            elif m.kind == "attr":
                tgt = m.node
                if isinstance(tgt, ast.Call) and dotted(tgt.func) in ("staticmethod", "classmethod") and tgt.args:
                    tgt = tgt.args[0]
                if isinstance(tgt, ast.Call) and dotted(tgt.func) in ("functools.partial", "partial") and tgt.args:
                    tgt = tgt.args[0]
                if isinstance(tgt, (ast.Name, ast.Attribute)):
                    r = model.resolve_expr(c.module, tgt)
                    if r is not None and r[0] == "func":
                        add(r[1], None, r[2], f"{c.qual}.{name}")
        for mname in ("_task", "_layer", "_filtered_task"):
            m = c.members.get(mname)
            if m is None or m.kind == "attr":
                continue
            for t in iter_body_nodes(m.node):
                if isinstance(t, ast.Tuple) and t.elts and isinstance(t.ctx, ast.Load):
                    cands = [t.elts[0]]
                    # (apply, func, args, kwargs)
                    if dotted(t.elts[0]) == "apply" and len(t.elts) > 1:
                        cands.append(t.elts[1])
                    for head in cands:
                        if isinstance(head, ast.Name):
                            r = model.resolve_name(c.module, head.id)
                            if r is not None and r[0] == "func":
                                add(r[1], None, r[2], f"{c.qual}.{mname}")
                        elif is_self_attr(head) or (isinstance(head, ast.Attribute) and isinstance(head.value, ast.Name)):
                            owner = c
                            if not is_self_attr(head):
                                r = model.resolve_name(c.module, head.value.id)
                                owner = r[1] if r is not None and r[0] == "class" else None
                            if owner is not None:
                                mm = owner.provider(head.attr)
                                if mm is not None and mm.kind in ("staticmethod", "classmethod"):
                                    add(mm.cls.module, mm.cls, mm.node, f"{c.qual}.{mname}")
    # helpers called directly by task callables (one level)
    for mod, cls, fn, how in list(out.values()):
        for call in (n for n in iter_body_nodes(fn) if isinstance(n, ast.Call)):
            f = call.func
            tgt = None
            if isinstance(f, ast.Name):
                r = model.resolve_name(mod, f.id)
                if r is not None and r[0] == "func":
                    tgt = (r[1], None, r[2])
            elif isinstance(f, ast.Attribute) and isinstance(f.value, ast.Name) and f.value.id in ("cls",) and cls is not None:
                mm = cls.provider(f.attr)
                if mm is not None and mm.kind in ("staticmethod", "classmethod"):
                    tgt = (mm.cls.module, mm.cls, mm.node)
            elif isinstance(f, ast.Attribute) and isinstance(f.value, ast.Name):
                r = model.resolve_name(mod, f.value.id)
                if r is not None and r[0] == "class":
                    mm = r[1].provider(f.attr)
                    if mm is not None and mm.kind in ("staticmethod", "classmethod"):
                        tgt = (mm.cls.module, mm.cls, mm.node)
            if tgt is not None:
                add(tgt[0], tgt[1], tgt[2], f"helper of {fn.name}")
    return list(out.values())


R05A_EXCEPTIONS = {
    # (function qual, target) -> reason
    ("_expr.Fused._execute_task", "graph"): "the sub-graph dict is a literal owned by this one task (built per partition by Fused._task); the writes are the idempotent '_i' placeholder bindings",
    ("_shuffle.DiskShuffle._shuffle_group", "p"): "`p` is the partd store: appending to it IS the disk shuffle's ordered side effect (sequenced by the barrier, rule R05d)",
}


@rule(
    "R05a",
    ["C05", "C15"],
    """BORROWED-ARGUMENT MUTATION: in every task callable defined in the repository (operation / chunk / combine / aggregate
    functions of expression classes, functions and static methods placed at the head of task tuples, and the helpers
    they call) a parameter is BORROWED: it belongs to another task or to the user. Item / attribute assignment, del,
    in-place container methods and inplace=True on a BORROWED value (or an alias / view / element of it) are
    violations; values returned by .copy(), constructors or non-inplace pandas methods are FRESH.""",
)
def r05a(ctx):
    model = ctx.model
    fns = task_callables(model)
    ctx.floor("task callables", len(fns), 60)
    for mod, cls, fn, how in fns:
        params = [a.arg for a in fn.args.posonlyargs + fn.args.args + fn.args.kwonlyargs]
        if fn.args.vararg:
            params.append(fn.args.vararg.arg)
        # **kwargs is a dict created afresh for every call: popping from it touches nobody else
        params = {p for p in params if p not in ("self", "cls")}
        defs_probe = flow.Defs(fn)

        def root(e, params=params, defs_probe=defs_probe):
            if isinstance(e, ast.Name) and e.id in params:
                ds = defs_probe.reaching(e.id, e)
                return any(d.kind == "param" for d in ds)
            return False

        own = Ownership(fn, root)
        fq = qual(cls, fn) if cls is not None else f"{mod.name.split('.', 1)[-1]}.{fn.name}"
        hits = list(own.borrowed_mutations())
        if not hits:
            ctx.ok(fq, mod.loc(fn), how)
            continue
        seen = set()
        for n, target, what in hits:
            cid = f"{fq}:{unparse(target)}"
            if cid in seen:
                continue
            seen.add(cid)
            if (fq, unparse(target)) in R05A_EXCEPTIONS:
                ctx.exempt(cid, mod.loc(n), R05A_EXCEPTIONS[(fq, unparse(target))])
            else:
                ctx.bad(cid, mod.loc(n), f"task callable {fq} ({how}) performs {what} on `{unparse(target)}`, which it received as an argument (not copied): the object is shared with other consumers of that key / with the user's data / with every other partition's task")


# (class, parameter) whose operand may be overwritten outside construction, with reason
R05B_WRITE_EXCEPTIONS = {
    "_dataset_info_cache": "memo slot excluded from the expression name (ReadParquet._name drops it and adds the dataset checksum); filled once with data derived from the other operands",
}


def _operand_root(model, cls):
    def root(e):
        if is_self_attr(e, "operands"):
            return True
        if isinstance(e, ast.Subscript) and is_self_attr(e.value, "operands"):
            return True
        if isinstance(e, ast.Call) and is_self_attr(e.func, "operand"):
            return True
        if is_self_attr(e):
            kind, mem = model.attr_kind(cls, e.attr)
            if kind == "operand":
                return True
        return False

    return root


@rule(
    "R05b",
    ["C05", "C08", "C15", "C16", "C19"],
    """OPERAND CONTAINERS ARE IMMUTABLE: in every method of an expression class (outside __new__/__init__) a container
    reached from self.operands / self.operand(p) / self.p (operand access through __getattr__) - or a local alias of
    it - may not be mutated in place unless first copied, and self.operands[i] may not be re-bound, except for the
    memo slot `_dataset_info_cache`. Operands are shared by every expression rebuilt from them and are what the
    name was computed from.""",
)
def r05b(ctx):
    model = ctx.model
    n = 0
    for c in model.expr_classes():
        for m in model.functions_of(c):
            if m.name in ("__new__", "__init__"):
                continue
            fn = m.node
            n += 1
            # cheap pre-filter
            src_has_mut = any(
                isinstance(x, (ast.Delete, ast.AugAssign))
                or (isinstance(x, ast.Assign) and any(isinstance(t, (ast.Subscript, ast.Attribute)) for t in x.targets))
                or (isinstance(x, ast.Call) and isinstance(x.func, ast.Attribute) and x.func.attr in ("pop", "popitem", "update", "append", "extend", "insert", "setdefault", "clear", "remove", "sort"))
                for x in iter_body_nodes(fn)
            )
            fq = qual(c, fn)
            if not src_has_mut:
                ctx.ok(fq, c.module.loc(fn))
                continue
            own = Ownership(fn, _operand_root(model, c))
            hits = []
            for node, target, what in own.borrowed_mutations():
                # re-binding an element of self.operands
                if isinstance(node, ast.Assign) and is_self_attr(target, "operands"):
                    idx_txt = unparse(node.targets[0].slice) if isinstance(node.targets[0], ast.Subscript) else ""
                    which = [p for p in R05B_WRITE_EXCEPTIONS if p in idx_txt]
                    if which:
                        ctx.exempt(f"{fq}:operands[{which[0]}]", c.module.loc(node), R05B_WRITE_EXCEPTIONS[which[0]])
                        continue
                hits.append((node, target, what))
            if not hits:
                ctx.ok(fq, c.module.loc(fn))
            seen = set()
            for node, target, what in hits:
                cid = f"{fq}:{unparse(target)}"
                if cid in seen:
                    continue
                seen.add(cid)
                ctx.bad(cid, c.module.loc(node), f"{what} mutates `{unparse(target)}`, a container held in the expression's operands: every expression rebuilt from these operands (and the already computed name) now sees different contents, and the outcome depends on which method ran first")
    ctx.floor("methods of expression classes", n, 800)


@rule(
    "R05c",
    ["C05"],
    """SOURCE COPY: from_pandas wraps a copy of the user's object (`_BackendData(data.copy())`) on every path that builds a
    FromPandas expression, and FromPandas._filtered_task hands out only slices (.iloc[...]) of the wrapped frame -
    never the wrapped object or its ._data itself.""",
)
def r05c(ctx):
    model = ctx.model
    mod, fn = model.func("_collection", "from_pandas")
    calls = [n for n in ast.walk(fn) if isinstance(n, ast.Call) and dotted(n.func) in ("FromPandas", "FromPandasDivisions")]
    if not calls:
        raise AnalysisError("anchor vanished: from_pandas no longer builds FromPandas")
    r05c_defs = flow.Defs(fn)
    for i, call in enumerate(calls):
        cid = f"_collection.from_pandas:FromPandas#{i}"
        arg = call.args[0] if call.args else None
        wrapped = arg.args[0] if isinstance(arg, ast.Call) and dotted(arg.func) == "_BackendData" and arg.args else None
        if isinstance(wrapped, ast.Name):
            wrapped = r05c_defs.single_value(wrapped.id, call) or wrapped
        # an explicit opt-out parameter whose default keeps the copy: `data.copy() if copy else data` with copy=True
        if isinstance(wrapped, ast.IfExp) and isinstance(wrapped.test, ast.Name) and _default_is_true(fn, wrapped.test.id):
            wrapped = wrapped.body
        good = (
            isinstance(wrapped, ast.Call)
            and isinstance(wrapped.func, ast.Attribute)
            and wrapped.func.attr == "copy"
            and not wrapped.args
            and not any(k.arg == "deep" and not (isinstance(k.value, ast.Constant) and k.value.value is True) for k in wrapped.keywords)
        )
        if good:
            ctx.ok(cid, mod.loc(call), unparse(arg))
        else:
            ctx.bad(cid, mod.loc(call), f"source frame is wrapped as `{unparse(arg) if arg is not None else None}` without a deep .copy(): later in-place edits of the user's object (or of the numpy buffer it wraps) change the collection, and vice versa")
    fp = model.cls("FromPandas")
    for c in model.subclasses(fp):
        m = c.members.get("_filtered_task")
        if m is None:
            continue
        ft = m.node
        defs = flow.Defs(ft)
        for i, p in enumerate(flow.returns(ft)):
            v = p.stmt.value
            cid = f"{qual(c, ft)}#return{i}"
            if _derives_from_slice(v, defs, set()):
                ctx.ok(cid, c.module.loc(p.stmt), "a slice of the private copy")
            else:
                ctx.bad(cid, c.module.loc(p.stmt), f"`return {unparse(v)}` can hand the wrapped source object itself (not an .iloc slice / copy) to the graph: a task or the user editing a computed partition in place changes the source for every later compute")


def _default_is_true(fn, name):
    a = fn.args
    pos = a.posonlyargs + a.args
    for p, d in zip(pos[len(pos) - len(a.defaults) :], a.defaults):
        if p.arg == name:
            return isinstance(d, ast.Constant) and d.value is True
    for p, d in zip(a.kwonlyargs, a.kw_defaults):
        if p.arg == name:
            return isinstance(d, ast.Constant) and d.value is True
    return False


def _derives_from_slice(v, defs, seen, depth=0):
    """every path producing v goes through .iloc[...] / .loc[...] / .copy()"""
    if v is None or depth > 6:
        return False
    if isinstance(v, ast.Subscript):
        if isinstance(v.value, ast.Attribute) and v.value.attr in ("iloc", "loc"):
            return True
        return _derives_from_slice(v.value, defs, seen, depth + 1)
    if isinstance(v, ast.Call):
        if isinstance(v.func, ast.Attribute) and v.func.attr == "copy":
            return True
        # a function applied to a sliced value (to_pyarrow_string(part))
        return bool(v.args) and all(_derives_from_slice(a, defs, seen, depth + 1) for a in v.args[:1])
    if isinstance(v, ast.IfExp):
        return _derives_from_slice(v.body, defs, seen, depth + 1) and _derives_from_slice(v.orelse, defs, seen, depth + 1)
    if isinstance(v, ast.Name):
        ds = [d for d in defs.reaching(v.id, v) if d.kind in ("assign", "walrus")]
        if not ds or any(d.kind == "param" for d in defs.reaching(v.id, v)):
            return False
        return all(d.value is not None and (id(d.stmt) in seen or _derives_from_slice(d.value, defs, seen | {id(d.stmt)}, depth + 1)) for d in ds)
    return False


RANDOM_DRAWS = ("dask.utils.random_state_data", "numpy.random.", "random.")
R05E_EXCEPTIONS: dict = {}


def _seed_is_deterministic(fn, call):
    """the draw `random_state_data(n, seed)` gets a seed that is, on every path, either an integer derived from a token of
    the operands or an operand that was tested to be not None"""
    if len(call.args) < 2:
        return False
    seed = call.args[1]
    defs = flow.Defs(fn)

    def ok_value(v, at_stmt):
        t = ast.unparse(v)
        if "tokenize(" in t:
            return True
        if is_self_attr(v):
            p = flow.point_of(fn, at_stmt)
            return p is not None and any((not pol) and ast.unparse(tt) == f"{t} is None" for tt, pol in flow.facts(p)) or (p is not None and any(pol and ast.unparse(tt) == f"{t} is not None" for tt, pol in flow.facts(p)))
        if isinstance(v, ast.Constant) and isinstance(v.value, int):
            return True
        return False

    if isinstance(seed, ast.Name):
        ds = [d for d in defs.reaching(seed.id, call) if d.value is not None]
        return bool(ds) and all(ok_value(d.value, d.stmt) for d in ds) and not any(d.kind == "param" for d in defs.reaching(seed.id, call))
    st = call
    while not isinstance(st, ast.stmt):
        st = st._parent
    return ok_value(seed, st)


@rule(
    "R05e",
    ["C05", "C08", "C14", "C15", "C16"],
    """ONE RANDOM DRAW PER EXPRESSION: a member of an expression class that draws random state (dask.utils.random_state_data,
    numpy.random.*, random.*) and is read by a task builder must be a cached_property (or the draw must live in an
    operand): a plain property/method re-draws for every task and every graph materialisation, so two computes of one
    collection differ.""",
)
def r05e(ctx):
    model = ctx.model
    n = 0
    for c in model.expr_classes():
        for m in model.functions_of(c):
            fn = m.node
            draws = []
            for call in (x for x in iter_body_nodes(fn) if isinstance(x, ast.Call)):
                ext = external_name(model, c.module, call.func)
                if ext is None:
                    continue
                ext = ext.replace("np.random", "numpy.random")
                if any(ext.startswith(p) for p in RANDOM_DRAWS):
                    # explicitly seeded generator objects are deterministic
                    if ext.startswith("numpy.random.RandomState") and (call.args or call.keywords):
                        continue
                    draws.append((call, ext))
            if not draws:
                continue
            n += 1
            cid = f"{qual(c, fn)}:random-draw"
            if m.kind == "cached_property":
                ctx.ok(cid, c.module.loc(fn), "drawn once per expression (cached_property)")
            elif all(_seed_is_deterministic(fn, call) for call, ext in draws):
                ctx.exempt(cid, c.module.loc(fn), "the seed is never None here: a missing random_state is replaced by an integer derived from the operands' token before the draw (checked on every definition that reaches the draw)")
            else:
                call, ext = draws[0]
                ctx.bad(cid, c.module.loc(call), f"{qual(c, fn)} is a {m.kind} that calls {ext}: the random state is re-drawn on every access, i.e. for every task and for every materialisation of the graph")
    ctx.floor("random-drawing members", n, 1)


@rule(
    "R05d",
    ["C05"],
    """ORDERED SIDE EFFECTS: in DiskShuffle._layer every reader task (collect) carries the barrier key and the barrier task
    lists every writer key, so no partition is read from disk before all partitions were written.""",
)
def r05d(ctx):
    model = ctx.model
    ds = model.cls("DiskShuffle")
    fn = model.method(ds, "_layer", own=True).node
    defs = flow.Defs(fn)
    # barrier task: (barrier, list(<writers dict>))
    barrier_assign = None
    writers_name = None
    for n in ast.walk(fn):
        if isinstance(n, ast.Dict) and len(n.values) == 1 and isinstance(n.values[0], ast.Tuple) and n.values[0].elts and dotted(n.values[0].elts[0]) == "barrier":
            barrier_assign = n
            arg = n.values[0].elts[1] if len(n.values[0].elts) > 1 else None
            if isinstance(arg, ast.Call) and dotted(arg.func) == "list" and arg.args and isinstance(arg.args[0], ast.Name):
                writers_name = arg.args[0].id
    if barrier_assign is None:
        raise AnalysisError("anchor vanished: barrier task in DiskShuffle._layer")
    wv = defs.single_value(writers_name, barrier_assign) if writers_name else None
    good = isinstance(wv, ast.DictComp) and any(is_self_attr(x, "_shuffle_group") for x in ast.walk(wv.value))
    (ctx.ok if good else ctx.bad)("_shuffle.DiskShuffle._layer:barrier-lists-writers", ds.module.loc(barrier_assign), "barrier depends on every writer key" if good else "the barrier task no longer lists all writer (shuffle-partition) keys")
    bkey = unparse(barrier_assign.keys[0])
    readers = [n for n in ast.walk(fn) if isinstance(n, ast.Tuple) and n.elts and dotted(n.elts[0]) == "collect"]
    if not readers:
        raise AnalysisError("anchor vanished: collect tasks in DiskShuffle._layer")
    for i, r in enumerate(readers):
        good = any(unparse(e) == bkey for e in r.elts[1:])
        (ctx.ok if good else ctx.bad)(f"_shuffle.DiskShuffle._layer:reader#{i}", ds.module.loc(r), "reader waits for the barrier" if good else f"collect task `{unparse(r)}` does not depend on the barrier key {bkey}: it can read the partd store before all writers finished")


@rule(
    "R05f",
    ["C05", "C15"],
    """COLLECTIONS ARE NOT EDITED THROUGH AN ALIAS: in the methods of the collection classes (FrameBase, DataFrame, Series,
    Index) a local that may still be `self` (assigned from `self` without .copy() / a selection / another derived
    collection on some path) may not be item-assigned or have attributes set: `alias[col] = ...` goes through
    __setitem__, which re-binds the USER's collection to the new expression.""",
)
def r05f(ctx):
    model = ctx.model
    n = 0
    for cname in ("FrameBase", "DataFrame", "Series", "Index"):
        c = model.cls(cname, "_collection")
        for m in model.functions_of(c):
            fn = m.node
            if fn.name in ("__setitem__", "__setattr__", "__delitem__", "__init__") or not fn.args.args or fn.args.args[0].arg != "self":
                continue
            n += 1
            aliases = [x for x in iter_body_nodes(fn) if isinstance(x, ast.Assign) and isinstance(x.value, ast.Name) and x.value.id == "self"]
            if not aliases:
                ctx.ok(qual(c, fn), c.module.loc(fn))
                continue

            def root(e):
                return isinstance(e, ast.Name) and e.id == "self"

            own = Ownership(fn, root, views_are_borrowed=False)
            hits = [(node, target, what) for node, target, what in own.borrowed_mutations() if isinstance(target, ast.Name) and target.id != "self" and (isinstance(node, (ast.Assign, ast.AugAssign)) and any(isinstance(t, ast.Subscript) for t in (node.targets if isinstance(node, ast.Assign) else [node.target])))]
            if not hits:
                ctx.ok(qual(c, fn), c.module.loc(fn), "aliases of self are copied / re-derived before being edited")
            for node, target, what in hits[:1]:
                ctx.bad(f"{qual(c, fn)}:{target.id}", c.module.loc(node), f"{what}: `{target.id}` may still be `self` on this path (no .copy() / selection in between), so the method rewrites the caller's collection in place - its name, dtypes and later computes change although the method is documented to return a new object")
    ctx.floor("collection methods", n, 200)


# (function) -> reason its argument is meant to be written to
R05G_EXCEPTIONS = {
    "_collection.handle_out": "`out=` is the documented output argument: the caller asks for its collection to be overwritten",
}


@rule(
    "R05g",
    ["C05", "C08"],
    """CALLERS' OBJECTS ARE NOT EDITED: a public function or method of the package outside the expression classes (the API
    layer; private `_helpers` are an internal calling convention) does not mutate an object it received as an argument - `kwargs_dict.update(...)`, `lst.append(...)`,
    `d[k] = v` on a parameter that was not copied first. Such an object usually ends up as an operand: editing it changes
    an expression that was already named (and any other expression the caller builds from the same object).""",
)
def r05g(ctx):
    model = ctx.model
    n = 0
    for mod, cls, fn in model.all_functions():
        if (cls is not None and model.is_expr(cls)) or mod.name.startswith("dask_expr.diagnostics"):
            continue
        # public entry points only: the objects they receive are the USER's; private helpers with accumulator
        # parameters (`components`, `column_stats`, a cache handed down) are an internal calling convention
        if fn.name.startswith("_") or isinstance(getattr(fn, "_parent", None), (ast.FunctionDef, ast.AsyncFunctionDef)):
            continue
        params = {a.arg for a in fn.args.posonlyargs + fn.args.args + fn.args.kwonlyargs} - {"self", "cls"}
        if not params:
            continue
        n += 1
        dp = flow.Defs(fn)

        def root(e, params=params, dp=dp):
            if isinstance(e, ast.Name) and e.id in params:
                return any(d.kind == "param" for d in dp.reaching(e.id, e))
            return False

        hits = list(Ownership(fn, root).borrowed_mutations())
        if not hits:
            continue
        fq = qual(cls, fn) if cls is not None else f"{mod.name.split('.', 1)[-1]}.{fn.name}"
        if fq in R05G_EXCEPTIONS:
            ctx.exempt(fq, mod.loc(hits[0][0]), R05G_EXCEPTIONS[fq])
            continue
        node, target, what = hits[0]
        ctx.bad(f"{fq}:{ast.unparse(target)[:40]}", mod.loc(node), f"{what}: `{ast.unparse(target)[:60]}` may still be the object the caller passed in (no copy on this path), so the caller's dict / list - and every expression already built from it - changes")
    ctx.ok("API-layer functions leave their arguments alone", "", f"{n} functions examined")
    ctx.floor("public functions with parameters outside expression classes", n, 250)


def _random_fallback_by_or(model, mod, fn):
    """`p = p or <random draw>` / `f(p or <random draw>)` for a parameter p"""
    from sa.rules.r08 import _forbidden_in

    params = {a.arg for a in fn.args.posonlyargs + fn.args.args + fn.args.kwonlyargs}
    out = []
    for n in iter_body_nodes(fn):
        if isinstance(n, ast.BoolOp) and isinstance(n.op, ast.Or) and isinstance(n.values[0], ast.Name) and n.values[0].id in params:
            for later in n.values[1:]:
                for c in ast.walk(later):
                    if isinstance(c, ast.Call):
                        ext = external_name(model, mod, c.func) if model is not None else ast.unparse(c.func)
                        e = (ext or "").replace("np.random", "numpy.random")
                        if e.startswith(("numpy.random.", "random.", "uuid.", "secrets.", "time.time")):
                            out.append((n, n.values[0].id, e))
    return out


@rule(
    "R05h",
    ["C05", "C08"],
    """RANDOMNESS BECOMES PLAIN DATA AT THE API: (a) no stateful generator object (numpy RandomState / default_rng, random.Random)
    is handed to an expression constructor - an expression that holds a generator draws from it again every time the
    optimizer re-creates the node, so two computes of one collection differ; seeds are drawn once and passed as data
    (random_state_data). (b) a random fallback for a user parameter is guarded by `is None`, not by `or`: `seed or
    randint()` also replaces the valid seed 0, so the same call is named differently on every run.""",
)
def r05h(ctx):
    model = ctx.model
    n_ctor = n_fb = 0
    GEN = ("numpy.random.RandomState", "numpy.random.default_rng", "numpy.random.Generator", "random.Random")
    for mod, cls, fn in model.all_functions():
        fq = qual(cls, fn) if cls is not None else f"{mod.name.split('.', 1)[-1]}.{fn.name}"
        defs = None
        for c in (x for x in iter_body_nodes(fn) if isinstance(x, ast.Call)):
            r = ctor_target(model, mod, cls, c)
            if r is None:
                continue
            for a in list(c.args) + [k.value for k in c.keywords]:
                if not isinstance(a, ast.Name):
                    continue
                if defs is None:
                    defs = flow.Defs(fn)
                n_ctor += 1
                for d in defs.reaching(a.id, c):
                    v = d.value
                    if isinstance(v, ast.Call):
                        ext = (external_name(model, mod, v.func) or "").replace("np.random", "numpy.random")
                        if ext.startswith(GEN):
                            ctx.bad(f"{fq}->{r[0].name}:{a.id}:generator-operand", mod.loc(c), f"`{a.id}` may hold the generator object `{ast.unparse(v)[:60]}` and is passed to {r[0].name}(...): the expression draws from a stateful generator whenever it is re-created, so repeated computes of one collection give different rows")
        for node, p, src in _random_fallback_by_or(model, mod, fn):
            n_fb += 1
            ctx.bad(f"{fq}:{p}:random-fallback-by-or", mod.loc(node), f"`{ast.unparse(node)[:80]}` replaces every falsy `{p}` (0, False) by a draw from {src}: a valid value given by the user is silently ignored and the query gets a new name on every run (test `{p} is None`)")
    import os

    ex = os.path.join(os.path.dirname(os.path.dirname(__file__)), "examples", "r05h_positive.py")
    tree = ast.parse(open(ex).read())
    for node in ast.walk(tree):
        for ch in ast.iter_child_nodes(node):
            ch._parent = node  # type: ignore[attr-defined]
    flagged = {f.name for f in tree.body if isinstance(f, ast.FunctionDef) and _random_fallback_by_or(None, None, f)}
    if flagged != {"timeseries_bad"}:
        raise AnalysisError(f"R05h self-check failed: positive example flagged {sorted(flagged)}, expected ['timeseries_bad']")
    ctx.ok("examples/r05h_positive.py", "sa/examples/r05h_positive.py", "positive example flagged, `is None` twin is not")
    ctx.ok("constructor arguments are not generator objects", "", f"{n_ctor} named constructor arguments traced to their definitions")
    ctx.floor("named constructor arguments traced", n_ctor, 500)
