"""Static analysis of dask-expr against the properties in /verif/properties.jsonl.

Nothing in this package imports or executes dask_expr: every verdict is
computed from the syntax trees of /repo's current working tree.
"""
