"""Thorough tier: checker self-test.  Reported separately in the evidence (`checker_selftest`); it never changes
the property verdict, which is computed from /repo's tree alone.

 * every committed seeded defect (/verif/seeded/<id>/patch.diff) that /verif/seeded/EXPECTED.json lists as detected
   by this property is applied to a scratch copy of /repo's CURRENT working tree (outside /repo and /verif, removed
   afterwards) and the property's rules must report at least one violation that the unpatched tree does not have;
 * every committed behaviour-preserving edit (/verif/benign/<id>/patch.diff) must add no violation;
 * AST-computed mutants (sa/mutants.py): for each generic operator instance relevant to this property the rules
   must fire, and for each twin (behaviour-preserving AST edit) they must stay silent.
A patch that no longer applies (because /repo changed) is counted as skipped, never as a failure.
"""
from __future__ import annotations

import glob
import json
import os
import shutil
import subprocess
import tempfile
from concurrent.futures import ThreadPoolExecutor

VERIF = os.path.dirname(os.path.dirname(os.path.abspath(__file__)))


def _scratch_copy(repo):
    d = tempfile.mkdtemp(prefix="sa_selftest_")
    subprocess.run(["rsync", "-a", "--exclude", "__pycache__", "--exclude", "tests", os.path.join(repo, "dask_expr"), d + "/"], check=True)
    return d


def _apply(patch, scratch):
    r = subprocess.run(["git", "apply", "--unsafe-paths", f"--directory={scratch}", patch], capture_output=True, text=True, cwd=scratch)
    if r.returncode != 0:
        r = subprocess.run(["patch", "-p1", "-d", scratch, "-i", patch, "--fuzz=2", "-s", "--no-backup-if-mismatch"], capture_output=True, text=True)
    return r.returncode == 0


def _violations_in(prop, repo):
    """run this property's rules in a subprocess on another tree; -> (set of (rule, construct), rc)"""
    env = dict(os.environ, VERIF_REPO=repo, VERIF_EVIDENCE_DIR=os.path.join(repo, "_evidence"), VERIF_TIER="quick")
    r = subprocess.run(["/venv/bin/python", "-m", "sa.check", prop, "--tier", "quick"], cwd=VERIF, env=env, capture_output=True, text=True)
    ev = os.path.join(repo, "_evidence", f"{prop}.json")
    out = set()
    if os.path.exists(ev):
        e = json.load(open(ev))
        for v in e["coverage"].get("new_violations", []):
            out.add((v["rule"], v["construct"]))
    return out, r.returncode, r.stdout[-400:]


def run_selftest(prop, base_violations):
    from sa.model import REPO

    exp_file = os.path.join(VERIF, "seeded", "EXPECTED.json")
    expected = json.load(open(exp_file)) if os.path.exists(exp_file) else {}
    jobs = []
    for sd in sorted(glob.glob(os.path.join(VERIF, "seeded", "*", "patch.diff"))):
        sid = os.path.basename(os.path.dirname(sd))
        if prop in expected.get(sid, []):
            jobs.append(("seed", sid, sd))
    for sd in sorted(glob.glob(os.path.join(VERIF, "benign", "*", "patch.diff"))):
        jobs.append(("benign", os.path.basename(os.path.dirname(sd)), sd))
    try:
        from sa.mutants import mutant_jobs

        jobs += mutant_jobs(prop, REPO)
    except ImportError:
        pass

    def one(job):
        kind, jid, payload = job
        scratch = _scratch_copy(REPO)
        try:
            if kind in ("seed", "benign"):
                if not _apply(payload, scratch):
                    return kind, jid, "skipped", "patch no longer applies to the current tree"
            else:  # mutant / twin: payload = (relpath, new source)
                rel, src = payload
                if rel == "*":
                    from sa.transforms import TRANSFORMS

                    TRANSFORMS[src](scratch)
                else:
                    with open(os.path.join(scratch, rel), "w") as f:
                        f.write(src)
            got, rc, tail = _violations_in(prop, scratch)
            new = got - {v for v in base_violations}
            if rc == 2:
                return kind, jid, "analysis-error", tail
            if kind in ("seed", "mutant"):
                return kind, jid, ("pass" if new else "FAIL"), ("; ".join(f"{r}:{c}" for r, c in sorted(new))[:300] if new else "rules stayed silent")
            return kind, jid, ("pass" if not new else "FAIL"), ("silent" if not new else "false alarm: " + "; ".join(f"{r}:{c}" for r, c in sorted(new))[:300])
        finally:
            shutil.rmtree(scratch, ignore_errors=True)

    results = []
    if jobs:
        with ThreadPoolExecutor(max_workers=int(os.environ.get("SELFTEST_JOBS", "14"))) as ex:
            results = list(ex.map(one, jobs))
    summary = {}
    for kind, jid, status, detail in results:
        summary.setdefault(kind, {}).setdefault(status, 0)
        summary[kind][status] += 1
    fails = [(k, j, s, d) for k, j, s, d in results if s in ("FAIL", "analysis-error")]
    lines = [f"[{prop}] selftest: " + ", ".join(f"{k}: {v}" for k, v in sorted(summary.items()))]
    for k, j, s, d in fails:
        lines.append(f"SELFTEST-{s} property={prop} {k}={j}: {d}")
    return {
        "jobs": len(jobs),
        "summary": summary,
        "failures": [{"kind": k, "id": j, "status": s, "detail": d} for k, j, s, d in fails],
        "samples": [{"kind": k, "id": j, "status": s, "detail": d} for k, j, s, d in results[:12]],
        "report_lines": lines,
    }
