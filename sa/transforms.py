"""Whole-tree behaviour-preserving source transformations used to test the rules (never applied to /repo):
  reformat      every module re-emitted from its syntax tree (layout, quotes, comments gone)
  rename_locals every local variable of every function gets a new name (parameters, globals, imports, nested function
                names and exception names are left alone) - nothing a rule concludes may depend on what a local is called
"""
from __future__ import annotations

import ast
import glob
import os


def _rename_function(fn, suffix):
    params = set()
    for n in ast.walk(fn):
        if isinstance(n, (ast.FunctionDef, ast.AsyncFunctionDef, ast.Lambda)):
            a = n.args
            for x in a.posonlyargs + a.args + a.kwonlyargs:
                params.add(x.arg)
            if a.vararg:
                params.add(a.vararg.arg)
            if a.kwarg:
                params.add(a.kwarg.arg)
    skip = set(params)
    for n in ast.walk(fn):
        if isinstance(n, (ast.Global, ast.Nonlocal)):
            skip |= set(n.names)
        if isinstance(n, (ast.Import, ast.ImportFrom)):
            for al in n.names:
                skip.add((al.asname or al.name).split(".")[0])
        if isinstance(n, ast.ExceptHandler) and n.name:
            skip.add(n.name)
        if isinstance(n, (ast.FunctionDef, ast.AsyncFunctionDef, ast.ClassDef)) and n is not fn:
            skip.add(n.name)
        if isinstance(n, ast.MatchAs) and n.name:
            skip.add(n.name)
        if isinstance(n, ast.ClassDef):
            for m in ast.walk(n):
                if isinstance(m, ast.Name) and isinstance(m.ctx, ast.Store):
                    skip.add(m.id)
    stored = {n.id for n in ast.walk(fn) if isinstance(n, ast.Name) and isinstance(n.ctx, (ast.Store, ast.Del))}
    ren = {x for x in stored if x not in skip and not x.startswith("__")}
    cnt = 0
    for n in ast.walk(fn):
        if isinstance(n, ast.Name) and n.id in ren:
            n.id = n.id + suffix
            cnt += 1
    return cnt


def rename_locals(root, suffix="_rn"):
    total = 0
    for f in glob.glob(os.path.join(root, "dask_expr", "**", "*.py"), recursive=True):
        if os.sep + "tests" + os.sep in f:
            continue
        tree = ast.parse(open(f).read())

        def visit(node):
            nonlocal total
            for ch in ast.iter_child_nodes(node):
                if isinstance(ch, (ast.FunctionDef, ast.AsyncFunctionDef)):
                    total += _rename_function(ch, suffix)
                else:
                    visit(ch)

        visit(tree)
        with open(f, "w") as fh:
            fh.write(ast.unparse(tree) + "\n")
    return total


def reformat(root):
    n = 0
    for f in glob.glob(os.path.join(root, "dask_expr", "**", "*.py"), recursive=True):
        txt = open(f).read()
        with open(f, "w") as fh:
            fh.write(ast.unparse(ast.parse(txt)) + "\n")
        n += 1
    return n


TRANSFORMS = {"reformat": reformat, "rename_locals": rename_locals}

if __name__ == "__main__":
    import sys

    print(TRANSFORMS[sys.argv[1]](sys.argv[2]))
