"""Whole-tree behaviour-preserving source transformations used to test the rules (never applied to /repo):
  reformat      every module re-emitted from its syntax tree (layout, quotes, comments gone)
  rename_locals every local variable of every function gets a new name (parameters, globals, imports, nested function
                names and exception names are left alone) - nothing a rule concludes may depend on what a local is called
"""
from __future__ import annotations

import ast
import glob
import os


def _rename_function(fn, suffix):
    params = set()
    for n in ast.walk(fn):
        if isinstance(n, (ast.FunctionDef, ast.AsyncFunctionDef, ast.Lambda)):
            a = n.args
            for x in a.posonlyargs + a.args + a.kwonlyargs:
                params.add(x.arg)
            if a.vararg:
                params.add(a.vararg.arg)
            if a.kwarg:
                params.add(a.kwarg.arg)
    skip = set(params)
    for n in ast.walk(fn):
        if isinstance(n, (ast.Global, ast.Nonlocal)):
            skip |= set(n.names)
        if isinstance(n, (ast.Import, ast.ImportFrom)):
            for al in n.names:
                skip.add((al.asname or al.name).split(".")[0])
        if isinstance(n, ast.ExceptHandler) and n.name:
            skip.add(n.name)
        if isinstance(n, (ast.FunctionDef, ast.AsyncFunctionDef, ast.ClassDef)) and n is not fn:
            skip.add(n.name)
        if isinstance(n, ast.MatchAs) and n.name:
            skip.add(n.name)
        if isinstance(n, ast.ClassDef):
            for m in ast.walk(n):
                if isinstance(m, ast.Name) and isinstance(m.ctx, ast.Store):
                    skip.add(m.id)
    stored = {n.id for n in ast.walk(fn) if isinstance(n, ast.Name) and isinstance(n.ctx, (ast.Store, ast.Del))}
    ren = {x for x in stored if x not in skip and not x.startswith("__")}
    cnt = 0
    for n in ast.walk(fn):
        if isinstance(n, ast.Name) and n.id in ren:
            n.id = n.id + suffix
            cnt += 1
    return cnt


def rename_locals(root, suffix="_rn"):
    total = 0
    for f in glob.glob(os.path.join(root, "dask_expr", "**", "*.py"), recursive=True):
        if os.sep + "tests" + os.sep in f:
            continue
        tree = ast.parse(open(f).read())

        def visit(node):
            nonlocal total
            for ch in ast.iter_child_nodes(node):
                if isinstance(ch, (ast.FunctionDef, ast.AsyncFunctionDef)):
                    total += _rename_function(ch, suffix)
                else:
                    visit(ch)

        visit(tree)
        with open(f, "w") as fh:
            fh.write(ast.unparse(tree) + "\n")
    return total


def reformat(root):
    n = 0
    for f in glob.glob(os.path.join(root, "dask_expr", "**", "*.py"), recursive=True):
        txt = open(f).read()
        with open(f, "w") as fh:
            fh.write(ast.unparse(ast.parse(txt)) + "\n")
        n += 1
    return n


TRANSFORMS = {"reformat": reformat, "rename_locals": rename_locals}



def reverse_methods(root):
    """within every class body, the method definitions change places (first <-> last ...); other statements stay where they
    are.  Classes whose body refers to one of its own functions by bare name (e.g. `x = staticmethod(f)`) are left alone."""
    n = 0
    for f in glob.glob(os.path.join(root, "dask_expr", "**", "*.py"), recursive=True):
        if os.sep + "tests" + os.sep in f:
            continue
        tree = ast.parse(open(f).read())
        for c in ast.walk(tree):
            if not isinstance(c, ast.ClassDef):
                continue
            slots = [i for i, s in enumerate(c.body) if isinstance(s, (ast.FunctionDef, ast.AsyncFunctionDef))]
            names = {c.body[i].name for i in slots}
            if len(names) != len(slots):
                continue  # property setters / overloads: same name twice
            others = [s for i, s in enumerate(c.body) if i not in slots]
            if any(isinstance(x, ast.Name) and x.id in names for s in others for x in ast.walk(s)):
                continue
            # decorators referring to siblings (@x.setter)
            if any(isinstance(x, ast.Name) and x.id in names for i in slots for d in c.body[i].decorator_list for x in ast.walk(d)):
                continue
            fns = [c.body[i] for i in slots][::-1]
            for i, fn in zip(slots, fns):
                c.body[i] = fn
            n += len(slots)
        with open(f, "w") as fh:
            fh.write(ast.unparse(tree) + "\n")
    return n


def reverse_module_functions(root):
    """module-level function definitions change places among themselves (classes, assignments and imports stay): definition
    order of functions is irrelevant in Python as long as nothing at import time calls them - modules where a top-level
    statement calls or references a module function are left alone."""
    n = 0
    for f in glob.glob(os.path.join(root, "dask_expr", "**", "*.py"), recursive=True):
        if os.sep + "tests" + os.sep in f:
            continue
        tree = ast.parse(open(f).read())
        slots = [i for i, s in enumerate(tree.body) if isinstance(s, ast.FunctionDef) and not s.decorator_list]
        names = {tree.body[i].name for i in slots}
        others = [s for i, s in enumerate(tree.body) if i not in slots]
        used_at_import = set()
        for s in others:
            if isinstance(s, (ast.FunctionDef, ast.AsyncFunctionDef)):
                scan = s.decorator_list + s.args.defaults + [d for d in s.args.kw_defaults if d is not None]
            elif isinstance(s, ast.ClassDef):
                scan = [x for x in s.body if not isinstance(x, (ast.FunctionDef, ast.AsyncFunctionDef))] + s.decorator_list + s.bases
                for m in s.body:
                    if isinstance(m, (ast.FunctionDef, ast.AsyncFunctionDef)):
                        scan += m.decorator_list + m.args.defaults + [d for d in m.args.kw_defaults if d is not None]
            else:
                scan = [s]
            for node in scan:
                for x in ast.walk(node):
                    if isinstance(x, ast.Name) and x.id in names:
                        used_at_import.add(x.id)
        keep = [i for i in slots if tree.body[i].name not in used_at_import]
        # defaults of the functions themselves may refer to earlier functions
        keep = [i for i in keep if not any(isinstance(x, ast.Name) and x.id in names for d in tree.body[i].args.defaults + [k for k in tree.body[i].args.kw_defaults if k is not None] for x in ast.walk(d))]
        fns = [tree.body[i] for i in keep][::-1]
        for i, fn in zip(keep, fns):
            tree.body[i] = fn
        n += len(keep)
        with open(f, "w") as fh:
            fh.write(ast.unparse(tree) + "\n")
    return n


TRANSFORMS.update({"reverse_methods": reverse_methods, "reverse_module_functions": reverse_module_functions})


_TERM = (ast.Return, ast.Raise, ast.Continue, ast.Break)


def _terminates(body):
    if not body:
        return False
    last = body[-1]
    if isinstance(last, _TERM):
        return True
    if isinstance(last, ast.If):
        return bool(last.orelse) and _terminates(last.body) and _terminates(last.orelse)
    return False


def nest_else(root):
    """`if c: return x` followed by more statements becomes `if c: return x  else: <the statements>` (inside functions)"""
    n = 0

    def rewrite(block):
        nonlocal n
        i = 0
        while i < len(block):
            st = block[i]
            for attr in ("body", "orelse", "finalbody"):
                sub = getattr(st, attr, None)
                if isinstance(sub, list) and sub and isinstance(sub[0], ast.stmt):
                    rewrite(sub)
            for h in getattr(st, "handlers", []) or []:
                rewrite(h.body)
            if isinstance(st, ast.If) and not st.orelse and _terminates(st.body) and i + 1 < len(block):
                rest = block[i + 1 :]
                # declarations must stay at function level
                if not any(isinstance(x, (ast.Global, ast.Nonlocal, ast.FunctionDef, ast.ClassDef, ast.Import, ast.ImportFrom)) for x in rest):
                    st.orelse = rest
                    del block[i + 1 :]
                    n += 1
                    rewrite(st.orelse)
                    break
            i += 1

    for f in glob.glob(os.path.join(root, "dask_expr", "**", "*.py"), recursive=True):
        if os.sep + "tests" + os.sep in f:
            continue
        tree = ast.parse(open(f).read())
        for fn in ast.walk(tree):
            if isinstance(fn, (ast.FunctionDef, ast.AsyncFunctionDef)):
                rewrite(fn.body)
        with open(f, "w") as fh:
            fh.write(ast.unparse(tree) + "\n")
    return n


def swap_arms(root):
    """`if c: A else: B` becomes `if not c: B else: A` (plain two-armed ifs, not elif chains)"""
    n = 0
    for f in glob.glob(os.path.join(root, "dask_expr", "**", "*.py"), recursive=True):
        if os.sep + "tests" + os.sep in f:
            continue
        tree = ast.parse(open(f).read())
        for st in ast.walk(tree):
            if isinstance(st, ast.If) and st.orelse and not (len(st.orelse) == 1 and isinstance(st.orelse[0], ast.If)):
                # do not touch an `if` that is itself the elif of a chain
                st.test = st.test.operand if isinstance(st.test, ast.UnaryOp) and isinstance(st.test.op, ast.Not) else ast.UnaryOp(op=ast.Not(), operand=st.test)
                st.body, st.orelse = st.orelse, st.body
                n += 1
        ast.fix_missing_locations(tree)
        with open(f, "w") as fh:
            fh.write(ast.unparse(tree) + "\n")
    return n


TRANSFORMS.update({"nest_else": nest_else, "swap_arms": swap_arms})


def _each_module(root):
    for f in glob.glob(os.path.join(root, "dask_expr", "**", "*.py"), recursive=True):
        if os.sep + "tests" + os.sep in f:
            continue
        yield f, ast.parse(open(f).read())


def _write(f, tree):
    ast.fix_missing_locations(tree)
    with open(f, "w") as fh:
        fh.write(ast.unparse(tree) + "\n")


def split_isinstance(root):
    """isinstance(x, (A, B)) -> (isinstance(x, A) or isinstance(x, B)) for literal tuples of names"""
    n = 0

    class T(ast.NodeTransformer):
        def visit_Call(self, node):
            nonlocal n
            self.generic_visit(node)
            if isinstance(node.func, ast.Name) and node.func.id == "isinstance" and len(node.args) == 2 and isinstance(node.args[1], ast.Tuple) and len(node.args[1].elts) >= 2 and all(isinstance(e, (ast.Name, ast.Attribute)) for e in node.args[1].elts) and isinstance(node.args[0], (ast.Name, ast.Attribute)):
                n += 1
                return ast.BoolOp(op=ast.Or(), values=[ast.Call(func=ast.Name(id="isinstance", ctx=ast.Load()), args=[node.args[0], e], keywords=[]) for e in node.args[1].elts])
            return node

    for f, tree in _each_module(root):
        _write(f, T().visit(tree))
    return n


def dict_literals(root):
    """dict(a=1, b=2) -> {'a': 1, 'b': 2}"""
    n = 0

    class T(ast.NodeTransformer):
        def visit_Call(self, node):
            nonlocal n
            self.generic_visit(node)
            if isinstance(node.func, ast.Name) and node.func.id == "dict" and not node.args and node.keywords and all(k.arg for k in node.keywords):
                n += 1
                return ast.Dict(keys=[ast.Constant(value=k.arg) for k in node.keywords], values=[k.value for k in node.keywords])
            return node

    for f, tree in _each_module(root):
        _write(f, T().visit(tree))
    return n


def operand_access(root):
    """self.p -> self.operand('p') inside methods of expression classes, for parameters p that no class attribute / property
    shadows (there `self.p` is answered by Expr.__getattr__ from the operands, i.e. the very same value)"""
    from sa.model import Model

    model = Model(root)
    n = 0
    edits = {}
    for c in model.expr_classes():
        try:
            params = set(model.parameters(c))
        except Exception:
            continue
        if not params:
            continue
        # only where every class that can run the method agrees: p is a plain operand for c and all its subclasses
        for mem in c.members.values():
            if mem.kind == "attr" or not isinstance(mem.node, ast.FunctionDef):
                continue
            users = [k for k in model.subclasses(c) if k.provider(mem.name) is not None and k.provider(mem.name).node is mem.node]
            for node in ast.walk(mem.node):
                if isinstance(node, ast.Attribute) and isinstance(node.ctx, ast.Load) and isinstance(node.value, ast.Name) and node.value.id == "self":
                    a = node.attr
                    ok = bool(users)
                    for k in users:
                        try:
                            kp = model.parameters(k)
                        except Exception:
                            ok = False
                            break
                        if a not in kp or model.attr_kind(k, a)[0] != "operand":
                            ok = False
                            break
                    if ok:
                        edits.setdefault(c.module.rel, []).append((node.lineno, node.col_offset, node.end_lineno, node.end_col_offset, a))
    for rel, lst in edits.items():
        path = os.path.join(root, rel)
        lines = open(path).read().split("\n")
        for l0, c0, l1, c1, a in sorted(set(lst), reverse=True):
            if l0 != l1:
                continue
            line = lines[l0 - 1]
            # col offsets are utf8 byte offsets; the package is ascii in code positions that matter
            seg = line[c0:c1]
            if seg != f"self.{a}":
                continue
            lines[l0 - 1] = line[:c0] + f'self.operand("{a}")' + line[c1:]
            n += 1
        open(path, "w").write("\n".join(lines))
    return n


TRANSFORMS.update({"split_isinstance": split_isinstance, "dict_literals": dict_literals, "operand_access": operand_access})

if __name__ == "__main__":
    import sys

    print(TRANSFORMS[sys.argv[1]](sys.argv[2]))
