"""F7 (ownership part): BORROWED / FRESH tracking of local values inside one function and the
mutation sinks that may not be applied to a BORROWED value."""
from __future__ import annotations

import ast

from sa import flow
from sa.model import dotted, unparse

BORROWED, FRESH, UNKNOWN = "borrowed", "fresh", "unknown"

MUTATING_METHODS = {
    "pop",
    "popitem",
    "update",
    "append",
    "extend",
    "insert",
    "setdefault",
    "clear",
    "remove",
    "sort",
    "reverse",
    "add",
    "discard",
    "drop_duplicates_inplace",
}
# calls that return an object owned by the caller
COPYING_CALLS = {"copy", "deepcopy", "dict", "list", "set", "tuple", "sorted", "DataFrame", "Series"}
FRESH_METHODS = {"copy", "assign", "astype", "rename", "reset_index", "set_index", "drop", "to_frame", "fillna", "where", "mask", "sort_values", "sort_index", "head", "tail", "merge", "join", "reindex", "groupby", "loc", "iloc", "items", "keys", "values", "get"}


class Ownership:
    def __init__(self, fn, is_borrowed_root, selfname="self", views_are_borrowed=True):
        """is_borrowed_root(expr) -> bool: expressions that denote values owned by somebody else
        (a task argument, an operand container)."""
        self.fn = fn
        self.root = is_borrowed_root
        self.views = views_are_borrowed
        self.defs = flow.Defs(fn)
        self._memo = {}

    def state(self, node, depth=0):
        """ownership of the value denoted by expression ``node`` at its position"""
        if depth > 6:
            return UNKNOWN
        if self.root(node):
            return BORROWED
        if isinstance(node, ast.Name):
            ds = self.defs.reaching(node.id, node)
            if not ds:
                return UNKNOWN
            states = set()
            for d in ds:
                if d.kind == "param":
                    states.add(BORROWED if self.root(node) else UNKNOWN)
                elif d.kind in ("assign", "walrus") and d.value is not None and d.value is not node:
                    states.add(self.state(d.value, depth + 1))
                elif d.kind == "for" and d.value is not None:
                    # element of an iterable: borrowed if the iterable is
                    s = self.state(d.value, depth + 1)
                    states.add(BORROWED if s == BORROWED else UNKNOWN)
                elif d.kind == "unpack" and d.value is not None:
                    s = self.state(d.value, depth + 1)
                    states.add(BORROWED if s == BORROWED else UNKNOWN)
                else:
                    states.add(UNKNOWN)
            if BORROWED in states:
                return BORROWED
            if states == {FRESH}:
                return FRESH
            return UNKNOWN
        if isinstance(node, ast.BoolOp):
            ss = {self.state(v, depth + 1) for v in node.values}
            return BORROWED if BORROWED in ss else (FRESH if ss == {FRESH} else UNKNOWN)
        if isinstance(node, ast.IfExp):
            ss = {self.state(node.body, depth + 1), self.state(node.orelse, depth + 1)}
            return BORROWED if BORROWED in ss else (FRESH if ss == {FRESH} else UNKNOWN)
        if isinstance(node, (ast.Dict, ast.List, ast.Set, ast.Tuple, ast.ListComp, ast.DictComp, ast.SetComp, ast.Constant, ast.JoinedStr, ast.BinOp)):
            return FRESH
        if isinstance(node, ast.Call):
            f = node.func
            if isinstance(f, ast.Name) and f.id in COPYING_CALLS:
                return FRESH
            if isinstance(f, ast.Attribute):
                if f.attr in ("copy", "deepcopy"):
                    return FRESH
                # a method call on a borrowed value returns a new object in pandas / dict APIs
                return FRESH if f.attr in FRESH_METHODS else UNKNOWN
            return UNKNOWN
        if isinstance(node, ast.Attribute):
            # a view into the owner (df.index, df.columns, obj._data)
            if not self.views:
                return UNKNOWN
            s = self.state(node.value, depth + 1)
            return BORROWED if s == BORROWED else UNKNOWN
        if isinstance(node, ast.Subscript):
            if isinstance(node.value, ast.Attribute) and node.value.attr in ("iloc", "loc", "iat", "at"):
                return FRESH
            if not self.views:
                return FRESH  # selecting from a collection builds a new collection
            s = self.state(node.value, depth + 1)
            # element of a borrowed container is borrowed (dict value / list item)
            return BORROWED if s == BORROWED else UNKNOWN
        if isinstance(node, ast.Starred):
            return self.state(node.value, depth + 1)
        return UNKNOWN

    def mutations(self):
        """Yield (node, target expr, description) for every in-place mutation in the function."""
        from sa.rules.util import iter_body_nodes

        for n in iter_body_nodes(self.fn):
            if isinstance(n, (ast.Assign, ast.AugAssign, ast.AnnAssign)):
                targets = n.targets if isinstance(n, ast.Assign) else [n.target]
                for t in targets:
                    for tt in (t.elts if isinstance(t, (ast.Tuple, ast.List)) else [t]):
                        if isinstance(tt, ast.Subscript):
                            yield n, tt.value, f"item assignment `{unparse(tt)} = ...`"
                        elif isinstance(tt, ast.Attribute):
                            yield n, tt.value, f"attribute assignment `{unparse(tt)} = ...`"
            elif isinstance(n, ast.Delete):
                for t in n.targets:
                    if isinstance(t, (ast.Subscript, ast.Attribute)):
                        yield n, t.value, f"`del {unparse(t)}`"
            elif isinstance(n, ast.Call):
                f = n.func
                if isinstance(f, ast.Attribute) and f.attr in MUTATING_METHODS:
                    yield n, f.value, f"in-place `{unparse(f)}(...)`"
                for kw in n.keywords:
                    if kw.arg == "inplace" and isinstance(kw.value, ast.Constant) and kw.value.value is True and isinstance(f, ast.Attribute):
                        yield n, f.value, f"`{unparse(f)}(..., inplace=True)`"

    def borrowed_mutations(self):
        for n, target, what in self.mutations():
            if isinstance(target, ast.Name) and target.id == "self":
                continue
            if self.state(target) == BORROWED:
                yield n, target, what
