"""Driver: ``python -m sa.check Cxx --tier quick|thorough [--replay path]``.

exit 0  no un-listed violation of any rule attached to the property
exit 1  VIOLATION property=<id> replay=<path>   (one line per new violation)
exit 2  ANALYSIS-ERROR (analysis itself broken: vanished anchor, count below floor, crash)
"""
from __future__ import annotations

import argparse
import json
import os
import re
import sys
import time
import traceback

from sa.model import AnalysisError, Model

VERIF = os.path.dirname(os.path.dirname(os.path.abspath(__file__)))
EVID = os.environ.get("VERIF_EVIDENCE_DIR") or os.path.join(VERIF, "evidence")
KNOWN = os.path.join(VERIF, "known_findings.json")


class Ctx:
    """Collects obligations for one property run."""

    def __init__(self, model: Model, prop: str, tier: str):
        self.model = model
        self.prop = prop
        self.tier = tier
        self.obligations = []  # dict(rule, construct, verdict, loc, detail)
        self.rule_docs = {}
        self.tables = {}
        self.current_rule = None

    # -- recording ----------------------------------------------------------
    def _rec(self, verdict, construct, loc="", detail="", extra=None):
        rec = {
            "rule": self.current_rule,
            "construct": construct,
            "verdict": verdict,
            "loc": loc,
            "detail": detail,
        }
        if extra:
            rec.update(extra)
        self.obligations.append(rec)
        return rec

    def ok(self, construct, loc="", detail=""):
        return self._rec("ok", construct, loc, detail)

    def exempt(self, construct, loc="", detail=""):
        """satisfied through a confirmed, reasoned exception (keyed by construct)"""
        return self._rec("exempt", construct, loc, detail)

    def bad(self, construct, loc, detail, **extra):
        return self._rec("violation", construct, loc, detail, extra)

    def unclassified(self, construct, loc="", detail=""):
        return self._rec("unclassified", construct, loc, detail)

    def info(self, key, value):
        self.tables[f"{self.current_rule}:{key}"] = value

    def floor(self, what, count, minimum):
        """No vacuous pass: a rule that matches fewer instances than confirmed by hand is broken."""
        if count < minimum:
            raise AnalysisError(
                f"{self.current_rule}: {what}: {count} instances found, at least {minimum} confirmed by hand on the reference tree"
            )

    def count(self, rule=None, verdicts=("ok", "exempt", "violation")):
        return sum(1 for o in self.obligations if (rule is None or o["rule"] == rule) and o["verdict"] in verdicts)


def analyse(prop: str, tier: str, repo: str | None = None, only_rule: str | None = None) -> Ctx:
    """Run every rule registered for ``prop`` on the tree at ``repo`` (default: VERIF_REPO or /repo)."""
    from sa.rules import REGISTRY

    model = Model(repo) if repo else Model()
    ctx = Ctx(model, prop, tier)
    for rule_id, fn, doc in REGISTRY[prop]:
        if only_rule and only_rule != rule_id:
            continue
        ctx.current_rule = rule_id
        ctx.rule_docs[rule_id] = doc
        fn(ctx)
    ctx.current_rule = None
    return ctx


def load_known():
    if not os.path.exists(KNOWN):
        return {"findings": [], "fixed": []}
    with open(KNOWN) as f:
        return json.load(f)


def _slug(s):
    return re.sub(r"[^A-Za-z0-9_.-]+", "_", s)[:120]


def run(prop: str, tier: str, replay: str | None = None) -> int:
    from sa.rules import REGISTRY, LEVEL_TEXT

    t0 = time.time()
    seed = int(os.environ.get("VERIF_SEED", "0") or 0)
    if prop not in REGISTRY:
        print(f"ANALYSIS-ERROR property={prop} no rules registered")
        return 2
    only = None
    if replay:
        with open(replay) as f:
            only = json.load(f)
    ctx = analyse(prop, tier, only_rule=only.get("rule") if only else None)
    model = ctx.model

    known = load_known()
    listed = {}
    for kf in known.get("findings", []):
        if prop in kf.get("properties", []):
            listed[(kf["rule"], kf["construct"])] = kf
    violations = [o for o in ctx.obligations if o["verdict"] == "violation"]
    if only:
        violations = [o for o in violations if o["construct"] == only.get("construct")]
    new, matched = [], []
    for v in violations:
        kf = listed.get((v["rule"], v["construct"]))
        if kf is not None:
            matched.append((v, kf))
        else:
            new.append(v)

    os.makedirs(os.path.join(EVID, "replays"), exist_ok=True)
    lines = []
    for v, kf in matched:
        lines.append(f"KNOWN-FINDING: property={prop} {kf['id']} [{v['rule']}] {v['construct']}: {kf['what_fails']}")
    replay_paths = []
    for v in new:
        path = os.path.join(EVID, "replays", f"{prop}-{v['rule']}-{_slug(v['construct'])}.json")
        with open(path, "w") as f:
            json.dump({"property": prop, **v, "rule_doc": ctx.rule_docs.get(v["rule"], "")}, f, indent=1)
        replay_paths.append(path)
        lines.append(f"  {v['loc']}: [{v['rule']}] {v['construct']}: {v['detail']}")
        lines.append(f"VIOLATION property={prop} replay={path}")

    by_rule = {}
    for o in ctx.obligations:
        r = by_rule.setdefault(o["rule"], {"ok": 0, "exempt": 0, "violation": 0, "unclassified": 0})
        r[o["verdict"]] += 1
    n_obl = ctx.count()
    n_dis = ctx.count(verdicts=("ok", "exempt")) + len(matched)
    samples = []
    seen_rules = set()
    for o in ctx.obligations:  # one sample per rule first, then violations
        if o["rule"] not in seen_rules and o["verdict"] in ("ok", "exempt"):
            seen_rules.add(o["rule"])
            samples.append({k: o[k] for k in ("rule", "construct", "verdict", "loc", "detail")})
    for o in violations[:20]:
        samples.append({k: o[k] for k in ("rule", "construct", "verdict", "loc", "detail")})
    distinct = len({(o["rule"], o["construct"]) for o in ctx.obligations if o["verdict"] != "unclassified"})
    selftest = None
    if tier == "thorough" and not replay:
        from sa.selftest import run_selftest

        selftest = run_selftest(prop, {(o["rule"], o["construct"]) for o in violations})
        for ln in selftest.get("report_lines", []):
            lines.append(ln)
    wall = time.time() - t0
    evidence = {
        "property_id": prop,
        "tier": tier,
        "seed": seed,
        "level": "other",
        "coverage": {
            "explanation": LEVEL_TEXT.get(prop, "")
            + " Static analysis of /repo's current source (stdlib ast; dask_expr is never imported or run). "
            "A silent run means no structural necessary condition attached to this property is broken; "
            "it does not establish the behavioural property itself.",
            "obligations": n_obl,
            "discharged": n_dis,
            "evaluations": len(ctx.obligations),
            "distinct_nontrivial": distinct,
            "rule": "one obligation per (rule, construct) enumerated from the class model / syntax trees; "
            "distinct = distinct (rule, construct) pairs with a verdict (unclassified excluded)",
            "samples": samples,
            "by_rule": by_rule,
            "rules": ctx.rule_docs,
            "unclassified": [o for o in ctx.obligations if o["verdict"] == "unclassified"][:200],
            "known_findings_matched": [kf["id"] for _, kf in matched],
            "new_violations": [{k: v[k] for k in ("rule", "construct", "loc", "detail")} for v in new],
            "modules_parsed": sorted(m.rel for m in model.modules.values()),
            "classes": len(model.classes),
            "expr_classes": len(model.expr_classes()),
            "source_digest": model.digest(),
            "tables": ctx.tables,
            "checker_cmd": f"/venv/bin/python -m sa.check {prop} --tier {tier}",
            "trusted_base": ["CPython ast parser", "sa/model.py class model (bases, C3 MRO, constant folding)", "confirmed exception tables in sa/rules"],
            "exhaustive": True,
            "checker_selftest": {k: v for k, v in (selftest or {}).items() if k != "report_lines"} if selftest else "quick tier: not run (thorough tier replays the committed seeded defects and behaviour-preserving edits against this property's rules)",
        },
        "assumptions": [
            "the behaviour of pandas / dask core functions called by tasks is as documented",
            "classes are not modified dynamically (no metaclasses / monkeypatching in the package)",
            "exception tables in sa/rules/*.py were confirmed by reading and probing the reference tree",
        ],
        "wall_s": round(wall, 3),
        "violations": len(new),
    }
    if not replay:
        with open(os.path.join(EVID, f"{prop}.json"), "w") as f:
            json.dump(evidence, f, indent=1, default=str)

    for rid in sorted(by_rule):
        r = by_rule[rid]
        print(f"[{prop}] {rid}: ok={r['ok']} exempt={r['exempt']} violation={r['violation']} unclassified={r['unclassified']}")
    for ln in lines:
        print(ln)
    print(f"[{prop}] tier={tier} obligations={n_obl} discharged={n_dis} new_violations={len(new)} known={len(matched)} wall={wall:.2f}s")
    return 1 if new else 0


def main(argv=None):
    ap = argparse.ArgumentParser()
    ap.add_argument("prop")
    ap.add_argument("--tier", default=os.environ.get("VERIF_TIER", "quick"), choices=["quick", "thorough"])
    ap.add_argument("--replay")
    args = ap.parse_args(argv)
    try:
        rc = run(args.prop, args.tier, args.replay)
    except AnalysisError as e:
        print(f"ANALYSIS-ERROR property={args.prop} {e}")
        rc = 2
    except Exception:
        traceback.print_exc()
        print(f"ANALYSIS-ERROR property={args.prop} internal error in the checker (see traceback)")
        rc = 2
    sys.stdout.flush()
    return rc


if __name__ == "__main__":
    sys.exit(main())
