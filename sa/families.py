"""Class families computed from the model - used by R20a against the reference snapshot sa/data/classes_ref.json."""
from __future__ import annotations

import ast


def inert_simplify_up(model):
    """classes whose resolved _simplify_up never returns a replacement (no rule at all, or a body that only returns None):
    no parent is ever rewritten across them"""
    out = set()
    for c in model.expr_classes():
        m = c.provider("_simplify_up")
        if m is None or not isinstance(m.node, (ast.FunctionDef, ast.AsyncFunctionDef)):
            out.add(c.qual)
            continue
        rets = [r for r in ast.walk(m.node) if isinstance(r, ast.Return)]
        if all(r.value is None or (isinstance(r.value, ast.Constant) and r.value.value is None) for r in rets):
            out.add(c.qual)
    return out


def always_shuffle(model):
    """reduction classes whose resolved should_shuffle is the constant True: they are never planned as a tree reduction (their
    aggregate needs all rows of a group at once - a combine stage would aggregate partial groups)"""
    out = set()
    for c in model.expr_classes():
        m = c.provider("should_shuffle")
        if m is None or not isinstance(m.node, (ast.FunctionDef, ast.AsyncFunctionDef)):
            continue
        rets = [r for r in ast.walk(m.node) if isinstance(r, ast.Return)]
        if rets and all(isinstance(r.value, ast.Constant) and r.value.value is True for r in rets):
            out.add(c.qual)
    return out


FAMILY_FUNCS = {"inert_simplify_up": inert_simplify_up, "always_shuffle": always_shuffle}
