"""AST-computed mutants and twins for the thorough tier's checker self-test.

Every operator locates its sites with the class model / syntax trees of the CURRENT /repo tree and produces a
mutated copy of ONE file as text (the selftest writes it into a scratch copy of the package).  Breaking operators
are tied to the rule that must fire; twins are behaviour-preserving edits on which all rules must stay silent.
"""
from __future__ import annotations

import ast
import re

from sa.model import Model, dotted
from sa.rules import REGISTRY
from sa.rules.util import bind_call, ctor_target, is_self_attr, iter_body_nodes, own_methods

MAX_PER_OPERATOR = 6


def _rule_props():
    out = {}
    for p, rs in REGISTRY.items():
        for rid, _, _ in rs:
            out.setdefault(rid, set()).add(p)
    return out


def _splice(src, node, new_text):
    lines = src.split("\n")
    start = sum(len(l) + 1 for l in lines[: node.lineno - 1]) + _col(lines[node.lineno - 1], node.col_offset)
    end = sum(len(l) + 1 for l in lines[: node.end_lineno - 1]) + _col(lines[node.end_lineno - 1], node.end_col_offset)
    return src[:start] + new_text + src[end:]


def _col(line, byte_off):
    # ast offsets are utf-8 byte offsets
    return len(line.encode("utf-8")[:byte_off].decode("utf-8"))


def _span(src, node):
    lines = src.split("\n")
    start = sum(len(l) + 1 for l in lines[: node.lineno - 1]) + _col(lines[node.lineno - 1], node.col_offset)
    end = sum(len(l) + 1 for l in lines[: node.end_lineno - 1]) + _col(lines[node.end_lineno - 1], node.end_col_offset)
    return start, end


def _insert_in_class(src, cls_node, text):
    """insert a class-body line right after the class header / docstring"""
    first = cls_node.body[0]
    if isinstance(first, ast.Expr) and isinstance(first.value, ast.Constant) and isinstance(first.value.value, str) and len(cls_node.body) > 1:
        first = cls_node.body[1]
    lines = src.split("\n")
    indent = " " * first.col_offset
    ins_at = first.lineno - 1
    if getattr(first, "decorator_list", None):
        ins_at = min(d.lineno for d in first.decorator_list) - 1
    lines.insert(ins_at, indent + text)
    return "\n".join(lines)


def generate(model: Model):
    """yield (kind, id, rule|None, relpath, new_source)"""
    from sa.rules.r10 import KNOBS

    # 1. drop a forwarded keyword in a _lower (R10a)
    n = 0
    for c, m in own_methods(model, "_lower"):
        cparams = set(model.parameters(c))
        for call in (x for x in iter_body_nodes(m.node) if isinstance(x, ast.Call)):
            t = ctor_target(model, c.module, c, call)
            if t is None:
                continue
            K, _ = t
            dfl = model.defaults(K)
            for kw in call.keywords:
                if kw.arg and kw.arg in cparams and kw.arg in dfl and kw.arg not in KNOBS and kw.arg in model.parameters(K) and n < MAX_PER_OPERATOR:
                    s, e = _span(c.module.source, kw)
                    src = c.module.source
                    rest = re.match(r"\s*,?", src[e:]).end()
                    yield "mutant", f"drop-kw:{c.name}._lower->{K.name}:{kw.arg}", "R10a", c.module.rel, src[:s] + src[e + rest :]
                    n += 1
    # 2. pass-through flags on classes outside the tables
    for flag, rule_id, names in (
        ("_filter_passthrough = True", "R03e", ("Head", "Sample", "DropnaFrame", "Isin")),
        ("_is_length_preserving = True", "R06d", ("Head", "Sample", "DropnaFrame", "CombineFirst")),
        ("_projection_passthrough = True", "R04b", ("Sample", "DropnaSeries", "Query", "ToFrame")),
    ):
        for nm in names:
            c = model.cls(nm, "_expr")
            yield "mutant", f"flag:{nm}:{flag.split(' ')[0]}", rule_id, c.module.rel, _insert_in_class(c.module.source, c.node, flag)
    # 3. unknown-division length
    n = 0
    for mod, cls, fn in model.all_functions():
        if "division" not in fn.name.lower():
            continue
        for node in iter_body_nodes(fn):
            if isinstance(node, ast.BinOp) and isinstance(node.op, ast.Mult) and isinstance(node.left, (ast.Tuple, ast.List)) and len(node.left.elts) == 1 and isinstance(node.left.elts[0], ast.Constant) and node.left.elts[0].value is None:
                k = node.right
                if isinstance(k, ast.BinOp) and isinstance(k.op, ast.Add):
                    one = k.right if isinstance(k.right, ast.Constant) else k.left
                    if isinstance(one, ast.Constant) and one.value == 1 and n < MAX_PER_OPERATOR:
                        yield "mutant", f"plus-two:{(cls.name + '.') if cls else ''}{fn.name}@{node.lineno}", "R06b", mod.rel, _splice(mod.source, one, "2")
                        n += 1
    # 4. partial operand splat in _name
    n = 0
    for c, m in own_methods(model, "_name"):
        for a in (x for x in ast.walk(m.node) if isinstance(x, ast.Starred) and is_self_attr(x.value, "operands")):
            if n < MAX_PER_OPERATOR:
                yield "mutant", f"name-splat:{c.name}", "R08a", c.module.rel, _splice(c.module.source, a.value, "self.operands[1:]")
                n += 1
    # 5. strictness flips at range comparisons
    from sa.rules.r06 import R06F_SITES

    for mod, cls, fn in model.all_functions():
        fq = f"{cls.qual}.{fn.name}" if cls is not None else f"{mod.name.split('.', 1)[-1]}.{fn.name}"
        if fq not in R06F_SITES:
            continue
        for node in iter_body_nodes(fn):
            if isinstance(node, ast.Compare) and len(node.ops) == 1 and isinstance(node.ops[0], (ast.Lt, ast.GtE)):
                txt = ast.unparse(node)
                if ("maxes" in txt or "divisions[-1]" in txt) and ("mins" in txt or "divisions[0]" in txt):
                    s, e = _span(mod.source, node)
                    seg = mod.source[s:e]
                    new = seg.replace(" < ", " <= ", 1) if isinstance(node.ops[0], ast.Lt) else seg.replace(" >= ", " > ", 1)
                    if new != seg:
                        yield "mutant", f"strict-flip:{fq}", "R06f", mod.rel, mod.source[:s] + new + mod.source[e:]
    # 6. a join kind added to the side table
    merge = model.cls("Merge", "_merge")
    fpa = model.method(merge, "_filter_passthrough_available", own=True).node
    for r in (x for x in ast.walk(fpa) if isinstance(x, ast.Return) and isinstance(x.value, ast.Compare) and isinstance(x.value.comparators[0], ast.Tuple)):
        tup = x = r.value.comparators[0]
        yield "mutant", f"how-add:outer@{r.lineno}", "R03b", merge.module.rel, _splice(merge.module.source, tup.elts[-1], ast.unparse(tup.elts[-1]) + ', "outer"')
    # 7. memo key component dropped
    mod, gd = model.func("_shuffle", "_get_divisions")
    for a in (x for x in ast.walk(gd) if isinstance(x, ast.Assign) and isinstance(x.value, ast.Tuple) and any(isinstance(t, ast.Name) and t.id == "key" for t in x.targets)):
        elts = a.value.elts
        for drop in (2, 4):
            if len(elts) > drop:
                new = "(" + ", ".join(ast.unparse(e) for i, e in enumerate(elts) if i != drop) + ")"
                yield "mutant", f"memo-key-drop:{ast.unparse(elts[drop])}", "R15b", mod.rel, _splice(mod.source, a.value, new)
    # 8. a pickling hook added
    for nm in ("Head", "Filter"):
        c = model.cls(nm, "_expr")
        yield "mutant", f"add-reduce:{nm}", "R16a", c.module.rel, _insert_in_class(c.module.source, c.node, "def __reduce__(self): return type(self), tuple(self.operands[:1])")
    # 9. a copy removed before a mutation
    fm = model.cls("FromMap")
    ak = model.method(fm, "apply_kwargs", own=True).node
    for a in (x for x in ast.walk(ak) if isinstance(x, ast.Assign) and ast.unparse(x) == "kwargs = kwargs.copy()"):
        yield "mutant", "copy-removed:FromMap.apply_kwargs", "R05b", fm.module.rel, _splice(fm.module.source, a.value, "kwargs")
    mod, fn = model.func("_expr", "assign")
    for a in (x for x in ast.walk(fn) if isinstance(x, ast.Assign) and "copy(" in ast.unparse(x.value)):
        yield "mutant", "copy-removed:assign", "R05a", mod.rel, _splice(mod.source, a.value, ast.unparse(a.targets[0]))
    # 10. a key namespace built from the child's name
    n = 0
    for c, m in own_methods(model, "_layer"):
        for a in (x for x in iter_body_nodes(m.node) if isinstance(x, ast.Assign) and isinstance(x.value, (ast.BinOp, ast.JoinedStr))):
            for sub in ast.walk(a.value):
                if is_self_attr(sub, "_name") and "frame" in model.parameters(c) and len(model.parameters(c)) > 1 and n < MAX_PER_OPERATOR:
                    yield "mutant", f"namespace-from-child:{c.name}:{ast.unparse(a.targets[0])}", "R09d", c.module.rel, _splice(c.module.source, sub, "self.frame._name")
                    n += 1
                    break
    # 11. output key numbered by partition id
    ss = model.cls("SimpleShuffle")
    ly = model.method(ss, "_layer", own=True).node
    for t in (x for x in ast.walk(ly) if isinstance(x, ast.Tuple) and len(x.elts) == 2 and is_self_attr(x.elts[0], "_name") and isinstance(x.elts[1], ast.Name) and x.elts[1].id == "global_part"):
        yield "mutant", "output-key-by-id:SimpleShuffle", "R11a", ss.module.rel, _splice(ss.module.source, t.elts[1], "part_out")
        break

    # 12. co-alignment walk / identity weakened
    mod, fn = model.func("_expr", "are_co_aligned")
    for c in (x for x in ast.walk(fn) if isinstance(x, ast.Call) and ast.unparse(x.func) == "_tokenize_partial" and len(x.args) > 1 and isinstance(x.args[1], ast.List)):
        yield "mutant", "co-aligned:ignore-filters", "R02c", mod.rel, _splice(mod.source, c.args[1], ast.unparse(c.args[1])[:-1] + ', "filters"]')
    for c in (x for x in ast.walk(fn) if isinstance(x, ast.Call) and ast.unparse(x.func) == "stack.extend" and isinstance(x.args[0], ast.Name)):
        yield "mutant", "co-aligned:walk-first-dependency", "R02c", mod.rel, _splice(mod.source, c.args[0], f"{c.args[0].id}[:1]")
        yield "twin", "co-aligned:walk-skips-scalars", None, mod.rel, _splice(mod.source, c.args[0], f"[d for d in {c.args[0].id} if d.ndim > 0]")

    # 13. two adjacent, name-matched constructor arguments swapped

    n = 0
    for mod, cls, fn in model.all_functions():
        if n >= MAX_PER_OPERATOR:
            break
        for c in (x for x in iter_body_nodes(fn) if isinstance(x, ast.Call)):
            r = ctor_target(model, mod, cls, c)
            if r is None or any(isinstance(a, ast.Starred) for a in c.args):
                continue
            params = model.parameters(r[0])
            for i in range(1, min(len(c.args), len(params)) - 1):
                a1, a2 = c.args[i], c.args[i + 1]
                if isinstance(a1, ast.Name) and isinstance(a2, ast.Name) and a1.id == params[i] and a2.id == params[i + 1] and a1.lineno == a2.lineno and n < MAX_PER_OPERATOR:
                    s1, e1 = _span(mod.source, a1)
                    s2, e2 = _span(mod.source, a2)
                    src = mod.source[:s1] + a2.id + mod.source[e1:s2] + a1.id + mod.source[e2:]
                    yield "mutant", f"swap-args:{fn.name}->{r[0].name}:{a1.id}<->{a2.id}", "R01h", mod.rel, src
                    n += 1
                    break

    # 14. repairs reverted: each of these takes back one guard that a `fix:` commit added; the rule written for the defect must
    #     fire again.  Sites are located in a fresh parse of the module source (positions of the original text).
    from sa.rules.util import pfind

    def _fresh(modname):
        mod = model.modules[modname if modname.startswith("dask_expr") else f"dask_expr.{modname}"]
        return mod, ast.parse(mod.source)

    def _drop_stmt(mod, st):
        # replace a statement by `pass` (keeps the block well-formed)
        return _splice(mod.source, st, "pass")

    try:
        mod, tree = _fresh("_shuffle")
        for fn in (x for x in tree.body if isinstance(x, ast.FunctionDef) and x.name == "_calculate_divisions"):
            for b_ in (x for x in ast.walk(fn) if isinstance(x, ast.BoolOp) and isinstance(x.op, ast.Or) and "nulls.any()" in ast.unparse(x)):
                yield "mutant", "revert:presorted-ignores-missing-keys", "R10h", mod.rel, _splice(mod.source, b_, "mins.isna().any() or maxes.isna().any()")
        for cdef in (x for x in tree.body if isinstance(x, ast.ClassDef) and x.name == "SortValues"):
            for a_ in (x for x in cdef.body if isinstance(x, ast.Assign) and ast.unparse(x.targets[0]) == "_defaults" and isinstance(x.value, ast.Dict)):
                for k_, v_ in zip(a_.value.keys, a_.value.values):
                    if isinstance(k_, ast.Constant) and k_.value == "options":
                        yield "mutant", "revert:required-parameter-not-supplied:SortValues.options", "R01l", mod.rel, _splice(mod.source, k_, "'options_'")
        for cdef in (x for x in tree.body if isinstance(x, ast.ClassDef) and x.name == "_SetIndexPost"):
            for fn in (x for x in cdef.body if isinstance(x, ast.FunctionDef) and x.name == "_get_culled_divisions"):
                for lc in (x for x in ast.walk(fn) if isinstance(x, ast.ListComp) and "for part in partitions" in ast.unparse(x)):
                    yield "mutant", "revert:selection-as-set:_SetIndexPost", "R11i", mod.rel, _splice(mod.source, lc, "[div for i, div in enumerate(divisions) if i in partitions._partitions]".replace("partitions._partitions", "part_filter[0]._partitions"))
        for cdef in (x for x in tree.body if isinstance(x, ast.ClassDef) and x.name in ("SetIndex", "SortValues", "SetIndexBlockwise")):
            for fn in (x for x in cdef.body if isinstance(x, ast.FunctionDef) and x.name == "_simplify_up"):
                for st in (x for x in ast.walk(fn) if isinstance(x, ast.Assign) and isinstance(x.value, ast.ListComp) and ast.unparse(x.value.generators[0].iter) == "self.frame.columns" and ast.unparse(x.targets[0]) == "columns"):
                    yield "mutant", f"revert:prune-input-unrestricted:{cdef.name}", "R04i", mod.rel, _drop_stmt(mod, st)
    except Exception:  # noqa: BLE001
        pass
    try:
        mod, tree = _fresh("_shuffle")
        for cdef in (x for x in tree.body if isinstance(x, ast.ClassDef) and x.name == "ShuffleBase"):
            for fn in (x for x in cdef.body if isinstance(x, ast.FunctionDef) and x.name == "_filter_passthrough_available"):
                for st in (x for x in fn.body if isinstance(x, ast.If) and "partitioning_index" in ast.unparse(x.test)):
                    yield "mutant", "revert:shuffle-key-collection-guard", "R03g", mod.rel, _drop_stmt(mod, st)
            for fn in (x for x in cdef.body if isinstance(x, ast.FunctionDef) and x.name == "_simplify_up"):
                for st in (x for x in fn.body if isinstance(x, ast.If) and "_filtered" in ast.unparse(x.test)):
                    yield "mutant", "revert:reduction-below-filtered-shuffle-guard", "R11f", mod.rel, _drop_stmt(mod, st)
            for st in (x for x in cdef.body if isinstance(x, ast.Assign) and ast.unparse(x.targets[0]) == "_filter_passthrough_reorders_rows"):
                yield "mutant", "revert:shuffle-reorders-rows-flag", "R03i", mod.rel, _splice(mod.source, st.value, "False")
    except Exception:  # noqa: BLE001 - a vanished site is reported by the rules themselves
        pass
    try:
        mod, tree = _fresh("_expr")
        for fn in (x for x in tree.body if isinstance(x, ast.FunctionDef) and x.name == "is_valid_blockwise_op"):
            for c in (x for x in ast.walk(fn) if isinstance(x, ast.Compare) and "_layer" in ast.unparse(x)):
                yield "mutant", "revert:hand-written-layer-not-fusable", "R14d", mod.rel, _splice(mod.source, c, "True")
        for fn in (x for x in tree.body if isinstance(x, ast.FunctionDef) and x.name == "is_filter_pushdown_available"):
            for w in (x for x in ast.walk(fn) if isinstance(x, ast.While)):
                for st in (x for x in ast.walk(w) if isinstance(x, ast.Return)):
                    yield "mutant", "revert:foreign-term-below-reordering-operator", "R03i", mod.rel, _splice(mod.source, st, "continue")
            for st in (x for x in fn.body if isinstance(x, ast.If) and ".frame._name" in ast.unparse(x.test)):
                yield "mutant", "revert:filter-on-predicate-guard", "R03d", mod.rel, _drop_stmt(mod, st)
    except Exception:  # noqa: BLE001
        pass
    try:
        mod, tree = _fresh("_expr")
        for cdef in (x for x in tree.body if isinstance(x, ast.ClassDef) and x.name in ("BlockwiseHead", "BlockwiseTail")):
            for fn in (x for x in cdef.body if isinstance(x, ast.FunctionDef) and x.name == "_simplify_down"):
                # rename the override away: the class inherits the logical rule again
                yield "mutant", f"revert:physical-twin-inherits-logical-rule:{cdef.name}", "R11h", mod.rel, _splice(mod.source, fn, ast.unparse(fn).replace("def _simplify_down(", "def _simplify_down_disabled(", 1).replace("\n", "\n    "))
        for cdef in (x for x in tree.body if isinstance(x, ast.ClassDef) and x.name in ("MaybeAlignPartitions", "OpAlignPartitions")):
            for fn in (x for x in cdef.body if isinstance(x, ast.FunctionDef) and x.name == "_lower"):
                for b_ in (x for x in ast.walk(fn) if isinstance(x, ast.BoolOp) and isinstance(x.op, ast.And) and "len(self.divisions) == 2" in ast.unparse(x) and "npartitions == 1" in ast.unparse(x)):
                    yield "mutant", f"revert:align-shortcut-two-divisions:{cdef.name}", "R02d", mod.rel, _splice(mod.source, b_, "len(self.divisions) == 2")
                    break
        for fn in (x for x in tree.body if isinstance(x, ast.FunctionDef) and x.name == "calc_divisions_for_align"):
            for st in (x for x in fn.body if isinstance(x, ast.If) and "dfs[0].divisions" in ast.unparse(x.test)):
                yield "mutant", "revert:align-identical-divisions-dedup", "R02d", mod.rel, _drop_stmt(mod, st)
        for cdef in (x for x in tree.body if isinstance(x, ast.ClassDef) and x.name in ("Binop", "AddPrefixSeries")):
            for fn in (x for x in cdef.body if isinstance(x, ast.FunctionDef) and x.name == "_divisions"):
                for st in (x for x in ast.walk(fn) if isinstance(x, ast.If) and "valid_divisions" in ast.unparse(x.test)):
                    yield "mutant", f"revert:mapped-divisions-unchecked:{cdef.name}", "R06i", mod.rel, _drop_stmt(mod, st)
        for cdef in (x for x in tree.body if isinstance(x, ast.ClassDef) and x.name in ("Head", "Tail")):
            for fn in (x for x in cdef.body if isinstance(x, ast.FunctionDef) and x.name == "_simplify_up"):
                for c_ in (x for x in ast.walk(fn) if isinstance(x, ast.Compare) and isinstance(x.ops[0], ast.In) and ast.unparse(x.comparators[0]) == "parent._parameters"):
                    yield "mutant", f"revert:unguarded-parent-parameter:{cdef.name}", "R01k", mod.rel, _splice(mod.source, c_, "True")
        for cdef in (x for x in tree.body if isinstance(x, ast.ClassDef) and x.name == "ResetIndex"):
            for fn in (x for x in cdef.body if isinstance(x, ast.FunctionDef) and x.name == "_simplify_up"):
                for st in (x for x in ast.walk(fn) if isinstance(x, ast.Assign) and ast.unparse(x.value) == "predicate.substitute(self, self.frame)"):
                    yield "mutant", "revert:reset-index-partial-predicate-translation", "R03k", mod.rel, _drop_stmt(mod, st)
        for fn in (x for x in tree.body if isinstance(x, ast.FunctionDef) and x.name == "_fused_placeholder"):
            for r_ in (x for x in ast.walk(fn) if isinstance(x, ast.Return)):
                yield "mutant", "revert:fused-string-placeholders", "R14c", mod.rel, _splice(mod.source, r_.value, "'_' + str(i)")
        for cdef in (x for x in tree.body if isinstance(x, ast.ClassDef) and x.name == "Fused"):
            for fn in (x for x in cdef.body if isinstance(x, ast.FunctionDef) and x.name == "_execute_task"):
                for a_ in (x for x in ast.walk(fn) if isinstance(x, ast.Assign) and "literal" in ast.unparse(x.value)):
                    yield "mutant", "revert:fused-inputs-executed", "R14c", mod.rel, _splice(mod.source, a_.value, "dep")
            for fn in (x for x in cdef.body if isinstance(x, ast.FunctionDef) and x.name == "_task"):
                for a_ in (x for x in ast.walk(fn) if isinstance(x, ast.Assign) and isinstance(x.value, ast.IfExp) and "_broadcast_dep" in ast.unparse(x.value.test)):
                    yield "mutant", "revert:fused-nested-broadcast-index", "R14c", mod.rel, _splice(mod.source, a_.value, "index")
                for d_ in (x for x in ast.walk(fn) if isinstance(x, ast.DictComp) and x.generators[0].ifs):
                    yield "mutant", "revert:fused-nested-placeholders-merged", "R14c", mod.rel, _splice(mod.source, d_, "subgraph")
        for fn in (x for x in tree.body if isinstance(x, ast.FunctionDef) and x.name == "_length_determining_input"):
            for st in (x for x in fn.body if isinstance(x, ast.If) and "_length_root" in ast.unparse(x.test)):
                yield "mutant", "revert:len-of-label-matched-inputs", "R06g", mod.rel, _splice(mod.source, st.test, "True")
        for fn in (x for x in tree.body if isinstance(x, ast.FunctionDef) and x.name == "_is_row_aligned_input"):
            for st in (x for x in fn.body if isinstance(x, ast.Return) and "divisions" in ast.unparse(x)):
                yield "mutant", "revert:head-tail-single-partition-row-aligned", "R01c", mod.rel, _splice(mod.source, st.value, "False")
            for st in (x for x in fn.body if isinstance(x, ast.If) and isinstance(x.test, ast.UnaryOp)):
                yield "mutant", "flip:row-aligned-input-polarity", "R01c", mod.rel, _splice(mod.source, st.test, ast.unparse(st.test.operand))
    except Exception:  # noqa: BLE001
        pass
    try:
        mod, tree = _fresh("_groupby")
        for fn in (x for x in tree.body if isinstance(x, ast.FunctionDef) and x.name == "groupby_projection"):
            for st in (x for x in ast.walk(fn) if isinstance(x, ast.If) and "_slice" in ast.unparse(x.test)):
                yield "mutant", "revert:groupby-slice-follows-pruned-frame", "R04j", mod.rel, _drop_stmt(mod, st)
        for cdef in (x for x in tree.body if isinstance(x, ast.ClassDef) and x.name == "Cov"):
            for fn in (x for x in cdef.body if isinstance(x, ast.FunctionDef) and x.name == "_simplify_up"):
                yield "mutant", "revert:groupby-cov-prunes-input", "R04k", mod.rel, _splice(mod.source, fn, "_simplify_up_disabled = None")
        mod, tree = _fresh("_rolling")
        for cdef in (x for x in tree.body if isinstance(x, ast.ClassDef) and x.name == "RollingCov"):
            for fn in (x for x in cdef.body if isinstance(x, ast.FunctionDef) and x.name == "_simplify_up"):
                yield "mutant", "revert:rolling-cov-prunes-input", "R04k", mod.rel, _splice(mod.source, fn, "_simplify_up_disabled = None")
        for cdef in (x for x in tree.body if isinstance(x, ast.ClassDef) and x.name == "RollingReduction"):
            for st in (x for x in ast.walk(cdef) if isinstance(x, ast.If) and "groupby_slice" in ast.unparse(x.test)):
                yield "mutant", "revert:rolling-groupby-slice-follows-pruned-frame", "R04j", mod.rel, _drop_stmt(mod, st)
    except Exception:  # noqa: BLE001
        pass
    try:
        mod, tree = _fresh("_reductions")
        for cdef in (x for x in tree.body if isinstance(x, ast.ClassDef) and x.name == "ShuffleReduce"):
            for st in (x for x in ast.walk(cdef) if isinstance(x, ast.If) and ast.unparse(x.test) == "column == '__series__'"):
                yield "mutant", "revert:series-placeholder-leaks", "R07e", mod.rel, _drop_stmt(mod, st)
            for c_ in (x for x in ast.walk(cdef) if isinstance(x, ast.Call) and isinstance(x.func, ast.Name) and x.func.id == "_get_shuffle_preferring_order"):
                yield "mutant", "revert:shuffle-reduce-default-disk", "R10j", mod.rel, _splice(mod.source, c_, "self.shuffle_method")
    except Exception:  # noqa: BLE001
        pass
    for _modname, _cname in (("_resample", "ResampleAggregation"), ("_rolling", "RollingAggregation")):
        try:
            mod, tree = _fresh(_modname)
            for cdef in (x for x in tree.body if isinstance(x, ast.ClassDef) and x.name == _cname):
                for fn in (x for x in cdef.body if isinstance(x, ast.FunctionDef) and x.name == "_meta"):
                    s_, e_ = _span(mod.source, fn)
                    bs, _be = _span(mod.source, fn.body[0])
                    yield "mutant", f"revert:lowered-node-declares-input-schema:{_cname}", "R07f", mod.rel, mod.source[:bs] + "return self.frame._meta\n" + mod.source[e_:]
        except Exception:  # noqa: BLE001
            pass
    try:
        mod, tree = _fresh("io.csv")
        for cdef in (x for x in tree.body if isinstance(x, ast.ClassDef) and x.name == "ReadCSV"):
            for fn in (x for x in cdef.body if isinstance(x, ast.FunctionDef) and x.name == "_meta"):
                for st in (x for x in fn.body if isinstance(x, ast.If)):
                    yield "mutant", "revert:absorbing-source-keeps-reader-columns", "R07g", mod.rel, _drop_stmt(mod, st)
    except Exception:  # noqa: BLE001
        pass
    try:
        mod, tree = _fresh("io.parquet")
        for cdef in (x for x in tree.body if isinstance(x, ast.ClassDef) and x.name == "ReadParquet"):
            for fn in (x for x in cdef.body if isinstance(x, ast.FunctionDef) and x.name == "_filter_passthrough_available"):
                for u in (x for x in ast.walk(fn) if isinstance(x, ast.UnaryOp) and ast.unparse(x) == "not self._filtered"):
                    yield "mutant", "revert:reader-absorbs-filter-after-selection", "R18e", mod.rel, _splice(mod.source, u, "True")
    except Exception:  # noqa: BLE001
        pass
    try:
        mod, tree = _fresh("_repartition")
        for cdef in (x for x in tree.body if isinstance(x, ast.ClassDef) and x.name == "Repartition"):
            for fn in (x for x in cdef.body if isinstance(x, ast.FunctionDef) and x.name == "npartitions"):
                for r_ in (x for x in ast.walk(fn) if isinstance(x, ast.Return) and "len(self.divisions)" in ast.unparse(x)):
                    yield "mutant", "revert:repartition-reports-requested-count", "R06h", mod.rel, _splice(mod.source, r_.value, "new_partitions")
    except Exception:  # noqa: BLE001
        pass
    try:
        mod, tree = _fresh("_merge")
        for cdef in (x for x in tree.body if isinstance(x, ast.ClassDef) and x.name == "Merge"):
            for fn in (x for x in cdef.body if isinstance(x, ast.FunctionDef) and x.name == "_divisions"):
                for st in (x for x in ast.walk(fn) if isinstance(x, ast.If) and "_is_single_partition_broadcast" in ast.unparse(x.test) and "npartitions !=" in ast.unparse(x.test)):
                    yield "mutant", "revert:index-join-merged-divisions-first", "R10k", mod.rel, _drop_stmt(mod, st)
        for cdef in (x for x in tree.body if isinstance(x, ast.ClassDef) and x.name == "BroadcastJoin"):
            for fn in (x for x in cdef.body if isinstance(x, ast.FunctionDef) and x.name == "_layer"):
                for nm in (x for x in ast.walk(fn) if isinstance(x, ast.Name) and x.id == "_split_partition_like_shuffle"):
                    yield "mutant", "revert:broadcast-join-foreign-splitter", "R10i", mod.rel, _splice(mod.source, nm, "_split_partition")
            for fn in (x for x in cdef.body if isinstance(x, ast.FunctionDef) and x.name == "broadcast_side"):
                s_, e_ = _span(mod.source, cdef)
                yield "mutant", "revert:broadcast-side-rederived", "R10g", mod.rel, mod.source[:s_] + mod.source[s_:e_].replace("def broadcast_side(self)", "def _broadcast_side_disabled(self)", 1) + mod.source[e_:]
            for fn in (x for x in cdef.body if isinstance(x, ast.FunctionDef) and x.name == "_divisions"):
                for r_ in (x for x in ast.walk(fn) if isinstance(x, ast.Return)):
                    yield "mutant", "revert:broadcast-join-copies-divisions", "R06j", mod.rel, _splice(mod.source, r_.value, "other.divisions")
        for cdef in (x for x in tree.body if isinstance(x, ast.ClassDef) and x.name == "Merge"):
            for fn in (x for x in cdef.body if isinstance(x, ast.FunctionDef) and x.name == "_filter_passthrough_available"):
                for st in (x for x in ast.walk(fn) if isinstance(x, ast.If) and ".right" in ast.unparse(x.test) and "_get_original_predicate_columns" in ast.unparse(x.test)):
                    yield "mutant", "revert:join-splits-conjunction-with-reduction", "R03j", mod.rel, _drop_stmt(mod, st)
            for fn in (x for x in cdef.body if isinstance(x, ast.FunctionDef) and x.name == "_get_original_predicate_columns"):
                for st in (x for x in ast.walk(fn) if isinstance(x, ast.If) and "Elemwise" in ast.unparse(x.test)):
                    yield "mutant", "revert:join-lets-non-rowwise-predicate-pass", "R03j", mod.rel, _drop_stmt(mod, st)
        for c in (x for x in ast.walk(tree) if isinstance(x, ast.UnaryOp) and isinstance(x.op, ast.Not) and "leftsemi" in ast.unparse(x) and "broadcast_side" in ast.unparse(x)):
            yield "mutant", "revert:leftsemi-left-broadcast", "R10f", mod.rel, _splice(mod.source, c, "True")
    except Exception:  # noqa: BLE001
        pass
    try:
        mod, tree = _fresh("_collection")
        for cdef in (x for x in tree.body if isinstance(x, ast.ClassDef) and x.name == "FrameBase"):
            for fn in (x for x in cdef.body if isinstance(x, ast.FunctionDef) and x.name == "divisions" and any(ast.unparse(d) == "property" for d in x.decorator_list)):
                dec = next(d for d in fn.decorator_list if ast.unparse(d) == "property")
                yield "mutant", "cache-on-mutable-collection:FrameBase.divisions", "R15f", mod.rel, _splice(mod.source, dec, "functools.cached_property")
    except Exception:  # noqa: BLE001
        pass
    try:
        mod, tree = _fresh("_util")
        for fn in (x for x in tree.body if isinstance(x, ast.FunctionDef) and x.name == "_tokenize_deterministic"):
            for st in (x for x in fn.body if isinstance(x, ast.Assign) and "_keep_dict_order" in ast.unparse(x.value) and ast.unparse(x.targets[0]) == "args"):
                yield "mutant", "revert:dict-order-in-names", "R08e", mod.rel, _drop_stmt(mod, st)
    except Exception:  # noqa: BLE001
        pass
    try:
        mod, tree = _fresh("_merge_asof")
        for cdef in (x for x in tree.body if isinstance(x, ast.ClassDef) and x.name == "MergeAsof"):
            for fn in (x for x in cdef.body if isinstance(x, ast.FunctionDef) and x.name == "_additional_key_columns"):
                for r_ in (x for x in ast.walk(fn) if isinstance(x, ast.Return)):
                    yield "mutant", "revert:merge-asof-by-keys", "R04c", mod.rel, _splice(mod.source, r_.value, "([], [])")
    except Exception:  # noqa: BLE001
        pass
    try:
        mod, tree = _fresh("_reductions")
        for a_ in (x for x in ast.walk(tree) if isinstance(x, ast.Assign) and ast.unparse(x.targets[0]) == "shuffle_by"):
            yield "mutant", "revert:renamed-frame-key", "R12b", mod.rel, _splice(mod.source, a_.value, "split_by")
    except Exception:  # noqa: BLE001
        pass

    # ---- twins -------------------------------------------------------------------------------------
    def rename_local(modname, owner, fname, old, new):
        if owner:
            c = model.cls(owner, modname)
            fn, mod = model.method(c, fname, own=True).node, c.module
        else:
            mod, fn = model.func(modname, fname)
        s, e = _span(mod.source, fn)
        seg = re.sub(rf"(?<![\w.]){old}(?![\w])", new, mod.source[s:e])
        return mod.rel, mod.source[:s] + seg + mod.source[e:]

    for args in (
        ("_shuffle", None, "_get_divisions", "key", "cache_key"),
        ("_shuffle", "SimpleShuffle", "_layer", "dsk", "graph"),
        ("_shuffle", "TaskShuffle", "_layer", "dsk2", "final_layer"),
        ("_merge", "Merge", "_simplify_up", "predicate_cols", "pcols"),
        ("_expr", None, "plain_column_projection", "column_union", "needed"),
        ("_expr", "Fused", "_task", "graph", "subgraph_"),
        ("_repartition", "RepartitionDivisions", "_layer", "token", "tok"),
        ("io.parquet", None, "to_parquet", "read_path_with_slash", "rp"),
        ("_expr", "Partitions", "_simplify_down", "operands", "new_operands"),
        ("io.io", "FromPandas", "_filtered_task", "part", "piece"),
        ("_expr", None, "are_co_aligned", "dependencies", "deps"),
        ("_expr", None, "optimize_blockwise_fusion", "dependents", "consumers_of"),
    ):
        try:
            rel, src = rename_local(*args)
            yield "twin", f"rename:{args[1] or ''}.{args[2]}:{args[3]}->{args[4]}", None, rel, src
        except Exception:
            continue
    # comments + blank line at the top of rule bodies
    n = 0
    for c, m in own_methods(model, "_simplify_up"):
        if n >= 6:
            break
        first = m.node.body[0]
        lines = c.module.source.split("\n")
        indent = " " * first.col_offset
        lines.insert(first.lineno - 1, indent + "# selftest twin: a comment and a blank line change nothing")
        lines.insert(first.lineno, "")
        yield "twin", f"comment:{c.name}._simplify_up", None, c.module.rel, "\n".join(lines)
        n += 1


def mutant_jobs(prop, repo):
    model = Model(repo)
    rp = _rule_props()
    jobs = []
    # whole-tree twin: every module re-emitted from its syntax tree (comments gone, quotes, line breaks and parentheses
    # normalised) - nothing a rule looks at may depend on layout
    jobs.append(("twin", "reformat:whole-tree", ("*", "reformat")))
    # whole-tree twin: every local variable of every function renamed
    jobs.append(("twin", "rename-locals:whole-tree", ("*", "rename_locals")))
    # whole-tree twins: methods of every class / functions of every module change places
    jobs.append(("twin", "reverse-methods:whole-tree", ("*", "reverse_methods")))
    jobs.append(("twin", "reverse-module-functions:whole-tree", ("*", "reverse_module_functions")))
    # whole-tree twins on control flow: early exits written as if/else, two-armed ifs with swapped arms
    jobs.append(("twin", "nest-else:whole-tree", ("*", "nest_else")))
    jobs.append(("twin", "swap-arms:whole-tree", ("*", "swap_arms")))
    # whole-tree twins on idiom: self.p <-> self.operand("p") for unshadowed parameters, isinstance tuples split into `or`,
    # dict(...) calls written as literals
    jobs.append(("twin", "operand-access:whole-tree", ("*", "operand_access")))
    jobs.append(("twin", "split-isinstance:whole-tree", ("*", "split_isinstance")))
    jobs.append(("twin", "dict-literals:whole-tree", ("*", "dict_literals")))
    for kind, jid, rule_id, rel, src in generate(model):
        try:
            ast.parse(src)
        except SyntaxError:
            continue
        if kind == "mutant" and prop not in rp.get(rule_id, ()):
            continue
        jobs.append((kind, jid, (rel, src)))
    return jobs
