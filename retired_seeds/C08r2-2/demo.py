"""C08 / defect 2: the names and task keys of a query must not depend on
PYTHONHASHSEED.

The same query (set_index + column selection on a frame whose column labels
mix ints and strings) is built and optimized in several fresh interpreters that
differ only in their hash seed; all of them must report identical expression
names and identical task keys.
"""
import os
import subprocess
import sys

CHILD = r"""
import os, sys
sys.path.insert(0, os.getcwd())
import pandas as pd
import dask_expr as dx

pdf = pd.DataFrame(
    {0: range(12), "a": [5, 3, 8, 1, 9, 0, 2, 7, 4, 6, 11, 10],
     "b": range(12), 1: range(12), "c": range(12), "d": range(12), "e": range(12)}
)
df = dx.from_pandas(pdf, npartitions=3)
q = df.set_index("a", shuffle_method="tasks")[["d", 0, "b", "e"]]
opt = q.optimize(fuse=False)
names = sorted(e._name for e in opt.expr.walk())
keys = sorted(map(str, opt.__dask_graph__()))
res = q.compute()
assert res.equals(pdf.set_index("a")[["d", 0, "b", "e"]].sort_index()), res
print(q._name)
print("|".join(names))
print("|".join(keys))
"""


def run(seed):
    env = dict(os.environ, PYTHONHASHSEED=str(seed))
    out = subprocess.run(
        [sys.executable, "-c", CHILD], env=env, cwd=os.getcwd(),
        capture_output=True, text=True,
    )
    if out.returncode != 0:
        print(out.stderr)
        raise SystemExit(2)
    return out.stdout


outputs = {seed: run(seed) for seed in range(6)}
distinct = set(outputs.values())
for seed, out in outputs.items():
    print(seed, hash(out) % 10**6, out.splitlines()[1][:150])
assert len(distinct) == 1, (
    f"the same query got {len(distinct)} different sets of names/task keys "
    "under different PYTHONHASHSEED values"
)
print("ok")
