"""C14 seed 2 demo: fusing a label slice with the partitionwise operations around
it must not change any output partition.

``df.loc[a:b]`` is a partitionwise (Blockwise) operation and is fused together
with partitionwise consumers such as ``+ 1`` or a column selection.  The fused
plan must produce exactly the partitions of the unfused plan.
"""
import os
import sys

sys.path.insert(0, os.getcwd())

import dask
import pandas as pd

import dask_expr  # noqa: F401
from dask_expr import from_pandas
from dask_expr._expr import Fused
from dask_expr._indexing import LocSlice


def partitions(coll, fuse):
    opt = coll.optimize(fuse=fuse)
    return opt, dask.get(opt.__dask_graph__(), opt.__dask_keys__())


pdf = pd.DataFrame({"x": range(40), "y": [float(i) / 2 for i in range(40)]})
df = from_pandas(pdf, npartitions=4)  # divisions (0, 10, 20, 30, 39)

cases = {
    "df.loc[2:5] + 1": (df.loc[2:5] + 1, pdf.loc[2:5] + 1),
    "df.loc[:5].x * 2": (df.loc[:5].x * 2, pdf.loc[:5].x * 2),
    "df.loc[3:7, ['y']] - 1": (df.loc[3:7, ["y"]] - 1, pdf.loc[3:7, ["y"]] - 1),
    # slices that span several partitions
    "df.loc[:25] + 1": (df.loc[:25] + 1, pdf.loc[:25] + 1),
    "df.loc[0:39] + 1": (df.loc[0:39] + 1, pdf.loc[0:39] + 1),
}

for label, (expr, expected) in cases.items():
    unfused, parts_u = partitions(expr, fuse=False)
    fused, parts_f = partitions(expr, fuse=True)

    # the slice really is part of a fused group
    groups = list(fused.expr.find_operations(Fused))
    assert any(isinstance(e, LocSlice) for g in groups for e in g.exprs), label

    assert fused.npartitions == unfused.npartitions, label
    assert fused.divisions == unfused.divisions, label
    assert len(parts_f) == len(parts_u), label
    for i, (f, u) in enumerate(zip(parts_f, parts_u)):
        assert len(f) == len(u), (
            f"{label}: partition {i} has {len(f)} rows in the fused plan, "
            f"{len(u)} rows in the unfused plan"
        )
        if isinstance(u, pd.Series):
            pd.testing.assert_series_equal(f, u, obj=f"{label}: partition {i}")
        else:
            pd.testing.assert_frame_equal(f, u, obj=f"{label}: partition {i}")

    # and the ordinary entry point (which fuses) agrees with pandas
    result = expr.compute()
    assert len(result) == len(expected), (label, len(result), len(expected))
    if isinstance(expected, pd.Series):
        pd.testing.assert_series_equal(result, expected)
    else:
        pd.testing.assert_frame_equal(result, expected)
print("OK")
