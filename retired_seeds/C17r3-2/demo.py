"""C17 demo 2: cut at a node with unknown divisions, then combine with the rest.

Query (uncut):   d = df.reset_index()            # unknown divisions
                 a = d.x + 1
                 out = a * d.y
Cut:             `a` is materialised (persist / delayed round trip / legacy round
                 trip) and the remaining `* d.y` is applied to the re-imported series.
"""
import os
import sys

sys.path.insert(0, os.getcwd())  # run from the worktree root

import dask
import numpy as np
import pandas as pd

from dask_expr import from_delayed, from_legacy_dataframe, from_pandas

dask.config.set(scheduler="sync")

pdf = pd.DataFrame(
    {"x": np.arange(20) % 7, "y": np.arange(20) * 2.0}, index=np.arange(20) * 3
)
d = from_pandas(pdf, npartitions=4).reset_index()
assert not d.known_divisions

a = d.x + 1
uncut = a * d.y
expected = (pdf.reset_index().x + 1) * pdf.reset_index().y
np.testing.assert_array_equal(uncut.compute().to_numpy(), expected.to_numpy())

cuts = {
    "persist": a.persist(),
    "delayed": from_delayed(a.to_delayed(), meta=a._meta, divisions=a.divisions),
    "legacy": from_legacy_dataframe(a.to_legacy_dataframe()),
}
for kind, imported in cuts.items():
    cut = imported * d.y
    assert cut.divisions == uncut.divisions, (kind, cut.divisions, uncut.divisions)
    try:
        got = cut.compute()
    except Exception as e:  # noqa: BLE001
        raise AssertionError(
            f"{kind} cut: continuing the query on the re-imported collection "
            f"failed with {type(e).__name__}: {e}"
        ) from e
    pd.testing.assert_series_equal(got, uncut.compute())
print("OK")
