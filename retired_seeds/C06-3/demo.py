"""Demo for seeded defect C06/3.

len() / shape / size of a collection must equal the row count of the computed
data.  combine_first() returns the *union* of the two indexes, so when the two
(co-aligned) operands do not carry the same labels the result is longer than
the calling frame.
"""
import os
import sys

sys.path.insert(0, os.getcwd())  # run from the worktree root

import dask
import pandas as pd

from dask_expr import from_pandas

dask.config.set(scheduler="synchronous")

pdf = pd.DataFrame(
    {
        "x": [1.0, None, 3.0, 4.0, 5.0, 6.0, 7.0, 8.0],
        "y": [None, 2.0, 3.0, None, 5.0, 6.0, None, 1.0],
    }
)
df = from_pandas(pdf, npartitions=3)

# sanity: identical labels on both sides -> length is that of the caller
same = df.x.combine_first(df.y)
assert len(same) == len(same.compute()) == len(pdf)

failures = []

# Series: both operands derive from the same source (co-aligned, no
# repartitioning needed) but were filtered differently.
left, right = df.x[df.x > 4], df.y[df.y < 4]
s = left.combine_first(right)
expected = pdf.x[pdf.x > 4].combine_first(pdf.y[pdf.y < 4])
computed = s.compute()
pd.testing.assert_series_equal(computed.sort_index(), expected.sort_index())
if len(s) != len(computed):
    failures.append(("series len", len(s), len(computed)))
if int(s.size.compute()) != computed.size:
    failures.append(("series size", int(s.size.compute()), computed.size))
if int(s.shape[0].compute()) != computed.shape[0]:
    failures.append(("series shape", int(s.shape[0].compute()), computed.shape[0]))

# DataFrame, with further element-wise work on top
d = df[df.x > 4].combine_first(df[df.y < 4]) + 1
computed = d.compute()
if len(d) != len(computed):
    failures.append(("frame len", len(d), len(computed)))
if int(d.shape[0].compute()) != computed.shape[0]:
    failures.append(("frame shape", int(d.shape[0].compute()), computed.shape[0]))

assert not failures, f"(what, reported, rows actually computed): {failures}"
print("OK")
